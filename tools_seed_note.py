#!/usr/bin/env python3
"""tools_seed_note.py <Sxx dir name> <detection text>"""
import json, sys
p = "/verif/seeded/%s/meta.json" % sys.argv[1]
m = json.load(open(p)); m["detection"] = sys.argv[2]; json.dump(m, open(p, "w"), indent=1)
