#!/bin/bash
# run /repo's own test suite (guard off) on the current working tree; prints pass/fail totals
cd /repo && CARGO_NET_OFFLINE=true CARGO_TARGET_DIR=${SUITE_TARGET:-/var/tmp/suite_target} cargo test --workspace --no-fail-fast --offline 2>&1 | tee /tmp/suite.log | grep -E "^test result|FAILED|failed" | awk '/^test result/{p+=$4; f+=$6} {print} END{print "TOTAL passed=" p " failed=" f}' | tail -25
