#!/bin/bash
# confirm a seeded change in its scratch worktree: suite green except the demo; demo fails with / passes without
W=$1
cd $W || exit 2
export CARGO_NET_OFFLINE=true CARGO_TARGET_DIR=$W/target
cargo test --workspace --no-fail-fast --offline > $W.confirm_with.log 2>&1
WITH_FAILED=$(grep -E "^test .* FAILED$" $W.confirm_with.log | grep -v "^test result" | wc -l)
WITH_FAILED_TARGETS=$(grep -B0 "test result: FAILED" $W.confirm_with.log | wc -l)
PASSED=$(grep "test result" $W.confirm_with.log | awk '{p+=$4} END {print p}')
git diff -- src > $W.patch
git checkout -- src
cargo test --offline --test seed_demo > $W.confirm_without.log 2>&1
WITHOUT=$(grep "test result" $W.confirm_without.log | tail -1)
git apply $W.patch
echo "$W: with change: passed=$PASSED failed_tests=$WITH_FAILED failed_targets=$WITH_FAILED_TARGETS; failing: $(grep -E '^test .* FAILED$' $W.confirm_with.log | tr '\n' ';')"
echo "$W: without change (demo only): $WITHOUT"
