#!/bin/bash
# run checks against a seeded change: apply to /repo, run, undo.  usage: tools_seed_eval.sh <patch> <check ids...>
PATCH=$1; shift
cd /repo && git status --short | grep -q . && { echo "/repo not clean"; exit 2; }
git -C /repo apply $PATCH || { echo "patch does not apply"; exit 2; }
cd /verif
for c in "$@"; do
  out=$(./check $c 2>&1); rc=$?
  echo "== $c rc=$rc"; echo "$out" | grep -E "VIOLATION|KNOWN" | cut -c1-160
  for f in $(echo "$out" | grep -o 'replay=[^ ]*' | cut -d= -f2 | head -2); do cp $f /tmp/seed/$(basename $PATCH .diff)_$(basename $f) 2>/dev/null; done
done
git -C /repo checkout -- .
