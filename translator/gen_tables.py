#!/usr/bin/env python3
"""Translator: constant tables of /repo's Rust source -> coq/theories/Generated/Tables.v
(+ tables.json for the Python side).  Every anchor must match exactly once; otherwise
the translator reports itself broken (exit 2) and the check treats the tie as lost.
The output file is rewritten only when its content changes (keeps make incremental)."""
import hashlib, json, os, re, sys

REPO = sys.argv[1] if len(sys.argv) > 1 else "/repo"
OUT_V = sys.argv[2] if len(sys.argv) > 2 else "/verif/coq/theories/Generated/Tables.v"
OUT_J = sys.argv[3] if len(sys.argv) > 3 else "/verif/.cache/tables.json"


def fail(msg):
    print("TRANSLATOR-BROKEN: " + msg)
    sys.exit(2)


def read(rel):
    try:
        return open(os.path.join(REPO, rel), encoding="utf-8").read()
    except OSError as e:
        fail("cannot read %s: %s" % (rel, e))


def once(pattern, text, what, flags=re.S):
    m = re.findall(pattern, text, flags)
    if len(m) != 1:
        fail("%s: anchor matched %d times" % (what, len(m)))
    return m[0]


def strings(block):
    return re.findall(r'"((?:[^"\\]|\\.)*)"', block)


def coq_str(s):
    return '"' + s.replace('"', '""') + '"'


def coq_list(xs):
    return "[" + "; ".join(coq_str(x) for x in xs) + "]"


scanner = read("src/fixtures/scanner.rs")
skip_block = once(r"const SKIP_DIRECTORIES: &'static \[&'static str\] = &\[(.*?)\];", scanner, "SKIP_DIRECTORIES")
skip_block = re.sub(r"//[^\n]*", "", skip_block)
skip_dirs = strings(skip_block)
egg = once(r'if dir_name\.ends_with\("([^"]+)"\) \{\s*return true;', scanner, "egg-info suffix")
skip_fn = once(r"pub\(crate\) fn should_skip_directory\(dir_name: &str\) -> bool \{(.*?)\n    \}", scanner, "should_skip_directory")

types = read("src/fixtures/types.rs")
scope_enum = once(r"pub enum FixtureScope \{(.*?)\n\}", types, "FixtureScope enum")
scope_rank = re.findall(r"^\s*(\w+) = (\d+),", scope_enum, re.M)
scope_parse_block = once(r"pub fn parse\(s: &str\) -> Option<Self> \{(.*?)\n    \}", types, "FixtureScope::parse")
scope_parse = re.findall(r'"(\w+)" => Some\(Self::(\w+)\)', scope_parse_block)
lowercases = "to_lowercase()" in scope_parse_block

config = read("src/config/mod.rs")
valid_block = once(r"let valid_diagnostics = \[(.*?)\];", config, "valid_diagnostics")
valid_codes = strings(valid_block)

fmod = read("src/fixtures/mod.rs")
max_cache = int(once(r"const MAX_FILE_CACHE_SIZE: usize = (\d+);", fmod, "MAX_FILE_CACHE_SIZE"))
evict_div = int(once(r"let to_remove_count = self\.file_cache\.len\(\) / (\d+);", fmod, "eviction fraction"))

imports = read("src/fixtures/imports.rs")
std_block = once(r"static STDLIB_MODULES: Lazy<HashSet<&'static str>> = Lazy::new\(\|\| \{\s*\[(.*?)\]\s*\.into_iter\(\)", imports, "STDLIB_MODULES")
stdlib = strings(std_block)

scan_fn = once(r"pub fn scan_workspace_with_excludes\(&self, root_path: &Path, exclude_patterns: &\[Pattern\]\) \{(.*?)\n    \}\n", scanner, "scan_workspace_with_excludes")
test_file_pred = {
    "conftest": 'filename == "conftest.py"' in scan_fn,
    "test_prefix": 'filename.starts_with("test_") && filename.ends_with(".py")' in scan_fn,
    "test_suffix": 'filename.ends_with("_test.py")' in scan_fn,
}

completion = read("src/providers/completion.rs")
excluded_params = strings(once(r"const EXCLUDED_PARAM_NAMES: &\[&str\] = &\[(.*?)\];", completion, "EXCLUDED_PARAM_NAMES")) \
    if "EXCLUDED_PARAM_NAMES" in completion else None

lock = read("Cargo.lock")
dashmap_version = once(r'name = "dashmap"\nversion = "([^"]+)"', lock, "dashmap version")

# fingerprints of modelled functions (informational)
def fn_fingerprint(rel, name):
    src = read(rel)
    m = re.search(r"fn " + re.escape(name) + r"\b.*?\n    \}\n", src, re.S)
    if not m:
        return None
    norm = re.sub(r"\s+", " ", re.sub(r"//[^\n]*", "", m.group(0)))
    return hashlib.sha256(norm.encode()).hexdigest()[:16]

MODELLED = [
    ("src/fixtures/analyzer.rs", "analyze_file_internal"), ("src/fixtures/analyzer.rs", "cleanup_definitions_for_file"),
    ("src/fixtures/analyzer.rs", "cleanup_usages_for_file"), ("src/fixtures/analyzer.rs", "record_fixture_usage"),
    ("src/fixtures/analyzer.rs", "record_fixture_definition"), ("src/fixtures/analyzer.rs", "visit_stmt"),
    ("src/fixtures/resolver.rs", "find_fixture_definition"), ("src/fixtures/resolver.rs", "get_fixture_definition_at_line"),
    ("src/fixtures/resolver.rs", "find_closest_definition_with_filter"), ("src/fixtures/resolver.rs", "find_references_for_definition"),
    ("src/fixtures/resolver.rs", "compute_available_fixtures"), ("src/fixtures/resolver.rs", "get_available_fixtures"),
    ("src/fixtures/resolver.rs", "compute_fixture_cycles"), ("src/fixtures/resolver.rs", "detect_scope_mismatches_in_file"),
    ("src/fixtures/resolver.rs", "resolve_fixture_for_file"), ("src/fixtures/imports.rs", "get_imported_fixtures"),
    ("src/fixtures/imports.rs", "compute_imported_fixtures"), ("src/fixtures/imports.rs", "find_module_file"),
    ("src/fixtures/imports.rs", "resolve_relative_import"), ("src/fixtures/imports.rs", "resolve_absolute_import"),
    ("src/fixtures/undeclared.rs", "is_available_fixture"), ("src/fixtures/undeclared.rs", "visit_expr_for_names"),
    ("src/fixtures/mod.rs", "cleanup_file_cache"), ("src/fixtures/mod.rs", "evict_cache_if_needed"),
    ("src/fixtures/string_utils.rs", "format_docstring"), ("src/fixtures/string_utils.rs", "extract_word_at_position"),
    ("src/fixtures/string_utils.rs", "find_function_name_position"), ("src/fixtures/string_utils.rs", "parameter_has_annotation"),
    ("src/fixtures/scanner.rs", "should_skip_directory"), ("src/fixtures/scanner.rs", "parse_pytest11_entry_points"),
    ("src/config/mod.rs", "from_raw"),
]
fingerprints = {rel + "::" + name: fn_fingerprint(rel, name) for rel, name in MODELLED}

tables = {
    "skip_directories": skip_dirs, "egg_info_suffix": egg, "scope_rank": scope_rank,
    "scope_parse": scope_parse, "scope_parse_lowercases": lowercases, "valid_diagnostic_codes": valid_codes,
    "max_file_cache_size": max_cache, "evict_divisor": evict_div, "stdlib_modules": stdlib,
    "test_file_predicates": test_file_pred, "dashmap_version": dashmap_version,
    "excluded_param_names": excluded_params, "fingerprints": fingerprints,
    "skip_fn_uses_exact_and_suffix": ("SKIP_DIRECTORIES.contains(&dir_name)" in skip_fn and "ends_with" in skip_fn),
}

v = []
v.append("(** GENERATED by translator/gen_tables.py from /repo's Rust source on every run. Do not edit. *)")
v.append("From Coq Require Import String List NArith Bool.")
v.append("Import ListNotations.")
v.append("Open Scope string_scope.")
v.append("Open Scope N_scope.")
v.append("Definition skip_directories : list string := %s." % coq_list(skip_dirs))
v.append("Definition egg_info_suffix : string := %s." % coq_str(egg))
v.append("Definition skip_fn_exact_and_suffix : bool := %s." % ("true" if tables["skip_fn_uses_exact_and_suffix"] else "false"))
v.append("Definition scope_rank : list (string * N) := [%s]." % "; ".join("(%s, %s)" % (coq_str(n), r) for n, r in scope_rank))
v.append("Definition scope_parse : list (string * string) := [%s]." % "; ".join("(%s, %s)" % (coq_str(a), coq_str(b)) for a, b in scope_parse))
v.append("Definition scope_parse_lowercases : bool := %s." % ("true" if lowercases else "false"))
v.append("Definition valid_diagnostic_codes : list string := %s." % coq_list(valid_codes))
v.append("Definition max_file_cache_size : N := %d." % max_cache)
v.append("Definition evict_divisor : N := %d." % evict_div)
v.append("Definition stdlib_modules : list string := %s." % coq_list(stdlib))
v.append("Definition test_file_conftest : bool := %s." % ("true" if test_file_pred["conftest"] else "false"))
v.append("Definition test_file_prefix : bool := %s." % ("true" if test_file_pred["test_prefix"] else "false"))
v.append("Definition test_file_suffix : bool := %s." % ("true" if test_file_pred["test_suffix"] else "false"))
v.append("Definition dashmap_version : string := %s." % coq_str(dashmap_version))
text = "\n".join(v) + "\n"

os.makedirs(os.path.dirname(OUT_V), exist_ok=True)
os.makedirs(os.path.dirname(OUT_J), exist_ok=True)
old = open(OUT_V).read() if os.path.exists(OUT_V) else None
if old != text:
    open(OUT_V, "w").write(text)
json.dump(tables, open(OUT_J, "w"), indent=1, sort_keys=True)
print("tables: %d skip dirs, %d stdlib modules, dashmap %s%s" % (len(skip_dirs), len(stdlib), dashmap_version, "" if old == text else " (Tables.v rewritten)"))
