#!/usr/bin/env python3
"""Translator for C12: from /repo's source
  - the construction order of the DashMap fields in FixtureDatabase::new (= the map ids the
    instrumented dashmap hands out) and the Backend's own map,
  - every std::sync::Mutex field and every `.lock()` site on them (file, line text),
  - every source line that touches a DashMap field (site scan),
written to <out.json>.  Every anchor must match; otherwise exit 2 (TRANSLATOR-BROKEN)."""
import json, os, re, sys

REPO = sys.argv[1] if len(sys.argv) > 1 else "/repo"
OUT = sys.argv[2] if len(sys.argv) > 2 else "/verif/.cache/locks.json"


def fail(msg):
    print("TRANSLATOR-BROKEN: " + msg)
    sys.exit(2)


def read(rel):
    return open(os.path.join(REPO, rel), encoding="utf-8").read()


mod = read("src/fixtures/mod.rs")
m = re.findall(r"pub fn new\(\) -> Self \{\s*Self \{(.*?)\n        \}\n    \}", mod, re.S)
if len(m) != 1:
    fail("FixtureDatabase::new: anchor matched %d times" % len(m))
fields = re.findall(r"^\s*(\w+): (.*?),\s*$", m[0], re.M)
maps = [f for f, init in fields if "DashMap::new()" in init]
mutexes = [f for f, init in fields if "Mutex::new(" in init]
others = [f for f, init in fields if "DashMap::new()" not in init and "Mutex::new(" not in init]
if not maps:
    fail("no DashMap fields found")
prov = read("src/providers/mod.rs")
backend_maps = re.findall(r"^\s*(\w+): Arc::new\(DashMap::new\(\)\),", prov, re.M)

files = []
for root, _, fs in os.walk(os.path.join(REPO, "src")):
    for f in fs:
        if f.endswith(".rs"):
            files.append(os.path.relpath(os.path.join(root, f), REPO))
files.sort()
lock_sites, map_sites = [], {}
for rel in files:
    text = read(rel)
    # strip the test modules at the end of the file
    cut = text.find("#[cfg(test)]")
    body = text if cut < 0 else text[:cut]
    lines = body.splitlines()
    for i, line in enumerate(lines):
        code = line.split("//")[0]
        for mx in mutexes:
            ctx = " ".join(lines[max(0, i - 2):i + 1])
            if ".lock()" in code and re.search(r"\b%s\b" % mx, ctx) and (mx in code or ".lock()" in code and mx in " ".join(lines[max(0, i - 2):i])):
                lock_sites.append([rel, mx, code.strip()])
                break
        for mp in maps + backend_maps:
            if re.search(r"\.%s\b\s*\n?\s*\." % mp, code) or re.search(r"\b%s\s*$" % mp, code.strip()) and i + 1 < len(lines) and lines[i + 1].strip().startswith("."):
                map_sites.setdefault(mp, 0)
                map_sites[mp] += 1
out = {"maps": maps, "backend_maps": backend_maps, "mutexes": mutexes, "other_fields": others,
       "lock_sites": lock_sites, "map_site_counts": map_sites}
os.makedirs(os.path.dirname(OUT), exist_ok=True)
json.dump(out, open(OUT, "w"), indent=1, sort_keys=True)
print("locks: %d maps %s, %d mutexes, %d lock sites" % (len(maps), backend_maps, len(mutexes), len(lock_sites)))
