#!/usr/bin/env python3
"""store a confirmed seeded change: tools_seed_store.py <Cxx> <Sxx_name> <confirm log>; removes the worktree"""
import json, os, shutil, subprocess, sys
pid, name, log = sys.argv[1:4]
W = "/tmp/seed/%s" % pid
dst = "/verif/seeded/%s" % name
os.makedirs(dst, exist_ok=True)
shutil.copy(W + ".patch", dst + "/patch.diff")
for f in ("tests/seed_demo.rs", "seed_demo.sh", "seed_demo.py"):
    if os.path.exists(os.path.join(W, f)):
        shutil.copy(os.path.join(W, f), dst + "/" + os.path.basename(f))
meta = json.load(open(W + ".meta.json"))
lines = [l.strip() for l in open(log) if l.startswith(W + ":")]
meta["author"] = "independent sub-agent given only the property text and a scratch worktree"
meta["confirmed_by_me"] = {"command": "tools_seed_confirm.sh <worktree> (cargo test --workspace --no-fail-fast --offline with the change; cargo test --test seed_demo without it)", "result": lines}
meta["checks_run_against_it"] = "tools_seed_eval.sh <patch> <check> (git -C /repo apply; ./check; git -C /repo checkout -- .)"
meta.setdefault("detection", "pending")
json.dump(meta, open(dst + "/meta.json", "w"), indent=1)
subprocess.run(["git", "-C", "/repo", "worktree", "remove", "--force", W])
for f in (W + ".patch", W + ".meta.json", W + ".p.diff", W + ".confirm_with.log", W + ".confirm_without.log", W + ".prompt.txt"):
    if os.path.exists(f):
        os.remove(f)
print("stored", dst, os.listdir(dst))
