"""C16 — dependency diagnostics (cycles, scope mismatches) are exact and stable."""
import sys

import runner, ws_prop
import graphgen, wsgen

PID = "C16"
MODULE = "Check.C16"
VERDICT = "verdict_C16 [] []"
CLASS_BITS = {}
NCASES = (200, 3000)
shrinkable = True
RULE = ("generator G (gen/graphgen.py): 2-6 fixture names, each defined 1-3 times over up to three conftest levels, a test "
        "module and an unrelated branch, random dependency edges incl. self-named parameters (override with a parent, true "
        "self-loop without one), unknown dependencies, `request`, all five scopes, occasional redefinition in one file; random "
        "analysis order; queries: detect_fixture_cycles, detect_fixture_cycles_in_file and detect_scope_mismatches_in_file for "
        "every file, plus the index dump; the spec (closed chains over the definition-level graph, one report per cyclic SCC, "
        "mismatch iff resolved dependency is narrower) is evaluated on the implementation's answers; non-trivial = at least "
        "one self-named parameter or >= 3 names; distinct = distinct tag multiset + file texts hash")
ASSUMPTIONS = ["virtual workspaces only", "ASCII"]


def add_queries(ws, steps, stdlib):
    steps.append({"q": "dump"})
    steps.append({"q": "cycles"})
    nq = 2
    for p in sorted(ws["files"]):
        steps.append({"q": "mismatches", "path": p})
        steps.append({"q": "cycles_in_file", "path": p})
        nq += 2
    steps.append({"q": "cycles"})
    return nq + 1


def make_case(cid, rnd, stdlib):
    ws = graphgen.gen_graph_workspace(rnd, root="/vg%d" % (cid % 5))
    steps = wsgen.build_steps(ws)
    nq = add_queries(ws, steps, stdlib)
    return {"id": cid, "steps": steps, "tags": ws["tags"] + ["h%d" % (hash(tuple(sorted(ws["files"].items()))) % 100000)], "queries": nq}


def corpus(stdlib):
    return ws_prop.corpus_cases(PID, add_queries, stdlib)


def nontrivial(c):
    if "self-param" in c["tags"] or any(t in ("names3", "names4", "names5", "names6") for t in c["tags"]) or any(t.startswith("corpus:") for t in c["tags"]):
        return tuple(sorted(c["tags"]))
    return None


def run(r):
    # protocol part (exploration shared with C19): histories sent to the REAL server create and remove a dependency cycle
    # and a scope mismatch; after every notification the published circular-dependency / scope-mismatch findings must be
    # those of a fresh database on the latest contents
    import os, random
    import core, C19
    quick = r.tier == "quick"
    h1, _ = core.build_harness()
    stdlib = set(core.tables()["stdlib_modules"])
    bad, nh = C19.server_history_failures(r, h1, random.Random(r.seed * 29 + 16), int(os.environ.get("VERIF_SERVER_HISTORIES", 8 if quick else 60)), stdlib)
    for k, b in enumerate(bad[:2]):
        r.violation(dict({"property": PID, "part": "server histories"}, **b), "srv_%d" % k)
    r.extra_coverage = {"server_histories": nh}
    return runner.drive_ws(r, sys.modules[__name__])
