"""C18 — completion offers exactly the usable fixtures, only where they can be requested.

Part 1 (contexts, H1): generated documents (generator P + shapes that stress the signature
end: trailing comments, multi-line signatures, one-liners, nested functions, marks with and
without indirect) and documents cut off while a signature is being typed; the real
get_completion_context is asked on EVERY line; the Coq model (Model/Completion.v: AST path
on CPython's layout + the text fallback) must give the same answer and the spec
(Spec/CompletionSpec.v) must accept it.
Part 2 (items, stdio): documents opened in order (root conftest, nested conftest, a module
under site-packages, the test module); textDocument/completion on lines of the test module;
labels and sort texts must be what the model offers from its index and what the spec
demands (every resolvable name once, minus declared / self / cls / the fixture being
edited / narrower scopes; same file < conftest < plugin < third party)."""
import ast, collections, glob, json, os, random, shutil, sys, tempfile, warnings

import core, runner
import coqlit as L
import pgen, py2coq

PID = "C18"
MODULE = "Check.C18"
CLASS_BITS = {}   # bit 32 (line inside a parametrize decorator without indirect) is set by the judge for information only since fix e3a98b7
RULE = ("part 1: one evaluation = one cursor line of one document (every line is asked); part 2: one evaluation = one completion request; "
        "distinct = distinct (answer kind, document feature tags) / distinct item multisets")
ASSUMPTIONS = ["part 1: virtual paths, one document per database", "part 2: documents sent over stdio, not on disk; no plugin-marked files (priority 2 is covered by the theorem only)"]
SCOPES = {"function": 0, "class": 1, "module": 2, "package": 3, "session": 4}


def parses(text):
    try:
        with warnings.catch_warnings():
            warnings.simplefilter("ignore")
            compile(text, "p", "exec")
        return True
    except (SyntaxError, ValueError):
        return False


EXTRA = [
    "def test_cm(db):  # why\n    if db:\n        pass\n",
    "def test_cm2(db):  # note:\n    for x in db:\n        pass\n",
    "def test_multi(\n    db,\n    client,\n):\n    assert db\n",
    "def test_multi2(\n    db,\n    client) -> None:\n    x = 1\n",
    "def test_ret(db) -> dict[str, int]:\n    return db\n",
    "def test_one(db): pass\n",
    "def test_two(db,\n             client): return db\n",
    "def helper(x):\n    def test_inner(q):\n        return q\n    return test_inner\n",
    "@pytest.mark.parametrize(\"db\", [1, 2])\ndef test_plain(db):\n    pass\n",
    "@pytest.mark.parametrize(\n    \"db\",\n    [1],\n    indirect=True,\n)\ndef test_ind(db):\n    pass\n",
    "@pytest.mark.usefixtures(\n    \"db\",\n)\nclass TestU:\n    def test_m(self, client):\n        while client:\n            break\n",
    "@pytest.fixture(scope=\"session\")\ndef wide(db):\n    \"\"\"doc:\"\"\"\n    return db\n",
    "@pytest.fixture(\n    scope=\"module\",\n)\nasync def amod(\n    db,\n):\n    yield db\n",
    "def test_doc(db):\n    \"\"\"Summary:\"\"\"\n    x = {\n        1: 2}\n",
    "def test_deco_body(db):\n    @pytest.mark.usefixtures(\"db\")\n    def inner():\n        pass\n",
]


def gen_doc(rnd):
    text, tags = pgen.gen_program(rnd)
    tags = list(tags)
    if rnd.random() < 0.6:
        crlf = "\r\n" in text
        extra = "".join("\n" + rnd.choice(EXTRA) for _ in range(rnd.randint(1, 3)))
        if crlf:
            extra = extra.replace("\n", "\r\n")
        if "\t" in text and "    " not in text:
            extra = extra.replace("    ", "\t")
        if parses(text + extra):
            text += extra
            tags.append("extra")
    return text, tags


def gen_typed(rnd):
    """a valid document followed by a function whose signature is being typed;
    -> (text, tags, typed dict)"""
    text, tags = pgen.gen_program(rnd)
    if "\r\n" in text:
        text = text.replace("\r\n", "\n")
    tab = "\t" in text and "    " not in text
    is_fixture = rnd.random() < 0.4
    scope = None
    lines = [""]
    if is_fixture:
        deco, scope = rnd.choice([("@pytest.fixture", 0), ("@pytest.fixture()", 0), ("@fixture", 0), ("@pytest.fixture(scope=\"module\")", 2),
                                  ("@pytest.fixture(scope='session', autouse=True)", 4), ("@pytest.fixture(autouse=True, scope=\"class\")", 1),
                                  ("@pytest_asyncio.fixture", 0), ("@pytest_asyncio.fixture(scope=\"module\")", 2),
                                  ("@pytest_asyncio.fixture(loop_scope=\"session\")", 0),
                                  ("@pytest.fixture(\n    scope=\"module\",\n)", 2), ("@pytest.fixture(\n    autouse=True,\n    name=\"renamed\",\n)", 0),
                                  ("@pytest_asyncio.fixture(\n    loop_scope=\"session\",\n    scope=\"class\"\n)", 1)])
        lines.append(deco)
        if rnd.random() < 0.3:
            lines.append("@pytest.mark.skip")
        name = "fx_new"
    else:
        if rnd.random() < 0.3:
            lines.append("@pytest.mark.skip")
        name = "test_new"
    kw = "async def" if rnd.random() < 0.25 else "def"
    if rnd.random() < 0.2:
        # other white space between the keywords and the name (valid Python): several blanks, a tab
        kw = kw.replace("async def", "async" + rnd.choice(["  ", "\t", " "]) + "def") + rnd.choice([" ", "\t", ""])
        tags = list(tags) + ["typed:keyword-gap"]
    params = rnd.sample(["db", "client", "fx_a", "cfg"], rnd.randint(0, 3))
    forms = [rnd.choice(["{n}", "{n}: int", "{n}=None", "{n}: T = 3"]).format(n=p) for p in params]
    shape = rnd.choice(["same", "same", "same_comma", "multi", "open_only"])
    if shape == "open_only":
        params, forms = [], []
        lines.append("%s %s(" % (kw, name))
    elif shape == "same":
        lines.append("%s %s(%s" % (kw, name, ", ".join(forms)))
    elif shape == "same_comma":
        lines.append("%s %s(%s" % (kw, name, "".join(f + ", " for f in forms)))
    else:
        lines.append("%s %s(" % (kw, name))
        for f in forms:
            lines.append("    " + f + ",")
        lines.append("    ")
    tail = "\n".join(lines)
    if tab:
        tail = tail.replace("    ", "\t")
    full = text + tail
    if parses(full):
        return None
    line0 = len(full.split("\n")) - 1
    if rnd.random() < 0.25:
        # the same document with CRLF line ends (the text fallback slices the signature out of the text)
        full = full.replace("\n", "\r\n")
        tags = list(tags) + ["typed:crlf"]
    return full, list(tags) + ["typed:" + shape + (":fixture" if is_fixture else ":test")], {
        "line0": line0, "fn": name, "params": params, "fixture": is_fixture, "scope": scope if is_fixture else None}


def cctx(a):
    if a is None:
        return "None"
    k = a["kind"]
    if k == "usefixtures":
        return "(Some CUse)"
    if k == "indirect":
        return "(Some CParam)"
    sc = "None" if a["scope"] is None else "(Some %d)" % SCOPES[a["scope"]]
    return "(Some (%s %s %d %s %s %s))" % ("CSig" if k == "signature" else "CBody", L.cstr(a["function"]), a["line"], L.cbool(a["is_fixture"]),
                                           L.clist([L.cstr(p) for p in a["params"]]), sc)


def ucalls(text):
    """line ranges of every usefixtures call, wherever it stands (CPython walk)"""
    import extract
    try:
        tree = ast.parse(text)
    except (SyntaxError, ValueError):
        return "[]"
    return L.clist(["(%d, %d)" % (n.lineno, n.end_lineno) for n in ast.walk(tree)
                    if isinstance(n, ast.Call) and extract.is_mark(n.func, "usefixtures")])


def doc_lines(text):
    return text.split("\n")


def part1(r, rnd, n, corpus):
    h1, _ = core.build_harness()
    docs = []
    for c in corpus:
        docs.append((c["text"], ["corpus:" + c["_name"]], c.get("typed")))
    for i in range(n):
        if rnd.random() < 0.3:
            g = None
            for _ in range(10):
                g = gen_typed(rnd)
                if g:
                    break
            if g:
                docs.append(g)
                continue
        t, tags = gen_doc(rnd)
        docs.append((t, tags, None))
    cases = []
    for i, (text, tags, typed) in enumerate(docs):
        path = "/vc%d/pkg/test_mod.py" % (i % 3)
        ops = [{"op": "analyze", "path": path, "text": text}]
        ls = doc_lines(text)
        for ln, l in enumerate(ls):
            ops.append({"op": "completion_context", "path": path, "line": ln, "col": len(l.rstrip("\r"))})
        cases.append({"id": i, "ops": ops})
    obs, _ = core.run_h1(h1, cases, "C18_ctx")
    terms, info = [], {}
    for i, (text, tags, typed) in enumerate(docs):
        o = obs[i]["obs"]
        answers = []
        panics = []
        for ln, a in enumerate(o[1:]):
            if isinstance(a, dict) and "panic" in a:
                panics.append((ln, a["panic"]))
                continue
            answers.append("(%d, %s)" % (ln, cctx(a)))
        ty = "None"
        if typed:
            ty = "(Some (mk_typed %d %s %s %s %s))" % (typed["line0"], L.cstr(typed["fn"]), L.clist([L.cstr(p) for p in typed["params"]]),
                                                     L.cbool(typed["fixture"]), "None" if typed["scope"] is None else "(Some %d)" % typed["scope"])
        terms.append((i, "(mk_c18 %s %s %s %s %s)" % (py2coq.ctext(text), py2coq.clayout(text), ucalls(text), L.clist(answers), ty)))
        info[i] = {"text": text, "tags": tags, "typed": typed, "answers": o[1:], "panics": panics}
    codes = core.eval_in_coq("C18_ctx", MODULE, "verdict_C18", terms)
    return info, codes


EXT = ("\n\n@pytest.fixture\ndef ext_dup():\n    return 1\n\n\n@pytest.fixture(scope=\"session\")\ndef ext_only_%d(ext_dup):\n    return 2\n"
       "\n\nif COND:\n    pass\n\n\n@pytest.fixture\ndef ext_dup():\n    return 3\n")


def open_order(rnd):
    """-> [(relative path, text, tags)] with the test module last; two modules under
    site-packages that both ship `ext_dup` (one of them twice): names nothing shadows"""
    out = []
    for k, rel in enumerate(["conftest.py", "sub/conftest.py", ".venv/lib/python3.11/site-packages/extplug/plugin.py",
                             ".venv/lib/python3.11/site-packages/otherplug/fixtures.py", "sub/test_target.py"]):
        if rel != "sub/test_target.py" and rel != "conftest.py" and rnd.random() < 0.25:
            continue
        t, tags = gen_doc(rnd) if rel.endswith("test_target.py") else pgen.gen_program(rnd)
        if "site-packages" in rel:
            ext = EXT % k
            if "\r\n" in t:
                ext = ext.replace("\n", "\r\n")
            if "\t" in t and "    " not in t:
                ext = ext.replace("    ", "\t")
            if parses(t + ext):
                t += ext
                tags = list(tags) + ["third-party:duplicate-name"]
        out.append((rel, t, tags))
    return out


SHARED = "import pytest\n\n@pytest.fixture\ndef shared_a():\n    return 1\n\n\n@pytest.fixture(scope=\"session\")\ndef shared_b(shared_a):\n    return 2\n"


def part2(r, rnd, n, per_doc):
    """-> info, codes.  Every workspace is one server; a third of them are RE-EXPORT
    workspaces: a conftest.py without fixtures of its own that star-imports a module, then
    loses the import, then gets it back (the offered set must follow each edit)."""
    import lsp
    binp = core.build_binary()
    terms, info = [], {}
    cid = [0]

    def query(srv, p, text, lines):
        ls = doc_lines(text)
        items, raw = [], {}
        for ln in lines:
            res = srv.completion(p, ln, len(ls[ln].rstrip("\r")))
            if isinstance(res, dict):
                res = res.get("items")
            its = [(x["label"], x.get("sortText") or "") for x in (res or [])]
            raw[ln] = its
            items.append("(%d, %s)" % (ln, L.clist(["(%s, %s)" % (L.cstr(a), L.cstr(b)) for a, b in its])))
        return items, raw

    def emit(w, steps, vp, text, items, raw, docs, tags):
        k = cid[0]
        cid[0] += 1
        terms.append((k, "(mk_c18i %s %s %s %s %s)" % (L.clist(steps), L.cpath(vp), py2coq.ctext(text), py2coq.clayout(text), L.clist(items))))
        info[k] = {"docs": docs, "tags": tags, "items": raw, "workspace": w}

    for w in range(n):
        base = tempfile.mkdtemp(prefix="verif_c18_")
        try:
            srv = lsp.Server(binp, root=base, timeout=40)
            try:
                srv.wait_for_log("Workspace scan complete", timeout=30)
                reexport = (w % 3 == 2)
                third_cursor = (w % 5 == 4) and not reexport
                if third_cursor:
                    # the document being edited is itself a site-packages module (someone works on an installed plugin):
                    # its own fixtures still sort first, before those of the conftest.py above it
                    tt, ttags = gen_doc(rnd)
                    docs = [("conftest.py", pgen.gen_program(rnd)[0], []),
                            (".venv/lib/python3.11/site-packages/extplug/plugin.py", tt, ttags + ["cursor-in-site-packages"])]
                elif reexport:
                    tt, ttags = gen_doc(rnd)
                    docs = [("shared_fx.py", SHARED, []), ("conftest.py", "from .shared_fx import *\n", []), ("test_target.py", tt, ttags + ["reexport"])]
                else:
                    docs = open_order(rnd)
                steps, tid = [], [0]

                def analyse(rel, text):
                    tid[0] += 1
                    vp = "/vw%d/%s" % (w, rel.replace(".venv/lib/python3.11/site-packages", "site-packages"))
                    steps.append("Op (OAnalyze true %s (facts_of %d %s %s))" % (L.cpath(vp), tid[0], py2coq.ctext(text), py2coq.cmodule(text)))
                for (rel, text, tags) in docs:
                    srv.open(os.path.join(base, rel), text)
                    analyse(rel, text)
                rel, text, tags = docs[-1]
                p = os.path.join(base, rel)
                idx = list(range(len(doc_lines(text))))
                rnd.shuffle(idx)
                lines = sorted(idx[:per_doc])
                alltags = [t for _, _, tg in docs for t in tg]
                items, raw = query(srv, p, text, lines)
                vrel = rel.replace(".venv/lib/python3.11/site-packages", "site-packages")
                emit(w, list(steps), "/vw%d/%s" % (w, vrel), text, items, raw, [(a, b) for a, b, _ in docs], alltags)
                if reexport:
                    cp = os.path.join(base, "conftest.py")
                    for ver, ctext_ in enumerate(["import os\n", "from .shared_fx import *\n", "from .shared_fx import shared_b\n"]):
                        srv.change(cp, ctext_, ver + 2)
                        analyse("conftest.py", ctext_)
                        items, raw = query(srv, p, text, lines[: max(3, per_doc // 2)])
                        emit(w, list(steps), "/vw%d/%s" % (w, rel), text, items, raw,
                             [(a, b) for a, b, _ in docs] + [("conftest.py (edit %d)" % (ver + 1), ctext_)], alltags + ["reexport:edit%d" % (ver + 1)])
            finally:
                try:
                    srv.shutdown()
                except Exception:
                    pass
        finally:
            shutil.rmtree(base, ignore_errors=True)
    codes = core.eval_in_coq("C18_items", MODULE, "verdict_C18_items", terms)
    return info, codes


def load_corpus():
    out = []
    for p in sorted(glob.glob(os.path.join(core.VERIF, "gen", "corpus", PID, "*.json"))):
        c = json.load(open(p))
        c["_name"] = os.path.basename(p)
        out.append(c)
    return out


def run(r):
    quick = r.tier == "quick"
    proof_ok = runner.proof_stage(r)
    core.coq_make(["theories/Check/C18.vo"])
    rnd = random.Random(r.seed * 31 + 18)
    listed = runner.listed_classes(PID, CLASS_BITS)
    n1 = int(os.environ.get("VERIF_CASES", 150 if quick else 1500))
    n2 = int(os.environ.get("VERIF_WORKSPACES", 16 if quick else 120))
    info1, codes1 = part1(r, rnd, n1, load_corpus())
    hits = collections.Counter()
    prop_bad, corr_bad = [], []
    nlines, kinds = 0, collections.Counter()
    for i, inf in info1.items():
        nlines += len(inf["answers"])
        for a in inf["answers"]:
            kinds[(a or {}).get("kind", "none") if not (isinstance(a, dict) and "panic" in a) else "panic"] += 1
        for (ln, why) in inf["panics"]:
            prop_bad.append((i, ln, 2, "panic: " + why))
        for (ln, code) in codes1[i]:
            cls = [b for b in listed if code & b]
            if code & (2 | 8) and cls:
                for b in cls:
                    hits[CLASS_BITS[b]] += 1
                if not (code & 1):
                    continue
            if code & 2 and not cls:
                prop_bad.append((i, ln, code, None))
            elif code & 1:
                corr_bad.append((i, ln, code, None))
    info2, codes2 = part2(r, rnd, n2, 10 if quick else 20)
    nreq = sum(len(x["items"]) for x in info2.values())
    prop2, corr2 = [], []
    for w, inf in info2.items():
        for (ln, code) in codes2[w]:
            (prop2 if code & 2 else corr2).append((w, ln, code))

    def rep1(i, ln, code, why):
        inf = info1[i]
        return {"property": PID, "part": "context", "why": why or ("the spec rejects the implementation's classification of the line" if code & 2 else None),
                "code": code, "line0": ln, "line_text": doc_lines(inf["text"])[ln] if ln < len(doc_lines(inf["text"])) else "",
                "impl_answer": inf["answers"][ln] if ln < len(inf["answers"]) else None, "typed": inf["typed"], "text": inf["text"], "seed": r.seed}

    for (i, ln, code, why) in prop_bad[:3]:
        r.violation(rep1(i, ln, code, why), "ctx_%d_%d" % (i, ln))
    for (w, ln, code) in prop2[:2]:
        inf = info2[w]
        r.violation({"property": PID, "part": "items", "why": "the spec rejects the offered items", "code": code, "line0": ln,
                     "line_text": (doc_lines(inf["docs"][-1][1])[ln] if ln < len(doc_lines(inf["docs"][-1][1])) else ""),
                     "items": (inf["items"][ln] if ln < len(inf["items"]) else None), "documents": inf["docs"], "seed": r.seed}, "items_%d_%d" % (w, ln))
    if not r.violations and (corr_bad or corr2):
        if corr_bad:
            i, ln, code, why = corr_bad[0]
            rp = rep1(i, ln, code, None)
            rp["broken"] = "corr:C18 (Model/Completion.v completion_ctx and the implementation classify the line differently; the spec accepts every implementation answer explored)"
        else:
            w, ln, code = corr2[0]
            inf = info2[w]
            rp = {"property": PID, "part": "items", "broken": "corr:C18 (Model/Completion.v offered_items differs from the server's items; the spec accepts the server's)",
                  "code": code, "line0": ln, "items": inf["items"][ln], "documents": inf["docs"], "seed": r.seed}
        r.violation(rp, "corr", no_input=True)
    if not proof_ok and not r.violations:
        r.violation({"property": PID, "broken": "thm:PLS.Properties.%s" % PID, "detail": {k: v for k, v in r.proof.items() if k != "cone"},
                     "seed": r.seed}, "proof", no_input=True)
    for b, f in listed.items():
        r.known_lines.append("KNOWN-FINDING: property=%s %s [class %s; %d hits this run]" % (PID, f["what"], f["class"], hits[f["class"]]))
    tags = collections.Counter()
    for inf in info1.values():
        tags.update(inf["tags"])
    distinct = set()
    for i, inf in info1.items():
        for a in inf["answers"]:
            distinct.add(((a or {}).get("kind") if isinstance(a, dict) else None, tuple(sorted(set(t for t in inf["tags"] if not t.startswith("body:"))))[:6]))
    r.coverage = {
        "obligations": r.proof.get("statements", 0), "discharged": r.proof.get("qed", 0) if proof_ok else 0,
        "checker_cmd": "make -C coq theories/Properties/%s.vo (coqc 8.16.1, full .vo build) + Print Assumptions + hygiene grep" % PID,
        "trusted_base": runner.trusted_base(),
        "evaluations": nlines + nreq, "distinct_nontrivial": len(distinct), "rule": RULE,
        "documents": len(info1), "cursor_lines": nlines, "answers_by_kind": dict(kinds), "completion_requests": nreq, "workspaces": len(set(x["workspace"] for x in info2.values())), "item_cases": len(info2),
        "non_empty_item_lists": sum(1 for x in info2.values() for its in x["items"].values() if its),
        "known_class_hits": dict(hits), "correspondence_failures": len(corr_bad) + len(corr2), "input_distribution": dict(tags),
        "proof": {k: v for k, v in r.proof.items() if k != "cone"},
    }
    r.assumptions = list(ASSUMPTIONS)
    return r.finish()


def replay(r, path):
    rp = json.load(open(path))
    print(json.dumps({k: rp[k] for k in rp if k not in ("text", "documents")}, indent=1)[:3000])
    print(rp.get("text", ""))
    return 1
