"""C02 — a self-named parameter resolves outward; the cursor decides which fixture."""
import glob, json, os, sys

import core, runner
import wsgen
from common_ws import usage_positions, def_positions

PID = "C02"
MODULE = "Check.C02"
VERDICT = "verdict_C02 [] []"
CLASS_BITS = {64: "K_import_provenance", 128: "K_two_definitions_on_one_line"}
NCASES = (160, 2000)
shrinkable = True
RULE = ("generator W-chains (gen/wsgen.py gen_chain_workspace): one name overridden along a chain of 1-4 links placed on "
        "{using module, each ancestor conftest, workspace plugin, site-packages}, each link requesting its parent with "
        "probability 0.85, one-line and multi-line signatures, using modules at every depth, plus the general generator W; "
        "go-to-definition asked at every column of every usage token, find_fixture_or_definition_at_position and "
        "find_fixture_at_position at every column of every definition line; non-trivial = the chain has at least two links; "
        "distinct = distinct tag multiset")
ASSUMPTIONS = ["virtual workspaces only", "ASCII identifiers and lines"]


def add_queries(ws, steps, stdlib):
    steps.append({"q": "dump"})
    nq = 1
    for p in sorted(ws["files"]):
        text = ws["files"][p]
        lines = text.split("\n")
        for (line, s, e, name) in usage_positions(text, stdlib):
            for col in range(max(0, s - 1), e + 1):
                steps.append({"q": "goto", "path": p, "line": line - 1, "col": col})
                nq += 1
        for (name, line, s, e) in def_positions(text, stdlib):
            steps.append({"q": "refsx", "path": p, "name": name, "line": line})
            nq += 1
            for col in range(0, len(lines[line - 1]) + 1):
                steps.append({"q": "goto_or_def", "path": p, "line": line - 1, "col": col})
                steps.append({"q": "name_at", "path": p, "line": line - 1, "col": col})
                nq += 2
    return nq


def make_case(cid, rnd, stdlib):
    if rnd.random() < 0.8:
        ws = wsgen.gen_chain_workspace(rnd, root="/vc%d" % (cid % 5))
    else:
        ws = wsgen.gen_workspace(rnd, root="/vw%d" % (cid % 5), chain_only=True)
    steps = wsgen.build_steps(ws)
    nq = add_queries(ws, steps, stdlib)
    return {"id": cid, "steps": steps, "tags": ws["tags"], "queries": nq}


def corpus(stdlib):
    out = []
    for p in sorted(glob.glob(os.path.join(core.VERIF, "gen", "corpus", PID, "*.json"))):
        ws = json.load(open(p))
        ws.setdefault("plugins", [])
        ws.setdefault("order", list(ws["files"]))
        steps = wsgen.build_steps(ws)
        nq = add_queries(ws, steps, stdlib)
        out.append({"id": 0, "steps": steps, "tags": ["corpus:" + os.path.basename(p)], "queries": nq})
    return out


def nontrivial(c):
    if any(t in ("chain2", "chain3", "chain4") for t in c["tags"]) or any(t.startswith("corpus:") for t in c["tags"]):
        return tuple(sorted(c["tags"]))
    return None


def run(r):
    # protocol part (exploration shared with C05): at every usage token of generated workspaces on disk the real server's
    # go-to-definition must land on an indexed fixture that hover, go-to-implementation and call-hierarchy preparation
    # also name, and the references listed on a definition must be exactly the usages whose go-to-definition lands on it
    import os, random
    import core, C05
    quick = r.tier == "quick"
    stdlib = set(core.tables()["stdlib_modules"])
    bad, stats, _ = C05.explore_handlers(r, random.Random(r.seed * 23 + 1), int(os.environ.get("VERIF_H2_WORKSPACES", 12 if quick else 40)), stdlib)
    seen = set()
    for b in bad:
        if not any(x in b["why"] for x in ("go-to-definition", "references of a definition")) or b["why"] in seen:
            continue
        seen.add(b["why"])
        r.violation(dict({"property": PID, "part": "handlers"}, **b), "h2_%d" % len(seen))
    r.extra_coverage = {"handler_part": {k: v for k, v in stats.items() if k in ("workspaces", "positions", "hover", "references_inverse")}}
    return runner.drive_ws(r, sys.modules[__name__])
