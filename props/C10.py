"""C10 — editor buffers win over the background scan.

Histories mix scan-style analyses (the cfg-guarded wrapper of analyze_file_fresh) with
notification-style ones; after every notification the long-lived database is compared
with one that only ever saw the latest content of each file (spec on implementation
answers) and with the Coq model.  Orders: scan-then-open (must be exact),
open-then-scan (listed known finding), and one further change after either (must be
exact again: theorem C10_one_change_restores)."""
import glob, json, os, sys

import core, runner
import coqlit as L
import histgen
import C06
from common_ws import usage_positions, def_positions

PID = "C10"
MODULE = "Check.C10"
VERDICT = "verdict_C10"
CLASS_BITS = {16: "K_open_then_scan"}
NCASES = (100, 1200)
RULE = ("generator H (gen/histgen.py) recast as scan + notifications: a 5-file virtual workspace whose first versions are the "
        "on-disk texts analysed scan-style (no clean-up) in a random order; a target document F (test module or conftest.py) "
        "receives didOpen with a structurally edited buffer either AFTER the scan visited F (scan-then-open), or BEFORE "
        "(open-then-scan: the scan then analyses the disk text on top), at every possible position of the scan order; then "
        "one or two further didChange versions.  After every notification and at the end of the scan the long-lived database "
        "is compared with a database that saw only the latest content of each file: all persistent maps and go-to-definition "
        "at every usage, resolution, available fixtures, imported names, references, undeclared findings.  non-trivial = the "
        "buffer differs from the disk text; distinct = (order kind, target kind, edit kinds)")
ASSUMPTIONS = ["virtual workspaces only", "ASCII", "the race between the scan worker and the notification is decomposed into its "
               "two sequential orders (op-level interleavings are C09's subject); the real race is sampled in the thorough tier"]
to_coq = C06.to_coq


def queries_for(latest, names, stdlib, last_path):
    qs = []
    for q in sorted(latest):
        if not C06.is_valid(latest[q]):
            continue
        for (line, s, e, name) in usage_positions(latest[q], stdlib):
            qs.append({"op": "goto", "path": q, "line": line - 1, "col": s})
        if "/test_" in q:
            for n in names:
                qs.append({"op": "closest", "path": q, "name": n})
            qs.append({"op": "available", "path": q})
        if q.endswith("conftest.py"):
            qs.append({"op": "imported", "path": q})
        for (name, line, s, e) in def_positions(latest[q], stdlib):
            qs.append({"op": "refs", "path": q, "name": name, "line": line})
    if last_path and C06.is_valid(latest[last_path]):
        qs.append({"op": "undeclared", "path": last_path})
    return qs


def make_case(cid, rnd, stdlib):
    while True:
        h = histgen.gen_history(rnd, root="/vs%d" % (cid % 5))
        if not any("def broken(:" in t for _, t in h["versions"]):
            break
    disk = dict(h["versions"][:h["nfiles"]])
    order = [p for p, _ in h["versions"][:h["nfiles"]]]
    edits = h["versions"][h["nfiles"]:]
    F = edits[0][0]
    bufs = [t for p, t in edits if p == F][:3]
    kind = rnd.choice(["scan_then_open", "open_then_scan", "open_then_scan", "open_mid_scan_after"])
    tags = ["order:" + kind, "target:" + ("conftest" if F.endswith("conftest.py") else "module"),
            "buffer:" + ("same" if bufs[0] == disk[F] else "differs")] + h["tags"][:3]
    steps, nq = [], 0
    latest, last_valid = {}, {}

    def note(p, t):
        latest.pop(p, None)
        latest[p] = t
        if C06.is_valid(t):
            last_valid.pop(p, None)
            last_valid[p] = t

    def both(last_path):
        nonlocal nq
        qs = queries_for(latest, h["names"], stdlib, last_path)
        fresh_ops = [{"op": "analyze", "path": q, "text": t} for q, t in last_valid.items()]
        steps.append({"q": "both", "fresh_ops": fresh_ops, "queries": qs})
        nq += len(qs) + 1

    iF = order.index(F)
    if kind == "scan_then_open":
        open_at = len(order)
    elif kind == "open_mid_scan_after":
        open_at = rnd.randint(iF + 1, len(order))
    else:
        open_at = rnd.randint(0, iF)
    opened = False
    for i, p in enumerate(order + [None]):
        if i == open_at:
            steps.append({"op": "analyze", "path": F, "text": bufs[0]})
            opened = True
            note(F, bufs[0])
            both(F)
        if p is None:
            break
        steps.append({"op": "analyze", "path": p, "text": disk[p], "fresh": True})
        if p == F and opened:
            pass          # the editor's content stays the latest content of F
        else:
            note(p, disk[p])
    both(None)                      # scan finished
    for t in bufs[1:] or [bufs[0]]:
        steps.append({"op": "analyze", "path": F, "text": t})
        note(F, t)
        both(F)
    return {"id": cid, "steps": steps, "tags": tags, "queries": nq}


def nontrivial(c):
    if "buffer:differs" in c["tags"] or any(t.startswith("corpus:") for t in c["tags"]):
        return tuple(c["tags"])
    return None


def corpus(stdlib):
    out = []
    for p in sorted(glob.glob(os.path.join(core.VERIF, "gen", "corpus", PID, "*.json"))):
        c = json.load(open(p))
        c["tags"] = ["corpus:" + os.path.basename(p)]
        c.setdefault("queries", len(c["steps"]))
        out.append(c)
    return out


def run(r):
    # protocol part (exploration shared with C19): histories of open / change notifications sent to the REAL server,
    # incl. workspaces that exist on disk before it starts (the scan has indexed what is then opened and edited);
    # after every notification the findings it publishes must be those of a fresh database on the latest contents
    import os, random
    import core, C19
    quick = r.tier == "quick"
    h1, _ = core.build_harness()
    stdlib = set(core.tables()["stdlib_modules"])
    bad, nh = C19.server_history_failures(r, h1, random.Random(r.seed * 17 + 10), int(os.environ.get("VERIF_SERVER_HISTORIES", 8 if quick else 80)), stdlib)
    for k, b in enumerate(bad[:2]):
        r.violation(dict({"property": PID, "part": "server histories"}, **b), "srv_%d" % k)
    r.notes.append("protocol part: %d histories over stdio" % nh)
    r.extra_coverage = {"server_histories": nh}
    return runner.drive_ws(r, sys.modules[__name__])


def replay(r, path):
    rp = json.load(open(path))
    case = rp.get("case")
    if not case:
        print(json.dumps(rp)[:600])
        return 1
    stdlib = set(core.tables()["stdlib_modules"])
    h1, _ = core.build_harness()
    from common_ws import evaluate
    case["id"] = 0
    meta = evaluate(r, "C10_replay", MODULE, VERDICT, [case], stdlib, h1, to_coq)
    codes = meta[0].get("codes", [])
    print(codes)
    listed = runner.listed_classes(PID, CLASS_BITS)
    corr, prop, known, mb = runner.classify(codes, listed.keys())
    return 1 if (prop or corr) else 0
