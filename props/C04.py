"""C04 — find-references is the exact inverse of go-to-definition."""
import sys

import runner, ws_prop
from common_ws import def_positions

PID = "C04"
MODULE = "Check.C04"
VERDICT = "verdict_C04 [] []"
CLASS_BITS = {16: "K_duplicate_usage"}
NCASES = (160, 2000)
shrinkable = True
RULE = ("generators W and W-chains (gen/wsgen.py) incl. fixtures named test_*; for every definition D of every file: "
        "find_references_for_definition(D) next to find_fixture_definition on every usage the implementation recorded "
        "under D's name (every (D,U) pair), plus a dump of both usage indexes; non-trivial = some conftest/link provides "
        "a name; distinct = distinct tag multiset")
ASSUMPTIONS = ["virtual workspaces only", "ASCII identifiers and lines",
               "code-lens and incoming-call counts are compared with the reference lists of the real server by the handler part of C05, CLI counts by C20; here the library functions they call"]


def add_queries(ws, steps, stdlib):
    steps.append({"q": "dump"})
    nq = 1
    for p in sorted(ws["files"]):
        for (name, line, s, e) in def_positions(ws["files"][p], stdlib):
            steps.append({"q": "refsx", "path": p, "name": name, "line": line})
            nq += 1
    return nq


def make_case(cid, rnd, stdlib):
    ws = ws_prop.gen_ws(cid, rnd)
    if rnd.random() < 0.25:
        # a function that is both a fixture and named test_* (its parameters are usages twice?)
        import wsgen
        n = ws["names"][0]
        p = sorted(ws["files"])[0].rsplit("/", 1)[0] + "/test_fixture_named_test.py"
        ws["files"][p] = "import pytest\n\n" + wsgen.fixture_src(rnd, "test_data", params=[n]) + "\n" + wsgen.test_src(rnd, "test_uses", ["test_data", n])
        ws["order"].insert(rnd.randrange(len(ws["order"]) + 1), p)
        ws["tags"].append("fixture-named-test")
    import wsgen as W
    steps = W.build_steps(ws)
    if cid % 4 == 1:
        # the background scan reaches documents the editor has already opened: a scan-style
        # (no clean-up) analysis of the same text on top of the first one.  Only modules without
        # fixture definitions of their own (for the others the doubled definitions are C10's
        # listed finding)
        again = [p for p in sorted(ws["files"]) if not def_positions(ws["files"][p], stdlib) and "def test" in ws["files"][p]]
        for p in again[:2]:
            steps.append({"op": "analyze", "path": p, "text": ws["files"][p], "fresh": True})
        if again:
            ws["tags"].append("scan-after-open")
    nq = add_queries(ws, steps, stdlib)
    return {"id": cid, "steps": steps, "tags": ws["tags"], "queries": nq}


def corpus(stdlib):
    return ws_prop.corpus_cases(PID, add_queries, stdlib, ("C01", "C02"))


nontrivial = ws_prop.nontrivial_default


def explore_line_ends(r, n, stdlib):
    """Line ends the generated grammar leaves out (a lone carriage return: `\\r\\r\\n` after a
    doubled CRLF conversion, an old-Mac line end, a raw `\\r` inside a docstring), placed ABOVE
    usages in modules that define no fixtures.  CPython counts lines differently there, so the
    model is not consulted: the two sides of the property are compared on the implementation's
    own records - every usage listed under a definition must lead back to it at its recorded
    position, and every usage that leads to it must be listed."""
    import random
    import core, wsgen as W
    h1, _ = core.build_harness()
    rnd = random.Random(r.seed * 31 + 4)
    cases, kinds = [], {}
    for cid in range(n):
        ws = ws_prop.gen_ws(cid, rnd)
        cands = [p for p in sorted(ws["files"]) if not def_positions(ws["files"][p], stdlib) and "def test" in ws["files"][p]]
        if not cands:
            continue
        p = rnd.choice(cands)
        kind = rnd.choice(["docstring-cr", "cr-cr-lf", "mac-line-end"])
        t = ws["files"][p]
        if kind == "docstring-cr":
            t = '"""module note\rsecond part"""\n' + t
        elif kind == "cr-cr-lf":
            t = t.replace("\n", "\r\r\n", 1)
        else:
            t = "X = 1\rY = 2\n" + t
        ws["files"][p] = t
        steps = W.build_steps(ws)
        add_queries(ws, steps, stdlib)
        cases.append({"id": cid, "steps": steps})
        kinds[cid] = (kind, p)
    obs, _ = core.run_h1(h1, [{"id": c["id"], "ops": [core.h1_op(s) for s in c["steps"]]} for c in cases], "C04_line_ends")
    bad, pairs = [], 0
    key = lambda u: (u.get("file") or u.get("file_path") or u.get("path"), u.get("line"), u.get("start_char", u.get("start")), u.get("name"))
    for c in cases:
        o = obs.get(c["id"])
        if o is None or o.get("hang"):
            continue
        for st, ans in zip(c["steps"], o["obs"]):
            if st.get("q") != "refsx" or not isinstance(ans, dict) or "def" not in ans:
                continue
            refs = sorted(set(json_key(u) for u in ans["refs"]))
            back = sorted(set(json_key(g["usage"]) for g in ans["gotos"] if g["ans"] == ans["def"]))
            pairs += len(ans["gotos"])
            if refs != back:
                bad.append({"why": "references and go-to-definition disagree in a document with a lone carriage return (%s in %s)" % kinds[c["id"]],
                            "definition": ans["def"], "listed_but_not_leading_back": [u for u in refs if u not in back][:4],
                            "leading_back_but_not_listed": [u for u in back if u not in refs][:4], "case": c})
    return bad, {"workspaces": len(cases), "pairs": pairs, "kinds": sorted(set(k for k, _ in kinds.values()))}


def json_key(u):
    import json
    return json.dumps(u, sort_keys=True)


def run(r):
    # handler part: the code-lens counts and the incoming calls of the real server against its own reference lists
    # (the exploration is shared with C05, which judges the other handlers)
    import json, os, random
    import core, C05
    quick = r.tier == "quick"
    stdlib = set(core.tables()["stdlib_modules"])
    bad, stats, tags = C05.explore_handlers(r, random.Random(r.seed * 11 + 4), int(os.environ.get("VERIF_H2_WORKSPACES", 24 if quick else 60)), stdlib)
    seen = set()
    for b in bad:
        if not (b["why"].startswith("a code lens count") or b["why"].startswith("the incoming calls") or b["why"].startswith("the references of a definition")) or b["why"] in seen:
            continue
        seen.add(b["why"])
        r.violation(dict({"property": PID, "part": "handlers"}, **b), "h2_%d" % len(seen))
    r.notes.append("handler part: %s" % json.dumps({k: v for k, v in stats.items() if k in ("workspaces", "code_lens", "incoming", "references_inverse")}))
    r.extra_coverage = {"handler_part": {k: v for k, v in stats.items() if k in ("workspaces", "code_lens", "incoming")}}
    bad2, st2 = explore_line_ends(r, 40 if quick else 300, stdlib)
    for i, b in enumerate(bad2[:3]):
        r.violation(dict({"property": PID, "part": "line-ends"}, **b), "cr_%d" % i)
    r.notes.append("line-end part (lone carriage returns above usages; implementation's own records, both directions): %s, %d disagree" % (json.dumps(st2), len(bad2)))
    r.extra_coverage["line_end_part"] = st2
    return runner.drive_ws(r, sys.modules[__name__])
