"""C12 — every operation terminates: no deadlock, no unbounded looping.

Deadlock part.  Theorem (Proofs/Deadlock.v): if the conflict relation of the lock-nesting
table is acyclic, no configuration of any number of threads whose programs nest only as the
table says is ever deadlocked — any schedule, any key->shard placement.  The table is
REGENERATED on every run: the harness and the server binary are rebuilt from /repo's current
source against an instrumented copy of dashmap 6.1.0 that logs, per thread, which map's shard
lock is held (and how) when another one is requested; every library entry point (generated
workspaces / histories / graphs, a real scan) and every request kind of the server over
stdio plus the CLI are swept.  Generated/LockEdges.v = observed nestings + the hand-derived
std::sync::Mutex nestings (their `.lock()` sites are fingerprinted by translator/gen_locks.py).
The theorem C12_lock_edges_acyclic is then re-checked by the kernel (vm_compute).

Termination part.  Theorems over the model: the import walk (visited set) and the cycle
detector return within their fuel bound on EVERY import / dependency graph; the sweep runs
every operation under a watchdog on graphs with self / mutual imports and dependency loops."""
import collections, hashlib, json, os, random, shutil, subprocess, sys, tempfile, time

import core, runner
import coqlit as L
import wsgen, ws_prop, histgen, graphgen
from common_ws import usage_positions, def_positions

PID = "C12"
MUTEX_IDS = {"site_packages_paths": 15, "editable_install_roots": 16, "workspace_root": 17}
# .lock() sites the hand-derived mutex nestings below were derived from (file, code line)
EXPECTED_LOCK_SITES_SHA = None   # filled from known value below; a change means: re-derive MUTEX_EDGES
MODE = {0: "R", 1: "W"}


def mutex_edges(observed):
    """hand-derived from the source (see DESIGN.md §7 C12):
    - find_module_file runs under site_packages_paths / editable_install_roots (imports.rs) and
      touches canonical_path_cache (get + insert) and file_cache (contains_key);
    - editable_install_roots is held while workspace_root is taken (mod.rs, cli.rs);
    - conservatively, every map/mode ever observed HELD may be held when a mutex is taken."""
    fc, cp = 4, 7
    e = set()
    for mx in (15, 16):
        e |= {((mx, 1), (cp, 0)), ((mx, 1), (cp, 1)), ((mx, 1), (fc, 0))}
    e.add(((16, 1), (17, 1)))
    for (h, r) in observed:
        for mx in (15, 16, 17):
            e.add((h, (mx, 1)))
    return e


def lib_sweep_cases(rnd, n, stdlib):
    cases = []
    for i in range(n):
        ws = ws_prop.gen_ws(i, rnd)
        steps = wsgen.build_steps(ws)
        for p in sorted(ws["files"]):
            t = ws["files"][p]
            for (line, s, e, name) in usage_positions(t, stdlib)[:6]:
                for q in ("goto", "goto_or_def", "name_at"):
                    steps.append({"op": q, "path": p, "line": line - 1, "col": s})
            for (name, line, s, e) in def_positions(t, stdlib)[:4]:
                steps.append({"op": "refs", "path": p, "name": name, "line": line})
                steps.append({"op": "goto_or_def", "path": p, "line": line - 1, "col": s})
                steps.append({"op": "def_at_line", "path": p, "line": line, "name": name})
            for q in ("available", "imported", "undeclared", "cycles_in_file", "mismatches"):
                steps.append({"op": q, "path": p})
            for n_ in ws["names"][:3]:
                for q in ("closest", "resolve_for_file", "is_available", "is_imported"):
                    steps.append({"op": q, "path": p, "name": n_})
            nl = t.count("\n") + 1
            for ln in range(0, nl, max(1, nl // 5)):
                steps.append({"op": "completion_context", "path": p, "line": ln, "col": 4})
                steps.append({"op": "param_insertion", "path": p, "line": ln + 1})
                steps.append({"op": "containing_function", "path": p, "line": ln + 1})
        steps.append({"op": "cycles"})
        steps.append({"op": "cli"})
        for n_ in ws["names"][:2]:
            steps.append({"op": "refs_by_name", "name": n_})
        # re-analysis (clean and fresh), close, evict
        ps = sorted(ws["files"])
        for p in ps[:3]:
            steps.append({"op": "analyze", "path": p, "text": ws["files"][p] + "\n"})
            steps.append({"op": "available", "path": p})
        steps.append({"op": "analyze_fresh", "path": ps[0], "text": ws["files"][ps[0]]})
        steps.append({"op": "close", "path": ps[0]})
        steps.append({"op": "evict"})
        steps.append({"op": "cycles"})
        cases.append({"id": i, "ops": steps})
    # graphs with dependency loops and import cycles
    for j in range(max(2, n // 3)):
        g = graphgen.gen_graph_workspace(rnd, root="/vg%d" % j)
        if g:
            steps = wsgen.build_steps(g) + [{"op": "cycles"}]
            for p in sorted(g["files"]):
                steps += [{"op": "cycles_in_file", "path": p}, {"op": "mismatches", "path": p}, {"op": "available", "path": p}]
            cases.append({"id": 1000 + j, "ops": steps})
    cases.append({"id": 2000, "ops": [
        {"op": "analyze", "path": "/vi/a.py", "text": "from .b import *\nfrom .a import *\nimport pytest\n\n@pytest.fixture\ndef fa(fb, fa):\n    return 1\n"},
        {"op": "analyze", "path": "/vi/b.py", "text": "from .a import *\nfrom . import b\nimport pytest\n\n@pytest.fixture\ndef fb(fa):\n    return 1\n"},
        {"op": "analyze", "path": "/vi/conftest.py", "text": "from .a import *\npytest_plugins = ['b', 'a']\n"},
        {"op": "analyze", "path": "/vi/test_x.py", "text": "def test_x(fa, fb):\n    pass\n"},
        {"op": "imported", "path": "/vi/conftest.py"}, {"op": "imported", "path": "/vi/a.py"}, {"op": "available", "path": "/vi/test_x.py"},
        {"op": "goto", "path": "/vi/test_x.py", "line": 0, "col": 11}, {"op": "cycles"}, {"op": "cli"}]})
    # modules over every documented syntax form (generator P: compound parametrize argnames with a name
    # embedded in longer identifiers once, twice, as prefix / suffix; strings, marks, class nesting ...) and a
    # few fixed argnames literals that make the whole-word search reject several occurrences in a row
    import pgen
    for j in range(3 * n):
        text, _ = pgen.gen_program(rnd)
        cases.append({"id": 4000 + j, "ops": [{"op": "analyze", "path": "/vp/test_p%d.py" % j, "text": text}, {"op": "available", "path": "/vp/test_p%d.py" % j}]})
    for j, names in enumerate(["user_id,id_type,id", "xs,x", "db_db,db", "a_db,db_a,a_db_a,db", "iddb,dbid,db", "db,db_db,db"]):
        nm = names.split(",")[-1]
        text = ("import pytest\n\n@pytest.fixture\ndef %s():\n    return 1\n\n@pytest.mark.parametrize(\"%s\", [(1,) * %d], indirect=True)\ndef test_e(%s):\n    pass\n"
                % (nm, names, names.count(",") + 1, names))
        cases.append({"id": 4900 + j, "ops": [{"op": "analyze", "path": "/vp/test_embedded%d.py" % j, "text": text}, {"op": "dump"}]})
    # more analysed files than the text cache holds: the eviction at the end of an analysis runs
    # (seed S28: removing entries while iterating over the same map)
    cases.append({"id": 3000, "ops": [{"op": "analyze", "path": "/vbig/d%d/test_f%d.py" % (k % 7, k), "text": "def test_%d(x):\n    pass\n" % k}
                                      for k in range(2010)] + [{"op": "evict"}, {"op": "file_cache_keys"}]})
    return cases


def write_real_tree(root, rnd):
    ws = wsgen.gen_workspace(rnd, root="/vr")
    n = 0
    for p, t in ws["files"].items():
        if "site-packages" in p:
            continue
        q = os.path.join(root, os.path.relpath(p, "/vr"))
        os.makedirs(os.path.dirname(q), exist_ok=True)
        open(q, "w").write(t)
        n += 1
    # a package with mutual / self imports and a fixture dependency loop
    os.makedirs(os.path.join(root, "loop"), exist_ok=True)
    open(os.path.join(root, "loop", "conftest.py"), "w").write("from .m1 import *\nimport pytest\n\n@pytest.fixture\ndef la(lb):\n    return 1\n\n@pytest.fixture\ndef lb(la):\n    return 1\n")
    open(os.path.join(root, "loop", "m1.py"), "w").write("from .m2 import *\nfrom .m1 import *\nimport pytest\n\n@pytest.fixture\ndef f1():\n    return 1\n")
    open(os.path.join(root, "loop", "m2.py"), "w").write("from .m1 import *\nimport pytest\n\n@pytest.fixture\ndef f2(f2):\n    return 1\n")
    open(os.path.join(root, "loop", "test_loop.py"), "w").write("def test_l(la, f1, f2):\n    x = lb\n")
    # import cycles among PLUGIN modules: an entry-point plugin of the venv whose modules star-import
    # each other (and themselves), and pytest_plugins declarations that name each other
    sp = os.path.join(root, ".venv", "lib", "python3.11", "site-packages")
    os.makedirs(os.path.join(sp, "pytest_cyc"), exist_ok=True)
    os.makedirs(os.path.join(sp, "pytest_cyc-1.0.dist-info"), exist_ok=True)
    fx = "import pytest\n\n@pytest.fixture\ndef %s():\n    return 1\n"
    open(os.path.join(sp, "pytest_cyc", "__init__.py"), "w").write("")
    open(os.path.join(sp, "pytest_cyc", "plugin.py"), "w").write('from .helpers import *\npytest_plugins = ["pytest_cyc.extra"]\n' + fx % "cyc_a")
    open(os.path.join(sp, "pytest_cyc", "extra.py"), "w").write('pytest_plugins = ["pytest_cyc.plugin", "pytest_cyc.extra"]\n' + fx % "cyc_c")
    open(os.path.join(sp, "pytest_cyc", "helpers.py"), "w").write("from .plugin import *\nfrom .helpers import *\n" + fx % "cyc_b")
    open(os.path.join(sp, "pytest_cyc-1.0.dist-info", "entry_points.txt"), "w").write("[pytest11]\ncyc = pytest_cyc.plugin\n")
    # a second entry-point plugin whose modules are reached through a SYMLINKED package directory
    # (`compat` -> `_impl`) and import each other / themselves: the paths the import resolution
    # yields are not the canonical ones the plugin bookkeeping is keyed by
    os.makedirs(os.path.join(sp, "pytest_lnk", "_impl"), exist_ok=True)
    os.makedirs(os.path.join(sp, "pytest_lnk-2.0.dist-info"), exist_ok=True)
    open(os.path.join(sp, "pytest_lnk", "__init__.py"), "w").write("")
    open(os.path.join(sp, "pytest_lnk", "_impl", "__init__.py"), "w").write("")
    open(os.path.join(sp, "pytest_lnk", "_impl", "base.py"), "w").write("from pytest_lnk.compat.extra import *\nfrom .base import *\n" + fx % "lnk_a")
    open(os.path.join(sp, "pytest_lnk", "_impl", "extra.py"), "w").write('from pytest_lnk.compat.base import *\npytest_plugins = ["pytest_lnk.compat.base"]\n' + fx % "lnk_b")
    if not os.path.lexists(os.path.join(sp, "pytest_lnk", "compat")):
        os.symlink("_impl", os.path.join(sp, "pytest_lnk", "compat"))
    open(os.path.join(sp, "pytest_lnk", "plugin.py"), "w").write("from .compat.base import *\n" + fx % "lnk_c")
    open(os.path.join(sp, "pytest_lnk-2.0.dist-info", "entry_points.txt"), "w").write("[pytest11]\nlnk = pytest_lnk.plugin\n")
    os.makedirs(os.path.join(root, "plugcyc"), exist_ok=True)
    open(os.path.join(root, "plugcyc", "conftest.py"), "w").write('pytest_plugins = ["plug_a"]\n')
    open(os.path.join(root, "plugcyc", "plug_a.py"), "w").write('pytest_plugins = ["plug_b"]\nfrom plug_b import *\n' + fx % "pa")
    open(os.path.join(root, "plugcyc", "plug_b.py"), "w").write('pytest_plugins = ["plug_a", "plug_b"]\nfrom plug_a import *\nfrom plug_b import *\n' + fx % "pb")
    open(os.path.join(root, "plugcyc", "test_pc.py"), "w").write("def test_pc(pa, pb, cyc_a, cyc_b):\n    pass\n")
    d = root
    for k in range(40):
        d = os.path.join(d, "d%d" % k)
    os.makedirs(d)
    open(os.path.join(d, "test_deep.py"), "w").write("def test_deep(la):\n    pass\n")
    return ws


def server_sweep(pls, root, log, rnd, timeout=60):
    import lsp
    env = {"DASHMAP_LOCKLOG": log}
    nreq, problems = 0, []
    srv = lsp.Server(pls, root=root, env=env, timeout=timeout)
    try:
        # notifications while the scan may still be running
        docs = []
        for dp, _, fs in os.walk(root):
            for f in fs:
                if f.endswith(".py"):
                    docs.append(os.path.join(dp, f))
        docs.sort()
        for p in docs[:6]:
            srv.open(p, open(p).read())
        srv.wait_for_log("Workspace scan complete", timeout=timeout)
        for p in docs[:12]:
            text = open(p).read()
            srv.open(p, text)
            srv.change(p, text + "\n", 2)
            lines = text.split("\n")
            rng = {"start": {"line": 0, "character": 0}, "end": {"line": len(lines) + 1, "character": 0}}
            for call in (lambda: srv.document_symbol(p), lambda: srv.code_lens(p), lambda: srv.inlay_hint(p, rng)):
                call()
                nreq += 1
            diags = srv.last_diagnostics(p) or []
            srv.code_action(p, rng, diags)
            nreq += 1
            for ln, text_line in enumerate(lines[:40]):
                for col in sorted(set([0, 4, max(0, len(text_line) // 2), max(0, len(text_line) - 2)])):
                    for m in ("definition", "hover", "references", "implementation", "completion"):
                        getattr(srv, m)(p, ln, col)
                        nreq += 1
                    items = srv.prepare_call_hierarchy(p, ln, col)
                    nreq += 1
                    for it in (items or [])[:1]:
                        srv.incoming_calls(it)
                        srv.outgoing_calls(it)
                        nreq += 2
        srv.workspace_symbol("")
        srv.workspace_symbol("fx")
        nreq += 2
        for p in docs[:4]:
            srv.close(p)
        time.sleep(0.2)
        if not srv.alive():
            problems.append("server exited during the sweep")
    except Exception as e:
        problems.append("server sweep: %s: %s" % (type(e).__name__, e))
    finally:
        try:
            srv.shutdown()
        except Exception:
            pass
    return nreq, problems


def norm_sig(t):
    import re as _re
    return _re.sub(r"\b(pytest_language_server|pls_h4)::", "crate::", t.strip())


class MapNames:
    """map ids of one process log -> global ids: 0-13 the FixtureDatabase fields (recognised by the
    sequence of their key/value type signatures, learned from the library process where the first
    14 maps ARE the fields in construction order), 14 uri_cache, 18.. foreign maps (tower-lsp)."""

    def __init__(self, nfields):
        self.nfields = nfields
        self.sigs = None          # signatures of the fields, in order
        self.foreign = {}         # signature -> global id

    def learn(self, path):
        sigs = []
        for line in open(path, errors="replace"):
            if line.startswith("M "):
                sigs.append(norm_sig(line.split(" ", 2)[2]))
                if len(sigs) == self.nfields:
                    break
        self.sigs = sigs

    def table(self, path):
        ids, k = {}, 0
        for line in open(path, errors="replace"):
            if not line.startswith("M "):
                continue
            _, i, sig = line.split(" ", 2)
            sig = norm_sig(sig)
            if self.sigs and sig == self.sigs[k % self.nfields]:
                ids[int(i)] = k % self.nfields
                k += 1
            elif "uri::Uri" in sig:
                ids[int(i)] = 14
            else:
                ids[int(i)] = self.foreign.setdefault(sig, 18 + len(self.foreign))
        return ids


def parse_log(path, names):
    edges = set()
    if not os.path.exists(path):
        return edges
    ids = names.table(path)
    for line in open(path, errors="replace"):
        if line.startswith("M "):
            continue
        f = line.split()
        if len(f) < 4:
            continue
        a, am, b, bm = int(f[0]), int(f[1]), int(f[2]), int(f[3])
        edges.add(((ids.get(a, 99), am), (ids.get(b, 99), bm)))
    return edges


def gb(e, f):
    return e[1][0] == f[0][0] and (e[1][1] == 1 or f[0][1] == 1)


def find_cycle(edges):
    """a G-cycle among the nestings, if any (for the replay of a violation)"""
    es = sorted(edges)
    succ = {e: [f for f in es if gb(e, f)] for e in es}
    color, stack = {}, []

    def dfs(e):
        color[e] = 1
        stack.append(e)
        for f in succ[e]:
            if color.get(f) == 1:
                return stack[stack.index(f):] + [f]
            if f not in color:
                r = dfs(f)
                if r:
                    return r
        color[e] = 2
        stack.pop()
        return None
    for e in es:
        if e not in color:
            r = dfs(e)
            if r:
                return r
    return None


def run(r):
    quick = r.tier == "quick"
    t0 = time.time()
    try:
        rc, out = core.sh([sys.executable, os.path.join(core.VERIF, "translator", "gen_locks.py"), core.REPO, os.path.join(core.CACHE, "locks.json")])
        if rc != 0:
            raise core.TieBroken("translator-locks", out.strip())
        locks = json.load(open(os.path.join(core.CACHE, "locks.json")))
    except core.TieBroken as e:
        locks = None
        r.proof["translator"] = e.detail
    tables = None
    try:
        tables = core.tables()
    except core.TieBroken as e:
        r.proof["translator"] = e.detail
    stdlib = set(tables["stdlib_modules"]) if tables else set()
    h4, pls = core.build_h4()
    rnd = random.Random(r.seed)
    base = tempfile.mkdtemp(prefix="verif_c12_")
    problems = []
    try:
        # ---- library sweep
        lib_log = os.path.join(base, "lib.log")
        cases = lib_sweep_cases(rnd, 10 if quick else 120, stdlib)
        root = os.path.join(base, "tree")
        os.makedirs(root)
        write_real_tree(root, rnd)
        cases.append({"id": 3000, "ops": [{"op": "scan", "path": root}, {"op": "cli"}, {"op": "cycles"}, {"op": "dump"}]})
        # documents analysed WITHOUT a scan on a real directory: the modules their conftest star-imports / names in
        # pytest_plugins exist on disk but were never analysed (a request racing the background scan): every query on
        # them runs with whatever the import walk does about such modules, under the watchdog and the lock log
        late = os.path.join(base, "late")
        os.makedirs(os.path.join(late, "pkg"))
        fxs = "import pytest\n\n" + "".join("@pytest.fixture\ndef %s():\n    return 1\n\n" % x for x in ["fx_late"] + ["late_%d" % k for k in range(60)])
        files_late = {os.path.join(late, "conftest.py"): "import pytest\n\n@pytest.fixture\ndef fx_late():\n    return 0\n",
                      os.path.join(late, "pkg", "late_mod.py"): fxs, os.path.join(late, "pkg", "late_plug.py"): fxs.replace("late_", "plug_"),
                      os.path.join(late, "pkg", "conftest.py"): "from .late_mod import *\npytest_plugins = [\"late_plug\"]\n",
                      os.path.join(late, "pkg", "test_late.py"): "def test_l(fx_late, late_3, plug_5):\n    pass\n"}
        for q, tt in files_late.items():
            open(q, "w").write(tt)
        lp, lt = os.path.join(late, "pkg", "test_late.py"), os.path.join(late, "pkg", "conftest.py")
        ops_late = [{"op": "analyze", "path": os.path.join(late, "conftest.py"), "text": files_late[os.path.join(late, "conftest.py")]},
                    {"op": "analyze", "path": lt, "text": files_late[lt]}, {"op": "analyze", "path": lp, "text": files_late[lp]}]
        for col in (11, 20, 28):
            for q in ("goto", "goto_or_def", "name_at"):
                ops_late.append({"op": q, "path": lp, "line": 0, "col": col})
        for q in ("available", "imported", "undeclared"):
            ops_late.append({"op": q, "path": lp})
        ops_late += [{"op": "imported", "path": lt}, {"op": "closest", "path": lp, "name": "fx_late"}, {"op": "is_imported", "path": lt, "name": "late_3"},
                     {"op": "analyze", "path": lp, "text": files_late[lp] + "\n"}, {"op": "cycles"}, {"op": "cli"}]
        cases.append({"id": 3001, "ops": ops_late})
        inp, outp = os.path.join(base, "lib.in.json"), os.path.join(base, "lib.out.json")
        json.dump(cases, open(inp, "w"))
        rc, out = core.sh([h4, inp, outp], timeout=1800, env={"DASHMAP_LOCKLOG": lib_log, "H1_CASE_TIMEOUT_S": "60"})
        nops = sum(len(c["ops"]) for c in cases)
        if not os.path.exists(outp):
            problems.append({"why": "library sweep produced no output (rc=%s)" % rc, "detail": out[-800:]})
            res = []
        else:
            res = json.load(open(outp))
        for c, o in zip(cases, res):
            if o.get("hang"):
                problems.append({"why": "an operation did not terminate within the watchdog (60 s)", "case_ops": c["ops"][:40]})
        nmaps = len(locks["maps"]) if locks else 14
        mapnames = MapNames(nmaps)
        if os.path.exists(lib_log):
            mapnames.learn(lib_log)
        lib_edges = parse_log(lib_log, mapnames)
        # ---- server + CLI sweep
        srv_log = os.path.join(base, "srv.log")
        nreq, sp = server_sweep(pls, root, srv_log, rnd)
        problems += [{"why": p} for p in sp]
        cli_runs = 0
        for cmd in (["fixtures", "unused", root, "--format", "json"], ["fixtures", "list", root], ["fixtures", "list", root, "--only-unused"]):
            cl = os.path.join(base, "cli%d.log" % cli_runs)
            try:
                subprocess.run([pls] + cmd, env=dict(os.environ, DASHMAP_LOCKLOG=cl, NO_COLOR="1"), stdout=subprocess.DEVNULL,
                               stderr=subprocess.DEVNULL, timeout=120)
            except subprocess.TimeoutExpired:
                problems.append({"why": "CLI did not terminate within 120 s", "cmd": cmd[:2]})
            lib_edges |= parse_log(cl, mapnames)
            cli_runs += 1
        srv_edges = parse_log(srv_log, mapnames)
        observed = lib_edges | srv_edges
        unknown = sorted(e for e in observed if 99 in (e[0][0], e[1][0]))
        observed = set(e for e in observed if 99 not in (e[0][0], e[1][0]))
        edges = observed | mutex_edges(observed)
        names = (locks["maps"] if locks else ["map%d" % i for i in range(14)]) + ["uri_cache", "site_packages_paths", "editable_install_roots", "workspace_root"]
        names += ["foreign:" + sig for sig, _ in sorted(mapnames.foreign.items(), key=lambda kv: kv[1])]

        # ---- mutex site fingerprint
        sites_ok = True
        if locks:
            sha = hashlib.sha256(json.dumps(sorted((a, c) for a, b, c in locks["lock_sites"])).encode()).hexdigest()[:16]
            known = json.load(open(os.path.join(core.VERIF, "translator", "lock_sites.json")))
            if sha != known["sha"]:
                sites_ok = False
                r.proof["mutex_sites_changed"] = {"expected": known["sha"], "now": sha, "sites": locks["lock_sites"]}
        # ---- Generated/LockEdges.v
        def ce(e):
            return "((%d, %s), (%d, %s))" % (e[0][0], MODE[e[0][1]], e[1][0], MODE[e[1][1]])
        text = ("(** GENERATED by props/C12.py on every run: lock nestings observed in the instrumented build of /repo's current\n"
                "    source (maps 0-13 = FixtureDatabase fields in construction order, 14 = Backend.uri_cache, 18.. = maps of\n"
                "    tower-lsp-server) plus the hand-derived std::sync::Mutex nestings (15 site_packages_paths,\n"
                "    16 editable_install_roots, 17 workspace_root). Do not edit. *)\n"
                "From PLS Require Import Model.Locks.\n"
                "Definition lock_edges : list edge :=\n  [%s].\n" % ";\n   ".join(ce(e) for e in sorted(edges)))
        gen = os.path.join(core.COQ, "theories", "Generated", "LockEdges.v")
        if not os.path.exists(gen) or open(gen).read() != text:
            open(gen, "w").write(text)
        proof_ok = runner.proof_stage(r) and sites_ok and locks is not None
        cycle = find_cycle(edges)

        def pretty(e):
            return "%s(%s) -> %s(%s)" % (names[e[0][0]], MODE[e[0][1]], names[e[1][0]], MODE[e[1][1]])
        if cycle:
            # a concrete deadlocked history of the lock model: one thread per nesting of the cycle,
            # each holding what it holds and asking for what the next one holds
            r.violation({"property": PID, "why": "the lock-nesting table has a conflict cycle: threads running these nestings deadlock (model-level history: "
                         "thread i holds the first lock of nesting i and requests its second, which thread i+1 holds in a conflicting mode, all keys on one shard)",
                         "cycle": [pretty(e) for e in cycle], "all_nestings": [pretty(e) for e in sorted(edges)],
                         "backtraces": "re-run with DASHMAP_LOCKLOG_BT=1 for the call stacks of each nesting", "seed": r.seed}, "cycle")
        for k, p in enumerate(problems[:2]):
            r.violation(dict({"property": PID}, **p), "term_%d" % k)
        if unknown and not r.violations:
            r.violation({"property": PID, "broken": "tie:lock-table (locks of maps the translator does not know were observed)", "edges": unknown}, "unknown_maps", no_input=True)
        if not proof_ok and not r.violations:
            r.violation({"property": PID, "broken": "thm:PLS.Properties.C12", "detail": {k: v for k, v in r.proof.items() if k != "cone"}, "seed": r.seed},
                        "proof", no_input=True)
        acq = collections.Counter()
        for e in observed:
            acq[names[e[0][0]]] += 0
        seen_maps = set(names[x[0]] for e in observed for x in e)
        never = [m for m in (locks["maps"] if locks else []) if m not in seen_maps]
        r.notes.append("maps never involved in any observed nesting (their accesses happen with nothing else held): %s" % ", ".join(never))
        r.coverage = {
            "obligations": r.proof.get("statements", 0), "discharged": r.proof.get("qed", 0) if proof_ok else 0,
            "checker_cmd": "make -C coq theories/Properties/C12.vo (coqc 8.16.1; C12_lock_edges_acyclic by vm_compute on the regenerated table) + Print Assumptions + hygiene grep",
            "trusted_base": runner.trusted_base() + [
                "lock semantics of dashmap %s lock.rs (reader-preferring, as modelled in Model/Locks.v); the instrumented copy harness/vendor/dashmap (lockdep.rs + 3 hooks in lock.rs / lib.rs)" % (tables or {}).get("dashmap_version", "?"),
                "completeness of the observed nesting set: entry-point sweep (library ops, every LSP request kind over stdio, CLI), not proof",
                "std::sync::Mutex nestings derived by hand; their .lock() sites fingerprinted by translator/gen_locks.py",
                "tokio / tower-lsp-server liveness is outside the model"],
            "evaluations": nops + nreq + cli_runs, "distinct_nontrivial": len(observed),
            "rule": "one evaluation = one library operation, one LSP request or one CLI run executed against the instrumented dashmap; "
                    "distinct_nontrivial = number of distinct observed (held map, mode) -> (requested map, mode) nestings",
            "samples": [pretty(e) for e in sorted(observed)][:40],
            "library_ops": nops, "lsp_requests": nreq, "cli_runs": cli_runs, "observed_nestings": len(observed),
            "table_size": len(edges), "conflict_cycle": bool(cycle), "watchdog_problems": len(problems),
            "map_site_counts": locks["map_site_counts"] if locks else None,
            "proof": {k: v for k, v in r.proof.items() if k != "cone"},
        }
        r.assumptions = ["nestings are per-thread program properties: a sequential sweep observes them; the theorem generalises to all schedules and shard placements",
                         "lock semantics as of dashmap 6.1.0"]
        return r.finish()
    finally:
        shutil.rmtree(base, ignore_errors=True)


def replay(r, path):
    print(json.dumps(json.load(open(path)))[:3000])
    return 1
