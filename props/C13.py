"""C13 — discovery covers exactly pytest's files, wherever the workspace lives.

Generator T: directory trees with file names near the patterns, ignored and near-miss
directory names at every depth, non-UTF-8 and syntactically invalid files, exclude
patterns; every tree is written at several absolute roots (ancestors named like ignored
directories, containing "site-packages", the root itself named so).  The real scan runs
on each; the set of indexed files and the third-party flags, expressed relative to the
root, are compared with the Coq model and judged by the spec (Spec/Discovery.v)."""
import collections, json, os, random, shutil, sys, tempfile

import core, runner
import coqlit as L

PID = "C13"

TEST_NAMES = ["test_a.py", "b_test.py", "conftest.py", "test_.py", "_test.py", "test_c_test.py"]
NEAR_NAMES = ["test.py", "mytest.py", "testx.py", "conftest.pyc", "test_b.txt", "test_c.pyi", "Test_d.py", "contest.py",
              "conftest.py.bak", "test_e.py~", "xtest_f.py", "g_tests.py", "util.py", "__init__.py"]
ORD_DIRS = ["pkg", "tests", "sub", "src", "a.b"]
NEAR_DIRS = ["my_venv", "pyenv", "rebuild", "builds", "env2", "xvenv", "dist2", "target_dir", "egg-info", "x.egg-info2",
             "site-packages2", "my-site-packages", ".gitx", "venv.bak", "Build"]
IGN_DIRS = [".git", "venv", "env", ".venv", ".env", "build", "dist", "__pycache__", "node_modules", ".tox", ".nox", "site-packages",
            "foo.egg-info", ".egg-info", ".cache", "vendor", "target", ".eggs", ".mypy_cache", ".pytest_cache", ".ruff_cache", ".hg", ".svn",
            ".idea", ".vscode", ".local", "bower_components"]
PATTERNS = ["build/**", "**/sub/*", "tests/test_*.py", "*.py", "pkg/**/conftest.py", "[", "src/*", "**/b_test.py", "tests/**",
            "*/conftest.py", "conftest.py", "**/*_test.py", "a.b/**",
            # patterns that match a DIRECTORY's relative path but not the files below it: the files stay indexed
            "tests", "**/sub", "pkg", "src", "**/pkg", "tests/sub", "*kg", "s?c", "**/tests"]
ROOTS = [["proj"], ["@link", "build", "proj"], ["@link", "proj"], ["build", "proj"], ["env", "x", "proj"], ["venv"], ["my-site-packages-mirror", "proj"], ["site-packages", "proj"],
         ["dist", "a.egg-info", "proj"], ["work", ".cache", "proj"], ["target"], ["pkg.egg-info"]]


def gen_tree(rnd, depth=0, counter=None):
    """-> list of nodes: ("f", name, kind) | ("d", name, children); kind in ok/invalid/nonutf8"""
    counter = counter if counter is not None else [0]
    nodes, used = [], set()
    nfiles = rnd.randint(0, 4) if depth else rnd.randint(1, 4)
    for _ in range(nfiles):
        n = rnd.choice(TEST_NAMES if rnd.random() < 0.6 else NEAR_NAMES)
        if n in used:
            continue
        used.add(n)
        r = rnd.random()
        nodes.append(("f", n, "ok" if r < 0.8 else ("invalid" if r < 0.9 else "nonutf8")))
    if depth < 3:
        for _ in range(rnd.randint(0, 3 if depth < 2 else 1)):
            r = rnd.random()
            n = rnd.choice(ORD_DIRS if r < 0.5 else (IGN_DIRS if r < 0.8 else NEAR_DIRS))
            if n in used:
                continue
            used.add(n)
            nodes.append(("d", n, gen_tree(rnd, depth + 1, counter)))
    return nodes


def files_of(nodes, rel=""):
    for nd in nodes:
        if nd[0] == "f":
            yield (rel + nd[1], nd[2])
        else:
            yield from files_of(nd[2], rel + nd[1] + "/")


def fixture_name(relpath):
    return "fx_" + "".join(c if c.isalnum() else "_" for c in relpath)


def write_tree(root, nodes, rel=""):
    os.makedirs(root, exist_ok=True)
    for nd in nodes:
        p = os.path.join(root, nd[1])
        if nd[0] == "d":
            write_tree(p, nd[2], rel + nd[1] + "/")
        else:
            fx = fixture_name(rel + nd[1])
            if nd[2] == "ok":
                data = ("import pytest\n\n@pytest.fixture\ndef %s():\n    return 1\n\ndef test_use(%s):\n    pass\n" % (fx, fx)).encode()
            elif nd[2] == "invalid":
                data = b"import pytest\n\n@pytest.fixture\ndef broken(:\n    pass\n"
            else:
                data = b"import pytest\n\xff\xfe\n@pytest.fixture\ndef zz():\n    pass\n"
            with open(p, "wb") as f:
                f.write(data)


def ctree(nodes):
    out = []
    for nd in nodes:
        if nd[0] == "f":
            out.append("TFile %s %s" % (L.cstr(nd[1]), L.cbool(nd[2] != "nonutf8")))
        else:
            out.append("TDir %s %s" % (L.cstr(nd[1]), ctree(nd[2])))
    return L.clist(out)


def crel(rel):
    return L.clist([L.cstr(c) for c in reversed([c for c in rel.split("/") if c])])


def is_pytest_name(n):
    return n == "conftest.py" or (n.startswith("test_") and n.endswith(".py")) or n.endswith("_test.py")


CORPUS = [
    {"tree": [("d", "tests", [("f", "test_a.py", "ok"), ("f", "conftest.py", "ok")])], "patterns": [], "roots": [["proj"], ["build", "proj"], ["env"]],
     "tag": "corpus:root_under_build"},
    {"tree": [("f", "conftest.py", "ok"), ("d", "my_venv", [("f", "test_v.py", "ok")]), ("d", "venv", [("f", "test_w.py", "ok")])], "patterns": [],
     "roots": [["proj"], ["my-site-packages-mirror", "proj"]], "tag": "corpus:site_packages_ancestor"},
    # seed S25: the workspace reached through a symlinked ancestor, below a directory with an ignored name, with exclude patterns
    {"tree": [("f", "conftest.py", "ok"), ("d", "tests", [("f", "test_a.py", "ok")]), ("d", "generated", [("f", "test_gen.py", "ok")])],
     "patterns": ["generated/*"], "roots": [["proj"], ["@link", "build", "proj"], ["@link", "proj"]], "tag": "corpus:symlinked_root"},
]


def run(r):
    quick = r.tier == "quick"
    proof_ok = runner.proof_stage(r)
    h1, _ = core.build_harness()
    rnd = random.Random(r.seed)
    n = int(os.environ.get("VERIF_CASES", 80 if quick else 600))
    base = tempfile.mkdtemp(prefix="verif_c13_")
    tagc = collections.Counter()
    try:
        def explore(specs, name):
            """specs: [{tree, patterns, roots, tag}] -> list of (spec, root, obs, code)"""
            h1_cases, metas = [], []
            for k, sp in enumerate(specs):
                rels = [p for p, _ in files_of(sp["tree"])]
                for j, rc in enumerate(sp["roots"]):
                    if rc[0] == "@link":
                        # the workspace is reached through a symlinked ancestor: the scan is given the
                        # path through the link, the walk yields paths below it
                        top = os.path.join(base, "%s_%d_%d" % (name, k, j))
                        real = os.path.join(top, "real", *rc[1:])
                        write_tree(real, sp["tree"])
                        os.symlink(os.path.join(top, "real"), os.path.join(top, "link"))
                        root = os.path.join(top, "link", *rc[1:])
                    else:
                        root = os.path.join(base, "%s_%d_%d" % (name, k, j), *rc)
                        write_tree(root, sp["tree"])
                    cid = len(h1_cases)
                    h1_cases.append({"id": cid, "ops": [
                        {"op": "glob_matches", "patterns": sp["patterns"], "paths": rels},
                        {"op": "scan", "path": root, "excludes": sp["patterns"]},
                        {"op": "dump"}, {"op": "file_cache_keys"}]})
                    metas.append((sp, root, rels))
            obs, rc_ = core.run_h1(h1, h1_cases, name, timeout=1800)
            terms, out = [], []
            for cid, (sp, root, rels) in enumerate(metas):
                o = obs.get(cid)
                if o is None or o.get("hang") or any(isinstance(x, dict) and "panic" in x for x in o["obs"]):
                    out.append((sp, root, o, 2 | 64))
                    continue
                matches, _, dump, keys = o["obs"]
                excluded = [p for p, m in zip(rels, matches) if m]
                pre = root.rstrip("/") + "/"
                rpre = os.path.realpath(root).rstrip("/") + "/"
                if not any(k.startswith(pre) for k in keys) and any(k.startswith(rpre) for k in keys):
                    pre = rpre              # keys are canonical paths
                analysed = sorted(k[len(pre):] for k in keys if k.startswith(pre))
                outside = [k for k in keys if not k.startswith(pre)]
                defs = []
                for name_, ds in dump["definitions"]:
                    for d in ds:
                        if d["path"].startswith(pre):
                            defs.append((d["path"][len(pre):], name_, d["third"]))
                term = "(mk_scase %s %s %s %s %s)" % (
                    L.cpath(root), ctree(sp["tree"]), L.clist([crel(p) for p in excluded]), L.clist([crel(p) for p in analysed]),
                    L.clist(["(%s, %s, %s)" % (crel(p), L.cstr(nm), L.cbool(t)) for p, nm, t in defs]))
                terms.append((cid, term))
                out.append([sp, root, {"analysed": analysed, "defs": defs, "excluded": excluded, "outside": outside}, None])
            codes = core.eval_in_coq(name, "Check.C13", "verdict_C13", terms)
            for cid, cs in codes.items():
                out[cid][3] = cs[0][1] if cs else 0
            return [tuple(x) for x in out]

        specs = [dict(c) for c in CORPUS]
        for i in range(n):
            tree = gen_tree(rnd)
            pats = rnd.sample(PATTERNS, rnd.choice([0, 0, 1, 2, 3]))
            roots = [ROOTS[0]] + rnd.sample(ROOTS[1:], 2)
            specs.append({"tree": tree, "patterns": pats, "roots": roots, "tag": "gen"})
        results = explore(specs, "C13")
        # protocol part: the REAL server started on the same trees (root as given, also through the symlink; the exclude
        # patterns in pyproject.toml) must index what the library scan of that root with those patterns indexed: every
        # "ok" file defines a fixture named after its relative path, so the workspace symbols name the indexed files
        import lsp
        binp = core.build_binary()
        nsrv = 0
        for (sp, root, o, code) in results:
            if nsrv >= (10 if quick else 60):
                break
            if not isinstance(o, dict) or "defs" not in o or any("[" in pt for pt in sp["patterns"]) or not os.path.isdir(root):
                continue
            nsrv += 1
            with open(os.path.join(root, "pyproject.toml"), "w") as f:
                f.write("[tool.pytest-language-server]\nexclude = [%s]\n" % ", ".join(json.dumps(pt) for pt in sp["patterns"]))
            srv = lsp.Server(binp, root=root, timeout=30)
            try:
                srv.wait_for_log("Workspace scan complete", timeout=30)
                got = sorted(set(x["name"] for x in (srv.workspace_symbol("") or [])))
            finally:
                try:
                    srv.shutdown()
                except Exception:
                    pass
                os.remove(os.path.join(root, "pyproject.toml"))
            want = sorted(set(nm for (_p, nm, third) in o["defs"] if not third))
            if got != want:
                r.violation({"property": PID, "part": "server", "why": "the real server started on this root with these exclude patterns in pyproject.toml "
                             "does not index the files the library scan of the same root indexes",
                             "tree": sp["tree"], "patterns": sp["patterns"], "root_components_below_tmp": root[len(base):],
                             "server_fixtures": got, "library_fixtures": want, "seed": r.seed}, "srv_%d" % nsrv)
                break
        tagc["server_roots"] += nsrv
        # "plus the modules those files pull in": a selected file imports a module of its own directory that is not a
        # pytest-named file (also modules named like standard-library modules, legal names for local modules); the
        # scan must index that module and its fixtures (the closure itself is C14's subject; here: one step)
        pulled_cases, pulled_meta, deep_mods = [], [], []
        for k in range(14 if quick else 60):
            proot = os.path.join(base, "pulled_%d" % k, "proj")
            mods = rnd.sample(["helpers_a", "types", "http", "logging", "shared_fx", "json", "kinds"], 3)
            sub = rnd.choice(["tests", "pkg", "src/app"])
            os.makedirs(os.path.join(proot, sub), exist_ok=True)
            imps = []
            for m in mods:
                open(os.path.join(proot, sub, m + ".py"), "w").write("import pytest\n\n@pytest.fixture\ndef from_%s():\n    return 1\n" % m)
                # the statement in the textual shapes a top-level import may take: plain, behind a `;`, a tab
                # (or nothing) behind `from`, several blanks
                imps.append(rnd.choice(["from .%s import *", "from .%s import from_%s", "import os; from .%s import *", "from\t.%s import *",
                                        "from.%s import from_%s", "from  .%s  import  *", "X = 1; from .%s import from_%s"]).replace("%s", m))
            # a module below a directory that is (or is not: a namespace package) a regular package, named by a
            # dotted path in an absolute import or a pytest_plugins entry
            ns = "nsdir_%d" % k
            os.makedirs(os.path.join(proot, sub, ns), exist_ok=True)
            if rnd.random() < 0.5:
                open(os.path.join(proot, sub, ns, "__init__.py"), "w").write("")
                tagc["pulled:regular-package"] += 1
            else:
                tagc["pulled:namespace-package"] += 1
            open(os.path.join(proot, sub, ns, "deep.py"), "w").write("import pytest\n\n@pytest.fixture\ndef from_deep():\n    return 1\n")
            imps[1] = imps[1] + "\n" + rnd.choice(["from %s.deep import *" % ns, "pytest_plugins = (\"%s.deep\",)" % ns, "pytest_plugins = \"%s.deep\"" % ns,
                                                  "from %s.deep import from_deep" % ns])
            deep_mods.append((k, os.path.join(sub, ns, "deep.py")))
            eol = rnd.choice(["\n", "\n", "\r\n"])
            bom = rnd.random() < 0.3      # saved with a UTF-8 byte-order mark, the import on the first line
            conf = ("\ufeff" + imps[0] + "\nimport pytest\n" + imps[1] + "\n") if bom else ("import pytest\n" + "\n".join(imps[:2]) + "\n")
            open(os.path.join(proot, sub, "conftest.py"), "w", newline="").write(conf.replace("\n", eol))
            tagc["pulled:bom" if bom else "pulled:no-bom"] += 1
            tagc["pulled:crlf" if eol != "\n" else "pulled:lf"] += 1
            open(os.path.join(proot, sub, "test_pull.py"), "w").write(imps[2] + "\n\ndef test_p(%s):\n    pass\n" % ", ".join("from_" + m for m in mods))
            pulled_cases.append({"id": k, "ops": [{"op": "scan", "path": proot}, {"op": "file_cache_keys"}, {"op": "dump"}]})
            pulled_meta.append((proot, sub, mods))
        pobs, _ = core.run_h1(h1, pulled_cases, "C13_pulled")
        for k, (proot, sub, mods) in enumerate(pulled_meta):
            keys = set(os.path.realpath(x) for x in pobs[k]["obs"][1])
            names = set(nm for nm, ds in pobs[k]["obs"][2]["definitions"])
            missing = [m for m in mods if os.path.realpath(os.path.join(proot, sub, m + ".py")) not in keys or ("from_" + m) not in names]
            for (kk, rel) in deep_mods:
                if kk == k and (os.path.realpath(os.path.join(proot, rel)) not in keys or "from_deep" not in names):
                    missing.append(rel)
            tagc["pulled_in_modules"] += len(mods)
            if missing:
                r.violation({"property": PID, "part": "pulled-in modules", "why": "a module that a selected file of the workspace imports from its own directory "
                             "was not indexed by the scan", "directory": sub, "imported_modules": mods, "not_indexed": missing,
                             "indexed_files": sorted(x[len(os.path.realpath(proot)) + 1:] for x in keys), "seed": r.seed}, "pulled_%d" % k)
                break
        prop_fail = [x for x in results if x[3] & 2]
        corr_fail = [x for x in results if (x[3] & 1) and not (x[3] & 2)]
        searched = 0
        if (corr_fail or not proof_ok) and not prop_fail:
            rnd2 = random.Random(r.seed * 7919 + 13)
            more = [{"tree": gen_tree(rnd2), "patterns": rnd2.sample(PATTERNS, rnd2.choice([0, 1, 2])),
                     "roots": [ROOTS[0]] + rnd2.sample(ROOTS[1:], 3), "tag": "search"} for _ in range(3 * n)]
            searched = len(more)
            results += explore(more, "C13_search")
            prop_fail = [x for x in results if x[3] & 2]
            corr_fail = [x for x in results if (x[3] & 1) and not (x[3] & 2)]

        def size(x):
            return len(list(files_of(x[0]["tree"]))) + len(x[0]["patterns"])
        for k, x in enumerate(sorted(prop_fail, key=size)[:3]):
            sp, root, o, code = x
            exp = [p for p, kind in files_of(sp["tree"])]
            r.violation({"property": PID, "why": "the spec rejects what the real scan indexed at this root (files or third-party flags)",
                         "tree": sp["tree"], "patterns": sp["patterns"], "root_components_below_tmp": root[len(base):],
                         "impl": o, "all_files": exp, "seed": r.seed}, "prop_%d" % k)
        if corr_fail and not prop_fail:
            sp, root, o, code = sorted(corr_fail, key=size)[0]
            r.violation({"property": PID, "broken": "corr:C13/selected (model Model.Scanner and implementation disagree; the spec accepts every outcome explored)",
                         "tree": sp["tree"], "patterns": sp["patterns"], "root_components_below_tmp": root[len(base):], "impl": o,
                         "searched_extra_cases": searched, "seed": r.seed}, "corr", no_input=True)
        if not proof_ok and not r.violations:
            r.violation({"property": PID, "broken": "thm:PLS.Properties.C13", "detail": {k: v for k, v in r.proof.items() if k != "cone"},
                         "searched_extra_cases": searched, "seed": r.seed}, "proof", no_input=True)
        model_bad = [x for x in results if x[3] & 8]
        if model_bad:
            r.notes.append("%d cases where the model's own outcome fails the spec" % len(model_bad))
        for sp, root, o, code in results:
            tagc["root:" + "/".join(root[len(base):].split("/")[2:])] += 1
            for p, kind in files_of(sp["tree"]):
                tagc["file:" + kind] += 1
            for pth in sp["patterns"]:
                tagc["pattern"] += 1
        nontriv = set()
        for sp, root, o, code in results:
            if isinstance(o, dict) and o.get("analysed") and (sp["patterns"] or any(nd[0] == "d" for nd in sp["tree"])):
                nontriv.add(json.dumps([sp["tree"], sp["patterns"], root[len(base):].split("/")[2:]]))
        r.coverage = {
            "obligations": r.proof.get("statements", 0), "discharged": r.proof.get("qed", 0) if proof_ok else 0,
            "checker_cmd": "make -C coq theories/Properties/C13.vo (coqc 8.16.1, full .vo build) + Print Assumptions + hygiene grep",
            "trusted_base": runner.trusted_base() + ["walkdir, the OS file system and glob::Pattern::matches (oracle: the same crate answers for the model)"],
            "evaluations": len(results), "distinct_nontrivial": len(nontriv),
            "rule": "generator T: trees of depth <= 3 with pytest-named / near-miss file names, ordinary / ignored / near-miss directory names, "
                    "valid / syntactically invalid / non-UTF-8 contents, 0-3 exclude patterns; each tree written at 3 of 10 absolute roots "
                    "(plain, under build/, env/x/, dist/a.egg-info/, work/.cache/, my-site-packages-mirror/, site-packages/, root itself named "
                    "venv / target / pkg.egg-info); one evaluation = one real scan_workspace_with_excludes of one tree at one root; non-trivial = "
                    "something is indexed and the tree has a directory or a pattern; distinct = (tree, patterns, root)",
            "samples": [{"tree": x[0]["tree"], "patterns": x[0]["patterns"], "root": x[1][len(base):], "impl": x[2]} for x in results[:2]],
            "cases": len(specs), "corpus_cases": len(CORPUS), "extra_search_cases": searched,
            "input_distribution": dict(tagc), "correspondence_failures": len(corr_fail),
            "proof": {k: v for k, v in r.proof.items() if k != "cone"},
        }
        r.assumptions = ["real temporary trees under the system temp directory (removed after the run)", "ASCII names",
                         "permission faults cannot be produced as root; unreadable = non-UTF-8 content (read_to_string fails)"]
        return r.finish()
    finally:
        shutil.rmtree(base, ignore_errors=True)


def replay(r, path):
    rp = json.load(open(path))
    print(json.dumps({k: rp[k] for k in rp if k in ("tree", "patterns", "root_components_below_tmp", "impl", "broken")})[:1500])
    return 1
