"""Shared by the index/resolution properties: run generated workspace cases through
H1 and through the Coq verdict of the property."""
import json, os, random

import core, runner
import extract, wsgen


def usage_positions(text, stdlib):
    f = extract.extract(text, stdlib)
    out = []
    if not f["ok"]:
        return out
    for it in f["items"]:
        if it["k"] == "use":
            out.append((it["line"], it["start"], it["end"], it["name"]))
    return out


def def_positions(text, stdlib):
    f = extract.extract(text, stdlib)
    return [(it["name"], it["line"], it["start"], it["end"]) for it in f["items"] if it["k"] == "def"] if f["ok"] else []


def evaluate(run, name, module, verdict, cases, stdlib, h1, to_coq=None):
    """cases: list of {"id": int, "steps": [...], ...}.  Returns per-case dict with
    obs, codes, and the step index map."""
    h1_cases = [{"id": c["id"], "ops": [core.h1_op(s) for s in c["steps"]]} for c in cases]
    obs, rc = core.run_h1(h1, h1_cases, name)
    terms, meta = [], {}
    for c in cases:
        r = obs.get(c["id"])
        if r is None or r.get("hang"):
            meta[c["id"]] = {"hang": True}
            continue
        term, idx, panics = (to_coq or core.coq_wcase)(c, r["obs"], stdlib)
        meta[c["id"]] = {"idx": idx, "panics": panics, "obs": r["obs"]}
        terms.append((c["id"], term))
    codes = core.eval_in_coq(name, module, verdict, terms)
    for cid, cs in codes.items():
        idx = meta[cid]["idx"]
        meta[cid]["codes"] = [(idx[s], c) for s, c in cs]
    return meta
