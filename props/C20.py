"""C20 — CLI reports agree with the language server and are reproducible.

Part A (library, virtual workspaces): generator W; after the analyses the real database
answers get_unused_fixtures(), the per-(file, name) counts `fixtures list` prints (through
the cfg-guarded wrapper) and find_references_for_definition of EVERY definition; the
spec (CLI = server, Spec/CliSpec.v) is evaluated on those answers and the Coq model
(Model/Cli.v) is compared with them.
Part B (the real binary): the project files of generated workspaces are written to a
temporary tree; `fixtures unused` (text, json) and `fixtures list` (three flag settings)
run under RAYON_NUM_THREADS 1/2/16, twice; outputs must be byte-identical per command,
exit status 1 iff the list is non-empty, JSON valid and equal to the text entries, the
filters must partition the listed fixtures, and every number must equal what a library
database that scanned the same tree reports as references."""
import collections, glob, json, os, random, re, shutil, subprocess, sys, tempfile

import core, runner
import coqlit as L
import wsgen, ws_prop

PID = "C20"
MODULE = "Check.C20"
VERDICT = "verdict_C20"
CLASS_BITS = {16: "K_order"}
NCASES = (100, 1200)
RULE = ("generator W (virtual workspaces, depth 0-3, conftest kinds, override chains incl. multi-line signatures, plugin and "
        "site-packages providers) with autouse fixtures sprinkled in; one evaluation = one definition's (CLI count, server "
        "reference list) comparison or one CLI process run; non-trivial = the workspace has an unused or an autouse fixture or "
        "an override chain; distinct = distinct multiset of feature tags")
ASSUMPTIONS = ["part A: virtual workspaces, sequential analysis order", "part B: project files, in a third of the trees below an editable install's source root (venv with .pth + direct_url.json); ASCII",
               "text / JSON rendering (serde_json, colored) trusted; the driver parses the rendered output"]


def sprinkle_autouse(rnd, ws):
    tags = []
    for p in list(ws["files"]):
        t = ws["files"][p]
        if "@pytest.fixture\n" in t and rnd.random() < 0.3:
            t = t.replace("@pytest.fixture\n", "@pytest.fixture(autouse=True)\n", 1)
            tags.append("autouse")
        ws["files"][p] = t
    return tags


def make_ws(cid, rnd):
    ws = ws_prop.gen_ws(cid, rnd)
    ws["tags"] = list(ws["tags"]) + sprinkle_autouse(rnd, ws)
    # an extra fixture nobody uses
    if rnd.random() < 0.5:
        confs = [p for p in ws["files"] if p.endswith("conftest.py")]
        if confs:
            p = rnd.choice(confs)
            ws["files"][p] += "\n@pytest.fixture\ndef lonely_%d():\n    return 0\n" % cid
            if "import pytest" not in ws["files"][p]:
                ws["files"][p] = "import pytest\n" + ws["files"][p]
            ws["tags"].append("unused_extra")
    # a request that sits on the same LINE NUMBER as the definition it resolves to, in another file
    root = "/" + ws["order"][0].split("/")[1]
    ws["files"][root + "/sl/conftest.py"] = "import pytest\n\n@pytest.fixture\ndef sl_fx():\n    return 1\n"
    ws["files"][root + "/sl/test_sl.py"] = "import pytest\n\n\ndef test_sl(sl_fx):\n    pass\n\ndef test_sl2(sl_fx):\n    pass\n"
    ws["order"] += [root + "/sl/conftest.py", root + "/sl/test_sl.py"]
    ws["tags"].append("usage-on-definition-line-number")
    return ws


def make_case(cid, rnd, stdlib):
    ws = make_ws(cid, rnd)
    steps = wsgen.build_steps(ws)
    steps.append({"q": "cli"})
    return {"id": cid, "steps": steps, "tags": ws["tags"], "queries": 1, "ws": ws}


def ckey(p, n):
    return "(%s, %s)" % (L.cpath(p), L.cstr(n))


def to_coq(case, obs_list, stdlib):
    ids = core.text_ids(case)
    steps, idx, panics = [], [], []
    for i, (st, ob) in enumerate(zip(case["steps"], obs_list)):
        if isinstance(ob, dict) and "panic" in ob:
            panics.append((i, ob["panic"]))
            continue
        if "op" in st:
            steps.append("Op20 (" + core.coq_step(st, ob, ids, stdlib)[3:] + ")")
        else:
            steps.append("Cli20 %s %s %s" % (
                L.clist([ckey(p, n) for p, n in ob["unused"]]),
                L.clist(["(%s, %s)" % (ckey(p, n), L.cN(c)) for p, n, c in ob["counts"]]),
                L.clist(["(%s, %s)" % (L.cfdef(x["def"]), L.clist([L.cusage(u) for u in x["refs"]])) for x in ob["refs"]])))
        idx.append(i)
    return L.clist(steps), idx, panics


def nontrivial(c):
    if any(t in ("autouse", "unused_extra", "multiline") or t.startswith(("chain", "link:", "corpus:")) for t in c["tags"]):
        return tuple(sorted(c["tags"]))
    return None


def corpus(stdlib):
    out = []
    for p in sorted(glob.glob(os.path.join(core.VERIF, "gen", "corpus", PID, "*.json"))):
        ws = json.load(open(p))
        ws.setdefault("plugins", [])
        ws.setdefault("order", list(ws["files"]))
        steps = wsgen.build_steps(ws)
        steps.append({"q": "cli"})
        out.append({"id": 0, "steps": steps, "tags": ["corpus:" + os.path.basename(p)], "queries": 1, "ws": ws})
    return out


# ------------------------------------------------------------------ part B: the binary
ANSI = re.compile(r"\x1b\[[0-9;]*m")


def parse_unused_text(out):
    out = ANSI.sub("", out)
    ents = []
    for line in out.splitlines():
        m = re.match(r"^\s+\S+\s+(\S+) in (.+)$", line)
        if m:
            ents.append((m.group(2), m.group(1)))
    m = re.search(r"Found (\d+) unused fixture", out)
    return ents, (int(m.group(1)) if m else (0 if "No unused fixtures found." in out else None))


def parse_list(out):
    """-> {(relpath, fixture): count or 'unused' / 'autouse'}; the tree is rendered with
    box-drawing connectors; directories end with '/', files carry '(N fixtures)'"""
    out = ANSI.sub("", out)
    stack, ents = [], {}
    for line in out.splitlines()[2:]:
        if not line.strip():
            continue
        m = re.match(r"^((?:│   |    )*)(├── |└── )?(.*)$", line)
        depth = len(m.group(1)) // 4 + (1 if m.group(2) else 0)
        body = m.group(3)
        fm = re.match(r"^(\S+) \((\d+) fixtures\)$", body)
        xm = re.match(r"^(\S+) \((unused|autouse=True|used (\d+) times?(, autouse=True)?)\)$", body)
        if body.endswith("/") or body.endswith("/ (editable install)"):
            stack = stack[:depth] + [body.split("/")[0]]
        elif fm:
            stack = stack[:depth] + [fm.group(1)]
        elif xm:
            rel = "/".join(stack[:depth])
            ents[(rel, xm.group(1))] = (int(xm.group(3)) if xm.group(3) else 0, "autouse" in xm.group(2))
    return ents


def run_cli(binp, args, threads):
    env = dict(os.environ, RAYON_NUM_THREADS=str(threads), NO_COLOR="1")
    p = subprocess.run([binp] + args, env=env, stdout=subprocess.PIPE, stderr=subprocess.PIPE, timeout=120)
    return p.returncode, p.stdout


def explore_binary(r, h1, rnd, n, stdlib):
    binp = core.build_binary()
    nsrv = 6 if r.tier == "quick" else 40
    base = tempfile.mkdtemp(prefix="verif_c20_")
    bad, nruns, kinds = [], 0, collections.Counter()
    try:
        for i in range(n):
            ws = make_ws(1000 + i, rnd)
            root = os.path.join(base, "w%d" % i)
            mono = None
            if i % 3 == 1:
                # a monorepo whose ROOT is installed editable into the venv of the scanned service
                # directory (`pip install -e ../..`): the workspace lies strictly inside the editable
                # install's source root, and its files stay project files
                mono = os.path.join(root, "mono")
                root = os.path.join(mono, "services", "api")
            wroot = "/" + ws["order"][0].split("/")[1]
            project = {}
            for p in ws["order"]:
                if "site-packages" in p or p in ws["plugins"]:
                    continue
                project[p] = ws["files"][p]
                q = os.path.join(root, os.path.relpath(p, wroot))
                os.makedirs(os.path.dirname(q), exist_ok=True)
                open(q, "w").write(ws["files"][p])
            if not project:
                continue
            if mono:
                spk = os.path.join(root, ".venv", "lib", "python3.12", "site-packages")
                os.makedirs(os.path.join(spk, "mono-0.1.0.dist-info"), exist_ok=True)
                open(os.path.join(spk, "mono-0.1.0.dist-info", "direct_url.json"), "w").write(
                    json.dumps({"url": "file://" + mono, "dir_info": {"editable": True}}))
                open(os.path.join(spk, "__editable__.mono-0.1.0.pth"), "w").write(mono + "\n")
                open(os.path.join(mono, "pyproject.toml"), "w").write("[project]\nname = \"mono\"\nversion = \"0.1.0\"\n")
                kinds["workspace_inside_editable_root"] += 1
            obs, _ = core.run_h1(h1, [{"id": 0, "ops": [{"op": "scan", "path": root}, {"op": "cli"}]}], "C20_scan")
            lib = obs[0]["obs"][1]
            pre = root + "/"
            rel = lambda p: p[len(pre):] if p.startswith(pre) else p
            keyrefs = collections.Counter()
            keyinfo = {}
            for x in lib["refs"]:
                k = (rel(x["def"]["path"]), x["def"]["name"])
                keyrefs[k] += len(x["refs"])
                keyinfo.setdefault(k, []).append(x["def"])
            outs = {}
            fails = []

            def fail(why, **kw):
                fails.append(dict({"why": why, "files": project, "lib": lib}, **kw))

            for x in lib["refs"]:
                d = x["def"]
                if d["third"] and d["path"].startswith(pre) and "/.venv/" not in d["path"] and "site-packages" not in d["path"]:
                    fail("a fixture defined in a project file of the scanned workspace is classified third-party (it then drops out of `fixtures unused` and the project symbols)",
                         definition=d)
                    break
            for cmd in (["fixtures", "unused", root, "--format", "json"], ["fixtures", "unused", root],
                        ["fixtures", "list", root], ["fixtures", "list", root, "--skip-unused"],
                        ["fixtures", "list", root, "--only-unused"]):
                runs = [run_cli(binp, cmd, th) for th in (1, 2, 16, 16)]
                nruns += len(runs)
                if len(set(runs)) != 1:
                    fail("output differs between runs / worker counts", cmd=cmd[:2] + cmd[3:],
                         outputs=[o.decode(errors="replace")[:600] for _, o in set(runs)])
                outs[tuple(cmd[1:2] + cmd[3:])] = runs[0]

            rcj, oj = outs[("unused", "--format", "json")]
            rct, ot = outs[("unused",)]
            jents = None
            try:
                js = json.loads(oj.decode())
                jents = [(e["file"], e["fixture"]) for e in js]
            except Exception as e:
                fail("JSON output invalid: %s" % e, output=oj.decode(errors="replace")[:500])
            if jents is not None:
                tents, tcount = parse_unused_text(ot.decode())
                if not any(f["why"].startswith("output differs") for f in fails):
                    if jents != tents or tcount != len(tents):
                        fail("text and JSON list different entries", json=jents, text=tents)
                if (rcj == 1) != bool(jents) or (rct == 1) != bool(tents) or rcj not in (0, 1):
                    fail("exit status does not match the list", status=[rcj, rct], entries=jents)
                if jents != sorted(jents, key=lambda e: (e[0].split("/"), e[1])):
                    fail("entries not sorted", entries=jents)
                must = sorted(k for k, ds in keyinfo.items() if keyrefs[k] == 0 and all(not d["third"] and not d["autouse"] for d in ds))
                may = set(k for k, ds in keyinfo.items() if keyrefs[k] == 0 and any(not d["third"] and not d["autouse"] for d in ds))
                if not set(must) <= set(jents) or not set(jents) <= may:
                    fail("`fixtures unused` disagrees with the server's references", cli=jents, server_unused=must)
                la = parse_list(outs[("list",)][1].decode())
                ls = parse_list(outs[("list", "--skip-unused")][1].decode())
                lo = parse_list(outs[("list", "--only-unused")][1].decode())
                if set(la) != set(keyinfo):
                    fail("`fixtures list` does not list exactly the indexed fixtures", listed=sorted(la), indexed=sorted(keyinfo))
                for k, (cnt, au) in la.items():
                    if k in keyrefs and cnt != keyrefs[k]:
                        fail("count printed by `fixtures list` differs from the server's number of references", key=k, printed=cnt, server=keyrefs[k])
                        break
                if set(ls) | set(lo) != set(la) or set(ls) & set(lo):
                    fail("--skip-unused / --only-unused do not partition the list", skip=sorted(ls), only=sorted(lo), all=sorted(la))
                kinds["unused_entries"] += len(jents)
                # the counts of `fixtures list` against the references the REAL SERVER reports on each definition's name
                if kinds["server_trees"] < nsrv:
                    import lsp
                    kinds["server_trees"] += 1
                    srv = lsp.Server(binp, root=root, timeout=30)
                    try:
                        srv.wait_for_log("Workspace scan complete", timeout=30)
                        srv_count = collections.Counter()
                        for x in lib["refs"]:
                            d = x["def"]
                            if d["third"]:
                                continue
                            locs = srv.references(d["path"], d["line"] - 1, d["start"], include_declaration=False) or []
                            n_ = len([l for l in locs if not (lsp.uri_to_path(l["uri"]) == d["path"] and l["range"]["start"]["line"] == d["line"] - 1
                                                              and l["range"]["start"]["character"] == d["start"])])
                            srv_count[(rel(d["path"]), d["name"])] += n_
                            kinds["server_reference_requests"] += 1
                        for k, (cnt, au) in la.items():
                            if k in srv_count and cnt != srv_count[k]:
                                fail("count printed by `fixtures list` differs from the number of references the running server reports", key=k, printed=cnt, server=srv_count[k])
                                break
                    finally:
                        try:
                            srv.shutdown()
                        except Exception:
                            pass
            kinds["trees"] += 1
            if fails:
                # is the tree in an order-sensitive class?  decided by the Coq predicate on the
                # model state of the same files
                case = {"steps": [{"op": "analyze", "path": p, "text": t} for p, t in project.items()]}
                ids = core.text_ids(case)
                term = L.clist(["Op20 (" + core.coq_step(st, None, ids, stdlib)[3:] + ")" for st in case["steps"]])
                import extract
                disk = L.clist(["(%s, %s)" % (L.cpath(p), L.ccached(extract.extract(t, stdlib), ids.get(t, 0)))
                                for p, t in sorted(project.items())])
                codes = core.eval_in_coq("C20_class", MODULE, "class_C20_on_disk", [(0, "(%s, %s)" % (disk, term))])
                in_class = bool(codes[0] and codes[0][0][1] & 16)
                for f in fails:
                    f["order_sensitive_class"] = in_class
                    bad.append(f)
    finally:
        shutil.rmtree(base, ignore_errors=True)
    return nruns, bad, kinds


def run(r):
    quick = r.tier == "quick"
    h1, _ = core.build_harness()
    core.coq_make(["theories/Check/C20.vo"])
    stdlib = set(core.tables()["stdlib_modules"])
    rnd = random.Random(r.seed + 77)
    nruns, bad, kinds = explore_binary(r, h1, rnd, 20 if quick else 200, stdlib)
    known_hits = [b for b in bad if b.get("order_sensitive_class")]
    for k, b in enumerate([b for b in bad if not b.get("order_sensitive_class")][:3]):
        r.violation(dict({"property": PID, "part": "binary"}, **b), "cli_%d" % k)
    r.notes.append("part B: %d CLI process runs on %d trees, %d unused entries seen, %d discrepancies inside the listed order-sensitive class"
                   % (nruns, kinds["trees"], kinds["unused_entries"], len(known_hits))
                   + "; %d trees lie strictly inside an editable install's source root (monorepo root installed into the service's venv); %d server trees, %d server reference requests"
                   % (kinds["workspace_inside_editable_root"], kinds["server_trees"], kinds["server_reference_requests"]))
    return runner.drive_ws(r, sys.modules[__name__])


def replay(r, path):
    rp = json.load(open(path))
    print(json.dumps({k: rp[k] for k in rp if k not in ("lib",)})[:2000])
    return 1
