"""Builder for workspace-case property modules (C04, C05, ...): same generator W,
different queries and verdict."""
import glob, json, os

import core
import wsgen
from common_ws import usage_positions, def_positions


def corpus_cases(pid, add_queries, stdlib, extra_pids=()):
    out = []
    for q in (pid,) + tuple(extra_pids):
        for p in sorted(glob.glob(os.path.join(core.VERIF, "gen", "corpus", q, "*.json"))):
            ws = json.load(open(p))
            if "files" not in ws:
                continue
            ws.setdefault("plugins", [])
            ws.setdefault("order", list(ws["files"]))
            ws.setdefault("names", [])
            steps = wsgen.build_steps(ws)
            nq = add_queries(ws, steps, stdlib)
            out.append({"id": 0, "steps": steps, "tags": ["corpus:%s/%s" % (q, os.path.basename(p))], "queries": nq})
    return out


def gen_ws(cid, rnd):
    r = rnd.random()
    if r < 0.7:
        return wsgen.gen_workspace(rnd, root="/vw%d" % (cid % 7))
    return wsgen.gen_chain_workspace(rnd, root="/vc%d" % (cid % 5))


def nontrivial_default(c):
    if any(t.startswith(("conftest:", "link:", "corpus:")) and t not in ("conftest:absent", "conftest:none") for t in c["tags"]):
        return tuple(sorted(c["tags"]))
    return None
