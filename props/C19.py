"""C19 — published diagnostics track the latest content and the configuration.

(A) configuration: generated pyproject.toml contents (valid, unknown codes, invalid globs,
wrong types, malformed) through the real Config::parse (cfg-guarded wrapper) vs the model's
from_raw with the glob crate's validity as an oracle.
(B) end to end: the real binary over stdio, initialised with a root that holds a generated
pyproject.toml; histories of didOpen / didChange over a document and its conftests
(generator H); the publishDiagnostics received after every notification is compared with
the model's publish and judged by the spec: it must equal the findings a FRESH library
database reports for the latest valid contents, minus the disabled codes."""
import collections, json, os, random, re, shutil, sys, tempfile

import core, runner
import coqlit as L
import histgen, C06

PID = "C19"
MODULE = "Check.C19"
CLASS_BITS = {16: "K_invalid_hides_imports"}
VALID_CODES = ["undeclared-fixture", "scope-mismatch", "circular-dependency"]
CODE_POOL = VALID_CODES + ["bogus", "Undeclared-Fixture", "", "scope_mismatch", "circular-dependency "]
GLOB_POOL = ["build/**", "**/sub/*", "tests/test_*.py", "*.py", "[", "a[", "**/x", "***", "a/**b", "pkg/[a-", "{a,b}", "ok/?.py", "[!a]x"]
SCOPES = ["function", "class", "module", "package", "session"]


def diag_of_lsp(d):
    msg = d["message"]
    code = d.get("code")
    rng = d["range"]
    m = re.match(r"^Fixture '(.*)' is used but not declared as a parameter$", msg)
    if m:
        words = [m.group(1)]
    elif msg.startswith("Circular fixture dependency detected: "):
        words = msg[len("Circular fixture dependency detected: "):].split(" → ")
    else:
        m = re.match(r"^(\w+)-scoped fixture '(.*)' depends on (\w+)-scoped fixture '(.*)'$", msg)
        words = list(m.groups()) if m else ["?" + msg]
    return (code, rng["start"]["line"], rng["start"]["character"], rng["end"]["character"], words,
            rng["start"]["line"] == rng["end"]["line"] and d.get("source") == "pytest-lsp")


def cdiag(t):
    code = {"undeclared-fixture": "DUndeclared", "circular-dependency": "DCycle", "scope-mismatch": "DMismatch"}[t[0]]
    return "(mk_diag %s %d %d %d %s)" % (code, t[1], t[2], t[3], L.clist([L.cstr(w) for w in t[4]]))


def lib_findings(und, cyc, mm):
    out = []
    for u in und:
        out.append(("undeclared-fixture", u["line"] - 1, u["start"], u["end"], [u["name"]]))
    for c in cyc:
        f = c["fixture"]
        out.append(("circular-dependency", f["line"] - 1, f["start"], f["end"], list(c["path"])))
    for m in mm:
        f, d = m["fixture"], m["dependency"]
        out.append(("scope-mismatch", f["line"] - 1, f["start"], f["end"], [f["scope"], f["name"], d["scope"], d["name"]]))
    return out


def toml_str(s):
    return json.dumps(s)


def gen_pyproject(rnd):
    """-> (text, raw_exclude, raw_disabled, toml_ok)"""
    ex = [rnd.choice(GLOB_POOL) for _ in range(rnd.choice([0, 0, 1, 2, 3]))]
    dis = [rnd.choice(CODE_POOL) for _ in range(rnd.choice([0, 1, 2, 2, 3, 4]))]
    kind = rnd.choice(["ok"] * 6 + ["malformed", "wrong_type", "no_section", "other_tool"])
    head = rnd.choice(["", "[project]\nname = \"x\"\n\n", "[tool.black]\nline-length = 88\n\n"])
    body = "[tool.pytest-language-server]\n"
    if ex or rnd.random() < 0.5:
        body += "exclude = [%s]\n" % ", ".join(toml_str(x) for x in ex)
    else:
        ex = []
    body += "disabled_diagnostics = [%s]\n" % ", ".join(toml_str(x) for x in dis)
    if kind == "ok":
        return head + body, ex, dis, True
    if kind == "malformed":
        return head + body + "oops = [1, \n", ex, dis, False
    if kind == "wrong_type":
        return head + "[tool.pytest-language-server]\nexclude = \"build\"\ndisabled_diagnostics = [%s]\n" % ", ".join(toml_str(x) for x in dis), ex, dis, False
    if kind == "no_section":
        return head + "[tool.other]\nx = 1\n", [], [], True
    return head + body + "\n[tool.ruff]\nselect = [\"E\"]\n", ex, dis, True


def explore_config(r, h1, rnd, n):
    cases = [gen_pyproject(rnd) for _ in range(n)]
    ops = []
    for text, ex, dis, ok in cases:
        ops.append({"op": "config_parse", "text": text})
        ops.append({"op": "glob_valid", "patterns": ex})
    obs, _ = core.run_h1(h1, [{"id": 0, "ops": ops}], "C19_cfg")
    o = obs[0]["obs"]
    terms, bad = [], []
    for k, (text, ex, dis, ok) in enumerate(cases):
        parsed, valid = o[2 * k], o[2 * k + 1]
        if isinstance(parsed, dict) and "panic" in parsed:
            bad.append({"why": "Config::parse panics", "pyproject": text, "panic": parsed["panic"]})
            continue
        terms.append((k, "(mk_ccase %s %s %s %s %s %s)" % (
            L.clist([L.cstr(x) for x in ex]), L.clist([L.cbool(b) for b in valid]), L.clist([L.cstr(x) for x in dis]),
            L.cbool(ok), L.clist([L.cstr(x) for x in parsed["exclude"]]), L.clist([L.cstr(x) for x in parsed["disabled"]]))))
    codes = core.eval_in_coq("C19_cfg", MODULE, "verdict_cfg", terms)
    corr = []
    for k, cs in codes.items():
        if cs:
            text, ex, dis, ok = cases[k]
            parsed = o[2 * k]
            # spec on the implementation's answer: every valid code listed must be disabled,
            # nothing else; every valid pattern kept (when the file parses)
            want = [c for c in dis if c in VALID_CODES] if ok else []
            if parsed["disabled"] != want:
                bad.append({"why": "Config::parse: disabled codes are not exactly the valid listed ones", "pyproject": text,
                            "impl": parsed, "expected_disabled": want})
            else:
                corr.append({"pyproject": text, "impl": parsed})
    return len(cases), bad, corr


MISMATCH1 = ("@pytest.fixture\ndef narrow_fx():\n    return 1\n\n@pytest.fixture(scope=\"session\")\n"
             "def wide_fx(narrow_fx):\n    return narrow_fx\n\n")
# one fixture with TWO narrower dependencies: two warnings anchored on the same name
MISMATCH2 = ("@pytest.fixture\ndef narrow_fx():\n    return 1\n\n@pytest.fixture\ndef narrow_fy():\n    return 1\n\n"
             "@pytest.fixture(scope=\"session\")\ndef wide_fx(narrow_fx, narrow_fy):\n    return narrow_fx\n\n")
CYCLE1 = "@pytest.fixture\ndef cyc_a(cyc_b):\n    return 1\n\n@pytest.fixture\ndef cyc_b(cyc_a):\n    return 1\n\n"
# one fixture that anchors TWO cycles
CYCLE2 = ("@pytest.fixture\ndef cyc_a(cyc_b, cyc_c):\n    return 1\n\n@pytest.fixture\ndef cyc_b(cyc_a):\n    return 1\n\n"
          "@pytest.fixture\ndef cyc_c(cyc_a):\n    return 1\n\n")
MISMATCH, CYCLE = MISMATCH1, CYCLE1
UNDECL = "def test_undecl():\n    x = narrow_fx\n    return x\n\n"
DECL = "def test_undecl(narrow_fx):\n    x = narrow_fx\n    return x\n\n"


def diag_versions(rnd, root):
    """versions of one more test module (and a conftest edit) that create and then remove the
    cause of each kind of diagnostic"""
    p = root + "/pkg/test_diag.py"
    conf = root + "/pkg/conftest.py"
    blocks = {"m": rnd.choice([MISMATCH1, MISMATCH2]), "c": rnd.choice([CYCLE1, CYCLE2]), "u": UNDECL}
    order = ["m", "c", "u"]
    rnd.shuffle(order)
    present = list(order)
    out = [(p, "import pytest\n\n" + "".join(blocks[k] for k in present))]
    while present:
        k = present.pop(rnd.randrange(len(present)))
        body = "".join(blocks[x] for x in order if x in present)
        if k == "u" and rnd.random() < 0.5:
            body += DECL
        if k == "m" and rnd.random() < 0.5:
            # the narrow fixture moves to the conftest: the warning for the test stays meaningful
            out.append((conf, "import pytest\n\n@pytest.fixture\ndef narrow_fx():\n    return 2\n"))
        out.append((p, "import pytest\n\n" + body))
        if rnd.random() < 0.3:
            out.append((p, "import pytest\n\n" + body))     # identical text re-sent
    if rnd.random() < 0.4:
        # a conftest whose OWN fixtures depend on fixtures it only imports: the scope mismatch and the
        # cycle run through the imported definitions
        dg = root + "/dg"
        imp = rnd.choice(["from .dg_mod import *\n", "from .dg_mod import narrow_imp, loop_b\n"])
        out.append((dg + "/dg_mod.py", "import pytest\n\n@pytest.fixture\ndef narrow_imp():\n    return 1\n\n@pytest.fixture\ndef loop_b(loop_a):\n    return loop_a\n"))
        out.append((dg + "/conftest.py", "import pytest\n" + imp + "\n@pytest.fixture(scope=\"session\")\ndef wide_c(narrow_imp):\n    return narrow_imp\n\n"
                    "@pytest.fixture\ndef loop_a(loop_b):\n    return loop_b\n"))
        out.append((dg + "/conftest.py", "import pytest\n" + imp + "\n@pytest.fixture\ndef wide_c(narrow_imp):\n    return narrow_imp\n"))
    return out


FX = "import pytest\n\n@pytest.fixture\ndef %s():\n    return 1\n"


def disk_case(rnd, root):
    """a workspace that EXISTS ON DISK before the server starts (the scan indexes it, venv plugin
    included), then documents opened with exactly their on-disk text, edited and edited back;
    a conftest edit in between changes what the unchanged test module must be told"""
    sp = root + "/.venv/lib/python3.11/site-packages"
    plug = sp + "/pytest_fake/plugin.py"
    conf = root + "/conftest.py"
    tp = root + "/pkg/test_plug.py"
    body = "import pytest\n\ndef test_p():\n    fake_mocker.patch()\n    y = conf_fx\n    return y\n"
    declared = "import pytest\n\ndef test_p(fake_mocker, conf_fx):\n    fake_mocker.patch()\n    y = conf_fx\n    return y\n"
    disk = {sp + "/pytest_fake/__init__.py": "", plug: FX % "fake_mocker",
            sp + "/pytest_fake-1.0.dist-info/entry_points.txt": "[pytest11]\nfake = pytest_fake.plugin\n",
            conf: FX % "conf_fx", tp: body}
    versions = [(tp, body)]
    if rnd.random() < 0.6:
        versions += [(tp, declared), (tp, body)]
    versions += [(conf, FX % "conf_fx")] if rnd.random() < 0.5 else []
    versions += [(conf, FX % "other_fx"), (tp, body)]
    if rnd.random() < 0.5:
        versions += [(conf, FX % "conf_fx"), (tp, body)]
    return disk, versions, {plug: FX % "fake_mocker", conf: FX % "conf_fx", tp: body}


def explore_server(r, h1, rnd, n, stdlib):
    import lsp
    binp = core.build_binary()
    results = []      # (case, codes)
    terms, metas, bad = [], [], []
    base = tempfile.mkdtemp(prefix="verif_c19_")
    try:
        import glob as _glob
        corpus = [json.load(open(q)) for q in sorted(_glob.glob(os.path.join(core.VERIF, "gen", "corpus", PID, "*.json")))]
        for i in range(len(corpus) + n):
            root = os.path.join(base, "w%d" % i)
            os.makedirs(root)
            if i < len(corpus):
                c = corpus[i]
                text, ex, dis, ok = c["pyproject"], [], [], True
                h = {"versions": [(os.path.join(root, q), t) for q, t in c["versions"]], "tags": c["tags"]}
            elif (i - len(corpus)) % 5 == 2:
                text, ex, dis, ok = "", [], [], True
                disk, versions, indexed = disk_case(rnd, root)
                for q, tt in disk.items():
                    os.makedirs(os.path.dirname(q), exist_ok=True)
                    open(q, "w").write(tt)
                h = {"versions": versions, "tags": ["on-disk-before-start"], "indexed": indexed}
            else:
                text, ex, dis, ok = gen_pyproject(rnd)
                h = histgen.gen_history(rnd, root=root)
                extra = diag_versions(rnd, root)
                cut = rnd.randint(5, len(h["versions"]))
                h["versions"] = h["versions"][:cut] + extra + h["versions"][cut:]
            open(os.path.join(root, "pyproject.toml"), "w").write(text)
            raw = dis if ok else []
            srv = lsp.Server(binp, root=root, timeout=30)
            steps, h1_ops = [], []
            try:
                srv.wait_for_log("Workspace scan complete", timeout=30)
                seen, latest, last_valid = set(), {}, dict(h.get("indexed", {}))
                ver = 1
                case_steps = []
                for (p, t) in h["versions"]:
                    ver += 1
                    reopened = False
                    if p in seen and i >= len(corpus) and rnd.random() < 0.2:
                        # the document is closed and opened again with this version (its text may have
                        # changed while it was closed)
                        srv.close(p)
                        seen.discard(p)
                        reopened = True
                        h["tags"].append("close-reopen")
                    ds = srv.open(p, t) if p not in seen else srv.change(p, t, ver)
                    seen.add(p)
                    latest.pop(p, None)
                    latest[p] = t
                    if C06.is_valid(t):
                        last_valid.pop(p, None)
                        last_valid[p] = t
                    pub = [diag_of_lsp(d) for d in ds]
                    if any(not x[5] for x in pub) or any(x[0] not in VALID_CODES for x in pub):
                        bad.append({"why": "malformed diagnostic (range spans lines / wrong source / unknown code)", "diagnostics": ds,
                                    "pyproject": text, "history": h["versions"]})
                    case_steps.append({"op": "analyze", "path": p, "text": t, "published": pub, "closed_before": reopened, "fresh_ops":
                                       [{"op": "analyze", "path": q, "text": tt} for q, tt in last_valid.items()]})
            finally:
                try:
                    srv.shutdown()
                except Exception:
                    pass
            metas.append({"id": i, "raw": raw, "pyproject": text, "steps": case_steps, "tags": h["tags"], "indexed": h.get("indexed", {})})
        # fresh library findings for every notification
        h1_cases = []
        for m in metas:
            for k, st in enumerate(m["steps"]):
                h1_cases.append({"id": m["id"] * 1000 + k, "ops": st["fresh_ops"] + [
                    {"op": "undeclared", "path": st["path"]}, {"op": "cycles_in_file", "path": st["path"]},
                    {"op": "mismatches", "path": st["path"]}]})
        obs, _ = core.run_h1(h1, h1_cases, "C19_fresh", timeout=1800)
        for m in metas:
            pre = [{"op": "analyze", "path": q, "text": tt} for q, tt in m.get("indexed", {}).items()]
            case = {"steps": pre + [{"op": "analyze", "path": st["path"], "text": st["text"]} for st in m["steps"]]}
            ids = core.text_ids(case)
            # what the scan indexed before the first notification
            cs = ["Ev19 (" + core.coq_step(st0, None, ids, stdlib)[3:] + ")" for st0 in pre]
            for k, st in enumerate(m["steps"]):
                o = obs[m["id"] * 1000 + k]["obs"]
                fresh = lib_findings(o[-3], o[-2], o[-1]) if not any(isinstance(x, dict) and "panic" in x for x in o[-3:]) else []
                st["fresh"] = fresh
                if st.get("closed_before"):
                    cs.append("Ev19 (" + core.coq_step({"op": "close", "path": st["path"]}, None, ids, stdlib)[3:] + ")")
                cs.append("Ev19 (" + core.coq_step({"op": "analyze", "path": st["path"], "text": st["text"]}, None, ids, stdlib)[3:] + ")")
                m.setdefault("pub_at", {})[len(cs)] = k
                cs.append("Pub19 %s %s %s %s" % (L.cpath(st["path"]), L.cbool(C06.is_valid(st["text"])), L.clist([cdiag(x) for x in st["published"] if x[0] in VALID_CODES]),
                                              L.clist([cdiag(x) for x in fresh])))
            terms.append((m["id"], "(%s, %s)" % (L.clist([L.cstr(x) for x in m["raw"]]), L.clist(cs))))
        codes = core.eval_in_coq("C19", MODULE, "verdict_C19", terms)
        for m in metas:
            results.append((m, codes[m["id"]]))
    finally:
        shutil.rmtree(base, ignore_errors=True)
    return results, bad


def notif_index(m, coq_step):
    """index of the notification whose Pub19 step is (or precedes) the given step of the Coq case"""
    at = m.get("pub_at", {})
    ks = [k for i, k in sorted(at.items()) if i <= coq_step]
    return ks[-1] if ks else 0


def server_history_failures(r, h1, rnd, n, stdlib):
    """protocol-level histories for the checks of other properties (C06, C10): the notifications of a history are
    sent to the real server and what it publishes after each one is compared with the findings of a fresh database
    on the latest contents.  -> list of violation dicts (spec failures outside C19's listed class only)"""
    results, srv_bad = explore_server(r, h1, rnd, n, stdlib)
    listed = runner.listed_classes(PID, CLASS_BITS)
    out = []
    for m, cs in results:
        corr, prop, known, mb = runner.classify(cs, listed.keys())
        if prop:
            k0 = notif_index(m, prop[0])
            st = m["steps"][k0]
            out.append({"why": "after this history the real server does not answer as a server started fresh on the latest contents: "
                               "the findings it publishes for the document notified last differ",
                        "pyproject": m["pyproject"], "notification_index": k0, "on_disk_before_start": m.get("indexed", {}),
                        "history": [(s["path"], s["text"]) for s in m["steps"][:k0 + 1]],
                        "published": st["published"], "fresh_findings": st.get("fresh")})
    return out, len(results)


def run(r):
    quick = r.tier == "quick"
    proof_ok = runner.proof_stage(r)
    h1, _ = core.build_harness()
    stdlib = set(core.tables()["stdlib_modules"]) if proof_ok or os.path.exists(os.path.join(core.CACHE, "tables.json")) else set()
    rnd = random.Random(r.seed)
    ncfg, cfg_bad, cfg_corr = explore_config(r, h1, rnd, 120 if quick else 3000)
    results, srv_bad = explore_server(r, h1, rnd, int(os.environ.get("VERIF_CASES", 36 if quick else 300)), stdlib)
    listed = runner.listed_classes(PID, CLASS_BITS)
    hits = collections.Counter()
    prop_fail, corr_fail = [], []
    npub = 0
    for m, cs in results:
        npub += len(m["steps"])
        corr, prop, known, mb = runner.classify(cs, listed.keys())
        for b, steps in known.items():
            hits[CLASS_BITS[b]] += len(steps)
        if prop:
            prop_fail.append((m, prop))
        elif corr:
            corr_fail.append((m, corr))
    for k, b in enumerate((cfg_bad + srv_bad)[:2]):
        r.violation(dict({"property": PID}, **b), "direct_%d" % k)
    for k, (m, prop) in enumerate(sorted(prop_fail, key=lambda x: len(x[0]["steps"]))[:3]):
        k0 = notif_index(m, prop[0])
        st = m["steps"][k0]
        r.violation({"property": PID, "why": "the diagnostics the client received are not (findings of a fresh database for the latest contents) minus the disabled codes",
                     "pyproject": m["pyproject"], "disabled_raw": m["raw"], "notification_index": k0, "on_disk_before_start": m.get("indexed", {}),
                     "history": [(s["path"], s["text"]) for s in m["steps"][:k0 + 1]],
                     "published": st["published"], "fresh_findings": st.get("fresh"), "seed": r.seed}, "prop_%d" % k)
    if (corr_fail or cfg_corr) and not r.violations:
        if corr_fail:
            m, corr = corr_fail[0]
            k1 = notif_index(m, corr[0])
            st = m["steps"][k1]
            detail = {"pyproject": m["pyproject"], "history": [(s["path"], s["text"]) for s in m["steps"][:k1 + 1]], "published": st["published"],
                      "on_disk_before_start": m.get("indexed", {})}
        else:
            detail = cfg_corr[0]
        r.violation(dict({"property": PID, "broken": "corr:C19 (model Model.Lsp and the server / Config::parse disagree; the spec accepts every answer explored)",
                          "seed": r.seed}, **detail), "corr", no_input=True)
    if not proof_ok and not r.violations:
        r.violation({"property": PID, "broken": "thm:PLS.Properties.C19", "detail": {k: v for k, v in r.proof.items() if k != "cone"}, "seed": r.seed},
                    "proof", no_input=True)
    for b, f in listed.items():
        r.known_lines.append("KNOWN-FINDING: property=%s %s [class %s; %d hits this run]" % (PID, f["what"], f["class"], hits[f["class"]]))
    tagc = collections.Counter(t for m, _ in results for t in m["tags"])
    for m, _ in results:
        tagc["disabled:%d" % len([c for c in m["raw"] if c in VALID_CODES])] += 1
    kinds = collections.Counter(x[0] for m, _ in results for st in m["steps"] for x in st["published"])
    r.coverage = {
        "obligations": r.proof.get("statements", 0), "discharged": r.proof.get("qed", 0) if proof_ok else 0,
        "checker_cmd": "make -C coq theories/Properties/C19.vo (coqc 8.16.1, full .vo build) + Print Assumptions + hygiene grep",
        "trusted_base": runner.trusted_base() + ["toml / serde (TOML parsing), tower-lsp-server, glob::Pattern::new (validity oracle)",
                                                 "lib/lsp.py (stdio JSON-RPC driver), the driver's parsing of diagnostic messages"],
        "evaluations": npub + ncfg, "distinct_nontrivial": len(set((m["pyproject"], tuple(m["tags"])) for m, _ in results if any(st["published"] for st in m["steps"]))),
        "rule": "one evaluation = one publishDiagnostics notification compared (or one pyproject.toml parsed); histories from generator H (5-file "
                "workspace, 3-9 structural edits incl. undeclared uses, override chains, broken syntax) under a generated pyproject.toml (random "
                "subset of disabled codes, unknown codes, invalid globs, malformed / wrongly typed files); non-trivial = some notification of the "
                "history carried at least one diagnostic; distinct = (pyproject, edit kinds)",
        "samples": [{"pyproject": m["pyproject"], "first": m["steps"][0]["path"], "published": [st["published"] for st in m["steps"][:3]]} for m, _ in results[:2]],
        "cases": len(results), "config_cases": ncfg, "notifications": npub, "published_kinds": dict(kinds),
        "known_class_hits": dict(hits), "correspondence_failures": len(corr_fail) + len(cfg_corr), "input_distribution": dict(tagc),
        "proof": {k: v for k, v in r.proof.items() if k != "cone"},
    }
    r.assumptions = ["documents are virtual (sent by didOpen, not on disk); the root holds only pyproject.toml", "ASCII",
                     "one message in flight at a time (didOpen / didChange acknowledged by their publishDiagnostics)"]
    return r.finish()


def replay(r, path):
    rp = json.load(open(path))
    print(json.dumps(rp)[:2000])
    return 1
