"""C05 — all features agree on which definition a name denotes (library level)."""
import collections, json, os, random, shutil, sys, tempfile

import core, runner, ws_prop
from common_ws import usage_positions, def_positions

PID = "C05"
MODULE = "Check.C05"
VERDICT = "verdict_C05 [] []"
CLASS_BITS = {32: "K_rff_ignores_imports", 64: "K_rff_fallback"}
NCASES = (160, 2000)
shrinkable = True
RULE = ("generators W and W-chains; for every file: get_available_fixtures next to find_closest_definition and "
        "resolve_fixture_for_file for EVERY name known to the index (visible or not); non-trivial = some conftest/link "
        "provides a name; distinct = distinct tag multiset")
ASSUMPTIONS = ["library part: virtual workspaces, ASCII identifiers and lines",
               "handler part (H2): the real binary over stdio on the same generated workspaces written to a temporary directory: at every usage "
               "token go-to-definition, hover, go-to-implementation and call-hierarchy preparation must name one definition; every inlay hint "
               "must carry the return type of the definition go-to-definition selects for its parameter; the documentation of the completion "
               "entry of a name must be the hover text of the definition resolution selects for the file; a code lens count must equal the "
               "number of references the server lists. The hover text of a definition is rebuilt from the library's own record of it "
               "(from-path, name, return type, docstring: a ten-line copy of format_fixture_documentation)"]


def add_queries(ws, steps, stdlib):
    steps.append({"q": "dump"})
    nq = 1
    for p in sorted(ws["files"]):
        steps.append({"q": "agree", "path": p})
        nq += 1
    return nq


def _is_import_line(l):
    return l.startswith("from .") or l.startswith("from ..") or l.startswith("pytest_plugins")


def make_case(cid, rnd, stdlib):
    import wsgen as W
    ws = ws_prop.gen_ws(cid, rnd)
    steps = W.build_steps(ws)
    tags = list(ws["tags"])
    # a conftest.py whose imports arrive by a later edit, after every per-file view has been
    # computed once (the views are memoised; the other features are not)
    cands = [q for q in sorted(ws["files"]) if q.endswith("/conftest.py")
             and any(_is_import_line(l) for l in ws["files"][q].split("\n"))]
    late = rnd.choice(cands) if cands and cid % 3 == 0 else None
    if late:
        stripped = "\n".join(l for l in ws["files"][late].split("\n") if not _is_import_line(l))
        for st in steps:
            if st.get("op") == "analyze" and st.get("path") == late:
                st["text"] = stripped
        tags.append("edit:imports-arrive-late")
    nq = add_queries(ws, steps, stdlib)
    if late:
        steps.append({"op": "analyze", "path": late, "text": ws["files"][late]})
        nq += add_queries(ws, steps, stdlib)
    return {"id": cid, "steps": steps, "tags": tags, "queries": nq}


def corpus(stdlib):
    return ws_prop.corpus_cases(PID, add_queries, stdlib, ("C01", "C02"))


nontrivial = ws_prop.nontrivial_default


def as_list(x):
    return [] if x is None else (x if isinstance(x, list) else [x])


def doc_text(d, root):
    """providers/mod.rs format_fixture_documentation"""
    rel = d["path"][len(root) + 1:] if d["path"].startswith(root + "/") else os.path.basename(d["path"])
    s = "**from** `%s`\n```python\n@pytest.fixture\ndef %s(...)%s:\n```" % (rel, d["name"], (" -> " + d["ret"]) if d["ret"] else "")
    if d["doc"]:
        s += "\n\n---\n\n" + d["doc"]
    return s


def explore_handlers(r, rnd, n, stdlib):
    """H2: the handlers of the real server against each other, on generated workspaces on disk"""
    import lsp
    h1, _ = core.build_harness()
    binp = core.build_binary()
    base = os.path.realpath(tempfile.mkdtemp(prefix="verif_c05_"))
    bad, stats, tags = [], collections.Counter(), collections.Counter()
    try:
        for i in range(n):
            ws = ws_prop.gen_ws(7000 + i, rnd)
            wroot = "/" + ws["order"][0].split("/")[1]
            root = os.path.join(base, "w%d" % i)
            project = {}
            for p in ws["order"]:
                if "site-packages" in p or p in ws["plugins"]:
                    continue
                q = os.path.join(root, os.path.relpath(p, wroot))
                os.makedirs(os.path.dirname(q), exist_ok=True)
                open(q, "w").write(ws["files"][p])
                project[q] = ws["files"][p]
            if not project:
                continue
            # a fixed override pair in every workspace: a test module overrides a conftest fixture under the same
            # name, requests the parent through the same-named parameter, annotates another return type, and the
            # same name is requested again below (what each occurrence denotes depends on its POSITION)
            h2dir = os.path.join(root, "h2pkg")
            os.makedirs(h2dir, exist_ok=True)
            rets = rnd.sample(["int", "str", "dict", "Settings"], 2)
            h2files = {os.path.join(h2dir, "conftest.py"): "import pytest\n\n@pytest.fixture\ndef h2_val() -> %s:\n    \"\"\"the parent\"\"\"\n    return 1\n" % rets[0],
                       os.path.join(h2dir, "test_h2.py"): ("import pytest\n\ndef test_before(h2_val):\n    pass\n\n" if rnd.random() < 0.5 else "import pytest\n\n")
                       + "@pytest.fixture\ndef h2_val(h2_val)%s:\n    return h2_val\n\ndef test_after(h2_val):\n    pass\n" % rnd.choice([" -> " + rets[1], ""])}
            for q, tt in h2files.items():
                open(q, "w").write(tt)
                project[q] = tt
            # an installed plugin (venv entry point): its fixtures are third-party, resolvable, and no project symbols
            sp = os.path.join(root, ".venv", "lib", "python3.11", "site-packages")
            third_file = os.path.join(sp, "pytest_h2", "plugin.py")
            third_names = ["h2_third"] + ([ws["names"][0]] if rnd.random() < 0.5 else [])
            os.makedirs(os.path.join(sp, "pytest_h2"), exist_ok=True)
            os.makedirs(os.path.join(sp, "pytest_h2-1.0.dist-info"), exist_ok=True)
            open(os.path.join(sp, "pytest_h2", "__init__.py"), "w").write("")
            open(third_file, "w").write("import pytest\n" + "".join("\n@pytest.fixture\ndef %s() -> int:\n    return 1\n" % x for x in third_names))
            open(os.path.join(sp, "pytest_h2-1.0.dist-info", "entry_points.txt"), "w").write("[pytest11]\nh2 = pytest_h2.plugin\n")
            tags.update(ws["tags"])
            names = sorted(set(ws["names"]))
            ops = [{"op": "scan", "path": root}, {"op": "dump"}]
            obs, _ = core.run_h1(h1, [{"id": 0, "ops": ops}], "C05_h2")
            o = obs[0]["obs"]
            defs = {}
            for _nm, ds in o[1]["definitions"]:
                for d in ds:
                    defs.setdefault((d["path"], d["line"]), []).append(d)

            def fail(why, **kw):
                bad.append(dict({"why": why, "files": {os.path.relpath(q, root): tt for q, tt in project.items()}}, **kw))

            srv = lsp.Server(binp, root=root, timeout=30)
            try:
                srv.wait_for_log("Workspace scan complete", timeout=30)
                # project symbols: exactly the definitions that are not third-party
                all_defs = [d for ds in defs.values() for d in ds]
                want_syms = sorted((d["path"], d["line"], d["name"]) for d in all_defs if not d["third"])
                got_syms = sorted((lsp.uri_to_path(x["location"]["uri"]), x["location"]["range"]["start"]["line"] + 1, x["name"])
                                  for x in (srv.workspace_symbol("") or []))
                stats["workspace_symbol"] += 1
                if got_syms != want_syms:
                    fail("workspace symbols are not exactly the project (non third-party) fixture definitions",
                         extra=[list(x) for x in got_syms if x not in want_syms][:5], missing=[list(x) for x in want_syms if x not in got_syms][:5])
                if not any(d["third"] for d in all_defs):
                    fail("the fixtures of the installed entry-point plugin were not indexed as third-party", plugin=third_file[len(root) + 1:])
                for q in sorted(project) + [third_file]:
                    want_ds = sorted((d["line"], d["name"]) for d in all_defs if d["path"] == q and not d["third"])
                    got_ds = sorted((x["selectionRange"]["start"]["line"] + 1, x["name"]) for x in (srv.document_symbol(q) or []))
                    stats["document_symbol"] += 1
                    if got_ds != want_ds:
                        fail("document symbols are not exactly the project fixture definitions of the file", file=q[len(root) + 1:], got=got_ds, expected=want_ds)
                    if q == third_file and (srv.code_lens(q) or []):
                        fail("code lenses are shown for third-party definitions", file=q[len(root) + 1:])
                uses_by_def = collections.defaultdict(list)
                for q in sorted(project):
                    text = project[q]
                    uses = usage_positions(text, stdlib)
                    if not uses:
                        continue
                    # the documents are NOT opened: the scan has indexed them, and a didOpen would re-register the file's
                    # definitions last, which moves what a conftest-imported name denotes (C07's listed finding)
                    by_end, plain_hover = {}, {}
                    own_def_lines = collections.defaultdict(set)
                    for (dn, dl, _ds, _de) in def_positions(text, stdlib):
                        own_def_lines[dn].add(dl)
                    for (line, s, e, name) in uses:
                        l0 = line - 1
                        c = rnd.randint(s, max(s, e - 1))
                        at = {"file": os.path.relpath(q, root), "line": l0, "character": c, "name": name}
                        locs = as_list(srv.definition(q, l0, c))
                        hov = srv.hover(q, l0, c)
                        stats["positions"] += 1
                        d = None
                        if locs:
                            key = (lsp.uri_to_path(locs[0]["uri"]), locs[0]["range"]["start"]["line"] + 1)
                            cands = [x for x in defs.get(key, []) if x["name"] == name] or defs.get(key, [])
                            if not cands:
                                fail("go-to-definition lands where the index has no fixture", at=at, location=locs[0])
                                continue
                            d = cands[0]
                        by_end[(l0, e)] = d
                        if d is not None:
                            uses_by_def[(d["path"], d["line"], d["start"])].append((q, l0, s))
                        want = doc_text(d, root) if d else None
                        got = hov["contents"]["value"] if hov else None
                        if want != got:
                            fail("hover does not describe the definition go-to-definition navigates to", at=at, hover=got, expected=want)
                        elif got is not None and not any(dl <= line <= dl + 30 for dl in own_def_lines.get(name, ())):
                            plain_hover.setdefault(name, got)
                        stats["hover"] += 1
                        for loc in as_list(srv.implementation(q, l0, c)):
                            if d is None or lsp.uri_to_path(loc["uri"]) != d["path"] or loc["range"]["start"]["line"] + 1 not in (d["line"], d["yield"]):
                                fail("go-to-implementation does not land in the definition go-to-definition selects", at=at, location=loc,
                                     definition=d and [d["path"][len(root) + 1:], d["line"], d["yield"]])
                            stats["implementation"] += 1
                        for it in as_list(srv.prepare_call_hierarchy(q, l0, c)):
                            if d is None or it["name"] != d["name"] or lsp.uri_to_path(it["uri"]) != d["path"] or it["selectionRange"]["start"]["line"] + 1 != d["line"]:
                                fail("call-hierarchy preparation names another definition than go-to-definition", at=at, item=it,
                                     definition=d and [d["path"][len(root) + 1:], d["line"]])
                            stats["prepare"] += 1
                    # inlay hints: the type shown behind a parameter is that of the definition it resolves to
                    nlines = text.count("\n") + 2
                    for h in srv.inlay_hint(q, {"start": {"line": 0, "character": 0}, "end": {"line": nlines, "character": 0}}) or []:
                        k = (h["position"]["line"], h["position"]["character"])
                        stats["inlay"] += 1
                        if k not in by_end:
                            continue
                        d = by_end[k]
                        label = h["label"] if isinstance(h["label"], str) else "".join(x["value"] for x in h["label"])
                        if d is None or not d["ret"] or label != ": " + d["ret"]:
                            fail("an inlay hint shows another type than the definition go-to-definition selects for that parameter returns",
                                 at={"file": os.path.relpath(q, root), "line": k[0], "character": k[1]}, label=label,
                                 definition=d and [d["path"][len(root) + 1:], d["line"], d["ret"]])
                    # completion: the entry of a name documents the definition the hover at a plain use of that name
                    # in this file describes (same process: what a conftest-imported name denotes depends on the
                    # registration order of that process, C08's listed finding)
                    line, s, e, name = uses[0]
                    comp = srv.completion(q, line - 1, e)
                    items = (comp or {}).get("items", []) if isinstance(comp, dict) else (comp or [])
                    for it in items:
                        if it["label"] not in plain_hover:
                            continue
                        docv = it.get("documentation")
                        docv = docv.get("value") if isinstance(docv, dict) else docv
                        stats["completion"] += 1
                        if docv != plain_hover[it["label"]]:
                            fail("the completion entry of a name documents another definition than hover describes at a use of that name in the same file",
                                 at={"file": os.path.relpath(q, root), "line": line - 1, "character": e, "name": it["label"]},
                                 documentation=docv, hover_at_use=plain_hover[it["label"]])
                    # code lenses: the count is the number of references the server lists
                    for cl in srv.code_lens(q) or []:
                        args = (cl.get("command") or {}).get("arguments") or []
                        title = (cl.get("command") or {}).get("title", "")
                        if len(args) < 3:
                            continue
                        refs = as_list(srv.references(q, args[1], args[2], include_declaration=False))
                        stats["code_lens"] += 1
                        nref = len([x for x in refs if not (x["range"]["start"]["line"] == args[1] and x["range"]["start"]["character"] == args[2]
                                                            and lsp.uri_to_path(x["uri"]) == q)])    # the handler lists the declaration too
                        # incoming calls of the call hierarchy prepared on that definition: one per reference
                        own = [d for d in defs.get((q, args[1] + 1), []) if d["start"] == args[2]]
                        for loc in as_list(srv.implementation(q, args[1], args[2])):
                            stats["implementation_on_name"] += 1
                            if not own or lsp.uri_to_path(loc["uri"]) != q or loc["range"]["start"]["line"] + 1 not in (own[0]["line"], own[0]["yield"]):
                                fail("go-to-implementation on a definition's name does not stay in that definition",
                                     at={"file": os.path.relpath(q, root), "line": args[1], "character": args[2]}, location=loc)
                        for it in as_list(srv.prepare_call_hierarchy(q, args[1], args[2])):
                            if it["selectionRange"]["start"]["line"] != args[1] or lsp.uri_to_path(it["uri"]) != q or (own and it["name"] != own[0]["name"]):
                                fail("call-hierarchy preparation on a definition's name names another definition",
                                     at={"file": os.path.relpath(q, root), "line": args[1], "character": args[2]}, item=it)
                                continue
                            inc = srv.incoming_calls(it) or []
                            stats["incoming"] += 1
                            if len(inc) != nref:
                                fail("the incoming calls of a definition are not its references",
                                     at={"file": os.path.relpath(q, root), "line": args[1], "character": args[2]}, incoming=len(inc), references=nref,
                                     item={"name": it["name"], "line": it["selectionRange"]["start"]["line"]})
                        if title != ("1 usage" if nref == 1 else "%d usages" % nref):
                            fail("a code lens count differs from the number of references the server lists for that definition",
                                 at={"file": os.path.relpath(q, root), "line": args[1], "character": args[2]}, title=title, references=nref)
                # find-references is the exact inverse of go-to-definition, at the protocol level: asked on a
                # definition's name, the server lists exactly the usages whose go-to-definition landed on it, once each
                for (dp, dl, dc), us in sorted(uses_by_def.items()):
                    if "site-packages" in dp:
                        continue
                    refs = as_list(srv.references(dp, dl - 1, dc, include_declaration=False))
                    got = sorted((lsp.uri_to_path(x["uri"]), x["range"]["start"]["line"], x["range"]["start"]["character"]) for x in refs
                                 if not (lsp.uri_to_path(x["uri"]) == dp and x["range"]["start"]["line"] == dl - 1 and x["range"]["start"]["character"] == dc))
                    stats["references_inverse"] += 1
                    if got != sorted(us):
                        fail("the references of a definition are not exactly the usages whose go-to-definition lands on it",
                             definition=[dp[len(root) + 1:], dl, dc], listed=[[a[len(root) + 1:], b, c] for a, b, c in got],
                             usages_landing_on_it=[[a[len(root) + 1:], b, c] for a, b, c in sorted(us)])
                # opening and closing unmodified documents changes no answer: asked inside the import-free package h2pkg
                # (what import-supplied names denote after a re-open, and the per-file view after a close, are listed findings)
                def h2_snapshot():
                    out = []
                    for q in sorted(h2files):
                        for (line, s, e, name) in usage_positions(h2files[q], stdlib):
                            loc = as_list(srv.definition(q, line - 1, s))
                            hv = srv.hover(q, line - 1, s)
                            out.append((os.path.basename(q), line, s, [(os.path.relpath(lsp.uri_to_path(x["uri"]), root), x["range"]["start"]["line"]) for x in loc],
                                        hv and hv["contents"]["value"]))
                        for (dn, dl, ds, de) in def_positions(h2files[q], stdlib):
                            refs = as_list(srv.references(q, dl - 1, ds, include_declaration=False))
                            out.append((os.path.basename(q), dn, dl, sorted((os.path.relpath(lsp.uri_to_path(x["uri"]), root), x["range"]["start"]["line"],
                                                                               x["range"]["start"]["character"]) for x in refs)))
                    return out
                before = h2_snapshot()
                for q in sorted(h2files):
                    srv.open(q, h2files[q])
                    srv.close(q)
                after = h2_snapshot()
                stats["open_close"] += 1
                if before != after:
                    fail("opening and closing unmodified documents changed go-to-definition / hover / references answers",
                         before=[x for x, y in zip(before, after) if x != y][:4], after=[y for x, y in zip(before, after) if x != y][:4])
            finally:
                try:
                    srv.shutdown()
                except Exception:
                    pass
            stats["workspaces"] += 1
    finally:
        shutil.rmtree(base, ignore_errors=True)
    return bad, stats, tags


def run(r):
    quick = r.tier == "quick"
    stdlib = set(core.tables()["stdlib_modules"])
    rnd = random.Random(r.seed * 7 + 5)
    bad, stats, tags = explore_handlers(r, rnd, int(os.environ.get("VERIF_H2_WORKSPACES", 30 if quick else 80)), stdlib)
    seen = set()
    for b in bad:
        if b["why"] in seen:
            continue
        seen.add(b["why"])
        r.violation(dict({"property": PID, "part": "handlers"}, **b), "h2_%d" % len(seen))
    r.notes.append("handler part: %s" % json.dumps(dict(stats)))
    r.extra_coverage = {"handler_part": dict(stats), "handler_input_distribution": dict(tags)}
    return runner.drive_ws(r, sys.modules[__name__])
