"""C05 — all features agree on which definition a name denotes (library level)."""
import sys

import runner, ws_prop

PID = "C05"
MODULE = "Check.C05"
VERDICT = "verdict_C05 [] []"
CLASS_BITS = {32: "K_rff_ignores_imports", 64: "K_rff_fallback"}
NCASES = (160, 2000)
shrinkable = True
RULE = ("generators W and W-chains; for every file: get_available_fixtures next to find_closest_definition and "
        "resolve_fixture_for_file for EVERY name known to the index (visible or not); non-trivial = some conftest/link "
        "provides a name; distinct = distinct tag multiset")
ASSUMPTIONS = ["virtual workspaces only", "ASCII identifiers and lines",
               "handler-level agreement (hover, implementation, call hierarchy, inlay hints, completion) is the H2 part of this check"]


def add_queries(ws, steps, stdlib):
    steps.append({"q": "dump"})
    nq = 1
    for p in sorted(ws["files"]):
        steps.append({"q": "agree", "path": p})
        nq += 1
    return nq


def _is_import_line(l):
    return l.startswith("from .") or l.startswith("from ..") or l.startswith("pytest_plugins")


def make_case(cid, rnd, stdlib):
    import wsgen as W
    ws = ws_prop.gen_ws(cid, rnd)
    steps = W.build_steps(ws)
    tags = list(ws["tags"])
    # a conftest.py whose imports arrive by a later edit, after every per-file view has been
    # computed once (the views are memoised; the other features are not)
    cands = [q for q in sorted(ws["files"]) if q.endswith("/conftest.py")
             and any(_is_import_line(l) for l in ws["files"][q].split("\n"))]
    late = rnd.choice(cands) if cands and cid % 3 == 0 else None
    if late:
        stripped = "\n".join(l for l in ws["files"][late].split("\n") if not _is_import_line(l))
        for st in steps:
            if st.get("op") == "analyze" and st.get("path") == late:
                st["text"] = stripped
        tags.append("edit:imports-arrive-late")
    nq = add_queries(ws, steps, stdlib)
    if late:
        steps.append({"op": "analyze", "path": late, "text": ws["files"][late]})
        nq += add_queries(ws, steps, stdlib)
    return {"id": cid, "steps": steps, "tags": tags, "queries": nq}


def corpus(stdlib):
    return ws_prop.corpus_cases(PID, add_queries, stdlib, ("C01", "C02"))


nontrivial = ws_prop.nontrivial_default


def run(r):
    return runner.drive_ws(r, sys.modules[__name__])
