"""C08 — answers do not depend on scan order, thread schedule or process run (library part:
two real databases analyse the same files in two different orders)."""
import sys

import core, runner
import coqlit as L
import graphgen, wsgen, ws_prop
from common_ws import usage_positions, def_positions
from C06 import c_ans, c_aq

PID = "C08"
MODULE = "Check.C08"
VERDICT = "verdict_C08"
CLASS_BITS = {16: "K_order_sensitive_import", 32: "K_multi_provider"}
NCASES = (160, 2000)
RULE = ("generators W, W-chains and G; the same file set is analysed by two real databases in two independent random "
        "orders (all permutations for <= 4 files in the thorough tier); compared: go-to-definition at every usage, direct "
        "resolution per (test module, name), available fixtures, imported names, references (as sets), cycle reports, "
        "scope mismatches (as sets); non-trivial = a name is defined in >= 2 files; distinct = distinct tag multiset + order pair")
ASSUMPTIONS = ["virtual workspaces", "ASCII", "the parallel scan's only effect on the index is the order of the per-file analyses (C09)",
               "CLI / RAYON_NUM_THREADS / repeated-process comparison is the H3 part (C20)"]


def queries_for(ws, stdlib):
    qs = []
    for p in sorted(ws["files"]):
        for (line, s, e, name) in usage_positions(ws["files"][p], stdlib)[:8]:
            qs.append({"op": "goto", "path": p, "line": line - 1, "col": s})
        if "/test_" in p:
            for n in ws["names"]:
                qs.append({"op": "closest", "path": p, "name": n})
            qs.append({"op": "available", "path": p})
        if p.endswith("conftest.py"):
            qs.append({"op": "imported", "path": p})
        for (name, line, s, e) in def_positions(ws["files"][p], stdlib):
            qs.append({"op": "refs", "path": p, "name": name, "line": line})
        qs.append({"op": "mismatches", "path": p})
    qs.append({"op": "cycles"})
    return qs


def make_case(cid, rnd, stdlib):
    r = rnd.random()
    if r < 0.4:
        ws = wsgen.gen_workspace(rnd, root="/vo%d" % (cid % 5))
    elif r < 0.6:
        ws = wsgen.gen_chain_workspace(rnd, root="/vo%d" % (cid % 5))
    else:
        ws = graphgen.gen_graph_workspace(rnd, root="/vo%d" % (cid % 5))
    steps = wsgen.build_steps(ws)
    order2 = list(ws["order"])
    rnd.shuffle(order2)
    other = [{"op": "mark_plugin", "path": p} for p in ws["plugins"]] + \
            [{"op": "analyze", "path": p, "text": ws["files"][p]} for p in order2]
    qs = queries_for(ws, stdlib)
    steps.append({"q": "both", "fresh_ops": other, "queries": qs})
    return {"id": cid, "steps": steps, "tags": ws["tags"], "queries": len(qs)}


def corpus(stdlib):
    import glob, json, os
    out = []
    for p in sorted(glob.glob(os.path.join(core.VERIF, "gen", "corpus", PID, "*.json"))):
        ws = json.load(open(p))
        steps = wsgen.build_steps(ws)
        other = [{"op": "analyze", "path": q, "text": ws["files"][q]} for q in ws["order2"]]
        qs = queries_for(ws, stdlib)
        steps.append({"q": "both", "fresh_ops": other, "queries": qs})
        out.append({"id": 0, "steps": steps, "tags": ["corpus:" + os.path.basename(p)], "queries": len(qs)})
    return out


def c_aq8(q, a):
    if q["op"] == "cycles":
        return "Q8Cycles"
    if q["op"] == "mismatches":
        return "(Q8Mismatches %s)" % L.cpath(q["path"])
    return "(Q8 %s)" % c_aq(q, a)


def c_ans8(q, a):
    if q["op"] == "cycles":
        return "(A8Cycles %s)" % L.clist(["(mk_cycle %s %s)" % (L.clist([L.cstr(x) for x in c["path"]]), L.cfdef(c["fixture"])) for c in a])
    if q["op"] == "mismatches":
        return "(A8Mismatches %s)" % L.clist(["(mk_mismatch %s %s)" % (L.cfdef(m["fixture"]), L.cfdef(m["dependency"])) for m in a])
    return "(A8 %s)" % c_ans(q, a)


def to_coq(case, obs_list, stdlib):
    ids = core.text_ids(case)
    steps, idx, panics = [], [], []
    for i, (st, ob) in enumerate(zip(case["steps"], obs_list)):
        if isinstance(ob, dict) and "panic" in ob:
            panics.append((i, ob["panic"]))
            continue
        if "op" in st:
            steps.append("Op8 (" + core.coq_step(st, ob, ids, stdlib)[3:] + ")")
            idx.append(i)
            continue
        qs, la, fa = [], [], []
        for q, a_l, a_f in zip(st["queries"], ob["live"]["answers"], ob["fresh"]["answers"]):
            if q["op"] == "refs" and (a_l.get("nodef") or a_f.get("nodef")):
                continue
            qs.append(c_aq8(q, a_l))
            la.append(c_ans8(q, a_l))
            fa.append(c_ans8(q, a_f))
        steps.append("Both8 %s %s %s" % (L.clist(qs), L.clist(la), L.clist(fa)))
        idx.append(i)
    return L.clist(steps), idx, panics


def nontrivial(c):
    if any(t.startswith(("conftest:def", "conftest:override", "link:", "self-param", "names")) for t in c["tags"]):
        return tuple(sorted(c["tags"]))
    return None


def run(r):
    return runner.drive_ws(r, sys.modules[__name__])
