"""C08 — answers do not depend on scan order, thread schedule or process run (library part:
two real databases analyse the same files in two different orders)."""
import sys

import core, runner
import coqlit as L
import graphgen, wsgen, ws_prop
from common_ws import usage_positions, def_positions
from C06 import c_ans, c_aq

PID = "C08"
MODULE = "Check.C08"
VERDICT = "verdict_C08"
CLASS_BITS = {16: "K_order_sensitive_import", 32: "K_multi_provider"}
NCASES = (160, 2000)
RULE = ("generators W, W-chains and G; the same file set is analysed by two real databases in two independent random "
        "orders (all permutations for <= 4 files in the thorough tier); compared: go-to-definition at every usage, direct "
        "resolution per (test module, name), available fixtures, imported names, references (as sets), cycle reports, "
        "scope mismatches (as sets); non-trivial = a name is defined in >= 2 files; distinct = distinct tag multiset + order pair")
ASSUMPTIONS = ["virtual workspaces", "ASCII", "the parallel scan's only effect on the index is the order of the per-file analyses (C09)",
               "CLI / RAYON_NUM_THREADS / repeated-process comparison is the H3 part (C20)"]


def queries_for(ws, stdlib):
    qs = []
    for p in sorted(ws["files"]):
        for (line, s, e, name) in usage_positions(ws["files"][p], stdlib)[:8]:
            qs.append({"op": "goto", "path": p, "line": line - 1, "col": s})
        if "/test_" in p:
            for n in ws["names"]:
                qs.append({"op": "closest", "path": p, "name": n})
            qs.append({"op": "available", "path": p})
        if p.endswith("conftest.py"):
            qs.append({"op": "imported", "path": p})
        for (name, line, s, e) in def_positions(ws["files"][p], stdlib):
            qs.append({"op": "refs", "path": p, "name": name, "line": line})
        qs.append({"op": "mismatches", "path": p})
    qs.append({"op": "cycles"})
    return qs


def make_case(cid, rnd, stdlib):
    r = rnd.random()
    if r < 0.4:
        ws = wsgen.gen_workspace(rnd, root="/vo%d" % (cid % 5))
    elif r < 0.6:
        ws = wsgen.gen_chain_workspace(rnd, root="/vo%d" % (cid % 5))
    else:
        ws = graphgen.gen_graph_workspace(rnd, root="/vo%d" % (cid % 5))
    steps = wsgen.build_steps(ws)
    order2 = list(ws["order"])
    rnd.shuffle(order2)
    other = [{"op": "mark_plugin", "path": p} for p in ws["plugins"]] + \
            [{"op": "analyze", "path": p, "text": ws["files"][p]} for p in order2]
    qs = queries_for(ws, stdlib)
    steps.append({"q": "both", "fresh_ops": other, "queries": qs})
    return {"id": cid, "steps": steps, "tags": ws["tags"], "queries": len(qs)}


def corpus(stdlib):
    import glob, json, os
    out = []
    for p in sorted(glob.glob(os.path.join(core.VERIF, "gen", "corpus", PID, "*.json"))):
        ws = json.load(open(p))
        steps = wsgen.build_steps(ws)
        other = [{"op": "analyze", "path": q, "text": ws["files"][q]} for q in ws["order2"]]
        qs = queries_for(ws, stdlib)
        steps.append({"q": "both", "fresh_ops": other, "queries": qs})
        out.append({"id": 0, "steps": steps, "tags": ["corpus:" + os.path.basename(p)], "queries": len(qs)})
    return out


def c_aq8(q, a):
    if q["op"] == "cycles":
        return "Q8Cycles"
    if q["op"] == "mismatches":
        return "(Q8Mismatches %s)" % L.cpath(q["path"])
    return "(Q8 %s)" % c_aq(q, a)


def c_ans8(q, a):
    if q["op"] == "cycles":
        return "(A8Cycles %s)" % L.clist(["(mk_cycle %s %s)" % (L.clist([L.cstr(x) for x in c["path"]]), L.cfdef(c["fixture"])) for c in a])
    if q["op"] == "mismatches":
        return "(A8Mismatches %s)" % L.clist(["(mk_mismatch %s %s)" % (L.cfdef(m["fixture"]), L.cfdef(m["dependency"])) for m in a])
    return "(A8 %s)" % c_ans(q, a)


def to_coq(case, obs_list, stdlib):
    ids = core.text_ids(case)
    steps, idx, panics = [], [], []
    for i, (st, ob) in enumerate(zip(case["steps"], obs_list)):
        if isinstance(ob, dict) and "panic" in ob:
            panics.append((i, ob["panic"]))
            continue
        if "op" in st:
            steps.append("Op8 (" + core.coq_step(st, ob, ids, stdlib)[3:] + ")")
            idx.append(i)
            continue
        qs, la, fa = [], [], []
        for q, a_l, a_f in zip(st["queries"], ob["live"]["answers"], ob["fresh"]["answers"]):
            if q["op"] == "refs" and (a_l.get("nodef") or a_f.get("nodef")):
                continue
            qs.append(c_aq8(q, a_l))
            la.append(c_ans8(q, a_l))
            fa.append(c_ans8(q, a_f))
        steps.append("Both8 %s %s %s" % (L.clist(qs), L.clist(la), L.clist(fa)))
        idx.append(i)
    return L.clist(steps), idx, panics


def nontrivial(c):
    if any(t.startswith(("conftest:def", "conftest:override", "link:", "self-param", "names")) for t in c["tags"]):
        return tuple(sorted(c["tags"]))
    return None


TWIN = "import pytest\n\n\n@pytest.fixture\ndef %s(%s)%s:\n    return 1\n"


def explore_processes(r, rnd, n):
    """protocol part: the same workspace served by several server PROCESSES with different numbers of scan
    workers, and again after unmodified documents were re-opened (which re-registers their definitions last):
    every snapshot of go-to-definition / references / call hierarchy / symbols must be the same.  The
    workspaces have same-named fixtures at the SAME line and column in several conftest.py files (root, package,
    sibling package) and no imports (what a conftest-imported name denotes is the listed order finding)"""
    import json, os, shutil, tempfile
    import core, lsp
    binp = core.build_binary()
    base = os.path.realpath(tempfile.mkdtemp(prefix="verif_c08_"))
    bad, nsnap = [], 0
    try:
        for i in range(n):
            root = os.path.join(base, "w%d" % i)
            name = rnd.choice(["db", "client", "fx_a"])
            other = rnd.choice(["cfg", "srv"])
            files = {"conftest.py": TWIN % (name, "", rnd.choice(["", " -> int"])) + "\n@pytest.fixture\ndef %s(%s):\n    return 2\n" % (other, name),
                     "pkg/conftest.py": TWIN % (name, rnd.choice([name, ""]), "") + "\n@pytest.fixture\ndef %s(%s):\n    return 3\n" % (other, name),
                     "pkg2/conftest.py": TWIN % (name, "", " -> str"),
                     "test_root.py": "def test_r(%s, %s):\n    pass\n" % (name, other),
                     "pkg/test_pkg.py": "def test_p(%s):\n    pass\n\ndef test_q(%s, %s):\n    pass\n" % (name, other, name),
                     "pkg2/test_pkg2.py": "def test_s(%s):\n    pass\n" % name}
            for rel, tt in files.items():
                q = os.path.join(root, rel)
                os.makedirs(os.path.dirname(q), exist_ok=True)
                open(q, "w").write(tt)

            def snapshot(srv):
                out = {}
                for rel in sorted(files):
                    q = os.path.join(root, rel)
                    if rel.endswith("conftest.py"):
                        for s in srv.document_symbol(q) or []:
                            ln, ch = s["selectionRange"]["start"]["line"], s["selectionRange"]["start"]["character"]
                            key = "%s:%s@%d" % (rel, s["name"], ln)
                            refs = sorted((os.path.relpath(lsp.uri_to_path(x["uri"]), root), x["range"]["start"]["line"], x["range"]["start"]["character"])
                                          for x in (srv.references(q, ln, ch, include_declaration=False) or []))
                            out[key + " references"] = refs
                            for it in (srv.prepare_call_hierarchy(q, ln, ch) or []):
                                out[key + " incoming"] = sorted((os.path.relpath(lsp.uri_to_path(c["from"]["uri"]), root), c["from"]["range"]["start"]["line"])
                                                                for c in (srv.incoming_calls(it) or []))
                                out[key + " outgoing"] = sorted((os.path.relpath(lsp.uri_to_path(c["to"]["uri"]), root), c["to"]["selectionRange"]["start"]["line"], c["to"]["name"])
                                                                for c in (srv.outgoing_calls(it) or []))
                    else:
                        for ln, line in enumerate(files[rel].split("\n")):
                            if line.startswith("def test"):
                                for nm in (name, other):
                                    col = line.find(nm, line.find("("))
                                    if col >= 0:
                                        d = srv.definition(q, ln, col)
                                        d = d[0] if isinstance(d, list) and d else d
                                        out["%s:%d:%d definition" % (rel, ln, col)] = d and (os.path.relpath(lsp.uri_to_path(d["uri"]), root), d["range"]["start"]["line"])
                out["workspace symbols"] = sorted((os.path.relpath(lsp.uri_to_path(x["location"]["uri"]), root), x["name"], x["location"]["range"]["start"]["line"])
                                                  for x in (srv.workspace_symbol("") or []))
                return out
            snaps = []
            for threads in (1, 8):
                srv = lsp.Server(binp, root=root, timeout=30, env={"RAYON_NUM_THREADS": str(threads)})
                try:
                    srv.wait_for_log("Workspace scan complete", timeout=30)
                    snaps.append(("%d scan workers, after the scan" % threads, snapshot(srv)))
                    for rel in rnd.sample(sorted(f for f in files if f.endswith("conftest.py")), 2):
                        srv.open(os.path.join(root, rel), files[rel])
                        snaps.append(("%d scan workers, after re-opening %s unmodified" % (threads, rel), snapshot(srv)))
                finally:
                    try:
                        srv.shutdown()
                    except Exception:
                        pass
            nsnap += len(snaps)
            ref_name, ref = snaps[0]
            for nm, sn in snaps[1:]:
                if sn != ref:
                    diff = sorted(k for k in set(sn) | set(ref) if sn.get(k) != ref.get(k))[:6]
                    bad.append({"why": "the same workspace is answered differently by another server process / after re-opening an unmodified document",
                                "files": files, "snapshot_a": ref_name, "snapshot_b": nm,
                                "differing": {k: [ref.get(k), sn.get(k)] for k in diff}})
                    break
    finally:
        shutil.rmtree(base, ignore_errors=True)
    return bad, nsnap


def run(r):
    import random
    quick = r.tier == "quick"
    bad, nsnap = explore_processes(r, random.Random(r.seed * 37 + 8), 4 if quick else 30)
    for k, b in enumerate(bad[:2]):
        r.violation(dict({"property": PID, "part": "server processes"}, **b), "proc_%d" % k)
    r.notes.append("protocol part: %d snapshots over stdio" % nsnap)
    r.extra_coverage = {"server_snapshots": nsnap}
    return runner.drive_ws(r, sys.modules[__name__])
