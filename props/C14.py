"""C14 — imported and plugin fixtures are discovered transitively and classified.

Generated trees on disk: a workspace with conftest.py files at several levels that reach
fixture modules through chains of star imports, explicit imports and pytest_plugins
entries (relative and absolute, modules and packages, cycles, diamonds), test modules, and
a synthetic virtual environment: site-packages with dist-info / egg-info directories whose
entry_points.txt name plugin modules and packages (nested paths, `:attr` suffixes), a
_pytest directory, a plain library a conftest imports, editable installs inside and
outside the workspace with the .pth naming variants.  The real scan_workspace runs on the
tree; which files it analysed, which it marked as plugin files, the third-party / plugin
flags of every definition and the fixtures available from every test file are compared with
the Coq model (Model/ScanModel.v) and judged by the spec (Spec/ImportsSpec.v: reachability
closure over the resolved import graph; classification by where the source lives)."""
import ast, collections, glob, json, os, random, shutil, sys, tempfile

import core, runner
import coqlit as L
import py2coq

PID = "C14"
MODULE = "Check.C14"
VERDICT = "verdict_C14"
CLASS_BITS = {16: "K_test_module_imports"}
RULE = ("one evaluation = one question about one scanned tree (analysed files, plugin files, definition flags, availability per test file); "
        "distinct = distinct feature-tag sets of the trees")
ASSUMPTIONS = ["real files under a temporary directory; virtual paths in the model are the paths relative to the case directory",
               "phase 1 (file selection) is C13's subject: trees use ordinary directory names, the selected files are computed by the name rule",
               "direct_url.json is read by the driver (the editable flag is passed to the model as data)"]

FX = "@pytest.fixture%s\ndef %s(%s):\n    return 1\n\n"


class Tree:
    def __init__(self, rnd):
        self.rnd = rnd
        self.files = {}          # relative path -> text (Python files and metadata)
        self.tags = []
        self.k = 0
        self.common = ["db", "client", "cfg"]

    def uniq(self, base):
        self.k += 1
        return "%s%d" % (base, self.k)

    def module_text(self, imports=(), plugins=None, nfix=None, extra_names=()):
        rnd = self.rnd
        src = "import pytest\n"
        for i in imports:
            src += i + "\n"
        if plugins is not None:
            if rnd.random() < 0.2:
                src += "pytest_plugins = %r\n" % ["ignored.first"]      # last assignment wins
                self.tags.append("plugins:reassigned")
            src += "pytest_plugins = %s\n" % (repr(plugins[0]) if len(plugins) == 1 and rnd.random() < 0.4 else repr(list(plugins)))
            if rnd.random() < 0.2:
                # a later assignment whose value is not a string / list / tuple literal: the last assignment wins, and it
                # names no module
                src += "pytest_plugins = %s\n" % rnd.choice(["None", "plugin_names()", "[] + EXTRA_PLUGINS", "os.environ.get('PLUGS')"])
                self.tags.append("plugins:dynamic-last")
        src += "\n"
        names = [self.uniq("fx_")] + list(extra_names)
        if rnd.random() < 0.35:
            names.append(rnd.choice(self.common))
        for n in names[: (nfix or len(names))]:
            src += FX % (rnd.choice(["", "", "(scope=\"session\")", "()"]), n, "")
        return src, names

    def add(self, rel, text):
        self.files[rel] = text

    def helper_graph(self, d, dotted_pkg=None):
        """a small import graph of helper modules below directory d; -> import line for the importer"""
        rnd = self.rnd
        kind = rnd.choice(["single", "chain", "cycle", "diamond", "package", "explicit", "nested_pkg", "missing", "reexport_twice", "explicit_diamond"])
        self.tags.append("graph:" + kind)
        m1 = self.uniq("helpers_")
        rel_or_abs = rnd.choice(["rel", "abs"]) if dotted_pkg is not None or True else "rel"

        def imp(mod, star=True, names=None, level=1):
            if rel_or_abs == "abs" and level == 1 and dotted_pkg:
                base = "from %s.%s import " % (dotted_pkg, mod)
            elif rel_or_abs == "abs" and level == 1 and dotted_pkg == "":
                base = "from %s import " % mod
            else:
                base = "from %s%s import " % ("." * level, mod)
            return base + ("*" if star else ", ".join(names))

        if kind == "single":
            t, _ = self.module_text()
            self.add(d + m1 + ".py", t)
            return imp(m1)
        if kind == "chain":
            m2, m3 = self.uniq("helpers_"), self.uniq("helpers_")
            t3, n3 = self.module_text()
            t2, _ = self.module_text(imports=["from .%s import *" % m3] if rnd.random() < 0.6 else ["from .%s import %s" % (m3, n3[0])])
            t1, _ = self.module_text(imports=["from .%s import *" % m2])
            self.add(d + m3 + ".py", t3); self.add(d + m2 + ".py", t2); self.add(d + m1 + ".py", t1)
            return imp(m1)
        if kind == "cycle":
            m2 = self.uniq("helpers_")
            t1, _ = self.module_text(imports=["from .%s import *" % m2])
            t2, _ = self.module_text(imports=["from .%s import *" % m1])
            self.add(d + m1 + ".py", t1); self.add(d + m2 + ".py", t2)
            return imp(m1)
        if kind == "diamond":
            m2, m3, m4 = self.uniq("helpers_"), self.uniq("helpers_"), self.uniq("helpers_")
            t4, _ = self.module_text()
            t2, _ = self.module_text(imports=["from .%s import *" % m4])
            t3, _ = self.module_text(imports=["from .%s import *" % m4])
            t1, _ = self.module_text(imports=["from .%s import *" % m2, "from .%s import *" % m3])
            for m, t in ((m1, t1), (m2, t2), (m3, t3), (m4, t4)):
                self.add(d + m + ".py", t)
            return imp(m1)
        if kind == "package":
            sub = self.uniq("sub_")
            ti, _ = self.module_text(imports=["from .%s import *" % sub])
            ts, _ = self.module_text()
            self.add(d + m1 + "/__init__.py", ti); self.add(d + m1 + "/" + sub + ".py", ts)
            return imp(m1)
        if kind == "nested_pkg":
            inner = self.uniq("inner_")
            tm, _ = self.module_text(imports=["from ..%s import *" % (m1 + "_up")] if rnd.random() < 0.5 else [])
            tu, _ = self.module_text()
            if rnd.random() < 0.5:
                self.add(d + m1 + "/__init__.py", "")
            else:
                self.tags.append("graph:namespace-package")      # a directory without __init__.py on a dotted path
            self.add(d + m1 + "/" + inner + ".py", tm)
            self.add(d + m1 + "_up.py", tu)
            return "from .%s.%s import *" % (m1, inner)
        if kind == "reexport_twice":
            # the importer names, in TWO statements, fixtures that the imported module only re-exports
            m2 = self.uniq("helpers_")
            t2, n2 = self.module_text(extra_names=[self.uniq("named_"), self.uniq("named_")])
            t1, _ = self.module_text(imports=["from .%s import *" % m2])
            self.add(d + m2 + ".py", t2); self.add(d + m1 + ".py", t1)
            return imp(m1, star=False, names=[n2[-1]]) + "\n" + imp(m1, star=False, names=[n2[-2]])
        if kind == "explicit_diamond":
            # two modules that re-export the same third one; the importer names one fixture from each
            m2, m3 = self.uniq("helpers_"), self.uniq("helpers_")
            t3, n3 = self.module_text(extra_names=[self.uniq("named_"), self.uniq("named_")])
            t1, _ = self.module_text(imports=["from .%s import *" % m3])
            t2, _ = self.module_text(imports=["from .%s import *" % m3])
            self.add(d + m3 + ".py", t3); self.add(d + m1 + ".py", t1); self.add(d + m2 + ".py", t2)
            return imp(m1, star=False, names=[n3[-1]]) + "\n" + imp(m2, star=False, names=[n3[-2]])
        if kind == "explicit":
            t, names = self.module_text(extra_names=[self.uniq("named_")])
            self.add(d + m1 + ".py", t + "def plain_helper():\n    return 0\n")
            return imp(m1, star=False, names=[names[-1], "plain_helper"])
        return "from .%s import *" % self.uniq("does_not_exist_")

    def build(self):
        rnd = self.rnd
        depth = rnd.randint(0, 2)
        dirs = ["ws/"]
        for k in range(depth):
            dirs.append(dirs[-1] + "pkg%d/" % k)
        for d in dirs:
            if d != "ws/" and rnd.random() < 0.7:
                self.add(d + "__init__.py", "")
        # virtual environment
        have_venv = rnd.random() < 0.85
        venv = rnd.choice([".venv", "venv", "env"])
        spd = "ws/%s/lib/python3.%d/site-packages/" % (venv, rnd.choice([9, 11, 12]))
        lib_import = None
        self.meta = {"sp": None, "dists": [], "pths": []}
        if have_venv:
            self.meta["sp"] = spd
            self.tags.append("venv:" + venv)
            self.add(spd + "README.txt", "x")
            if rnd.random() < 0.45:
                lib = self.uniq("plainlib_")
                t2, _ = self.module_text()
                t, _ = self.module_text(imports=["from .fx2 import *"] if rnd.random() < 0.7 else [])
                self.add(spd + lib + "/__init__.py", "")
                self.add(spd + lib + "/fx.py", t)
                if "fx2" in t:
                    self.add(spd + lib + "/fx2.py", t2)
                lib_import = "from %s.fx import *" % lib
                self.lib_star = lib_import
                self.tags.append("venv:library-imported")
            for _ in range(rnd.randint(0, 3)):
                self.plugin_dist(spd)
            if rnd.random() < 0.4:
                t, _ = self.module_text()
                self.add(spd + "_pytest/" + rnd.choice(["tmpdir.py", "fixtures.py", "deep/a/b.py", "deep/a/b/c.py", "test_skip.py"]), t)
                self.tags.append("venv:_pytest")
            for where in (["outside"] if rnd.random() < 0.35 else []) + (["inside"] if rnd.random() < 0.3 else []) + (["sibling"] if rnd.random() < 0.3 else []):
                self.editable(spd, where)
        # conftests
        for li, d in enumerate(dirs):
            if rnd.random() < 0.2:
                continue
            imports, plugins = [], None
            for _ in range(rnd.randint(0, 2)):
                imports.append(self.helper_graph(d, dotted_pkg=None))
            if lib_import and rnd.random() < 0.75:
                imports.append(lib_import)
            if rnd.random() < 0.3:
                pm = self.uniq("plugmod_")
                t, _ = self.module_text(imports=[self.helper_graph(d)] if rnd.random() < 0.4 else [])
                self.add(d + pm + ".py", t)
                plugins = [rnd.choice([pm, "." + pm]) if d == "ws/" or True else pm]
                self.tags.append("conftest:pytest_plugins")
            t, _ = self.module_text(imports=imports, plugins=plugins)
            self.add(d + "conftest.py", t)
        # an unimported module
        if rnd.random() < 0.5:
            t, _ = self.module_text()
            self.add(rnd.choice(dirs) + "unimported_" + self.uniq("m") + ".py", t)
        # tests
        for k in range(rnd.randint(1, 3)):
            d = rnd.choice(dirs)
            imports = []
            if rnd.random() < 0.15:
                imports.append(self.helper_graph(d))
                self.tags.append("testmodule:imports")
            t, _ = self.module_text(imports=imports, nfix=rnd.choice([0, 1]))
            t += "def test_%d(db):\n    pass\n" % k
            self.add(d + rnd.choice(["test_m%d.py", "m%d_test.py"]) % k, t)
        return self

    def plugin_dist(self, spd):
        rnd = self.rnd
        pk = self.uniq("pytest_plug")
        kind = rnd.choice(["module", "pkg_module", "package", "nested", "attr", "missing", "egg", "two_entries"])
        self.tags.append("dist:" + kind)
        di = "%s-%d.%d.%s" % (pk.replace("_", rnd.choice(["_", "-"])), rnd.randint(0, 3), rnd.randint(0, 9), "egg-info" if kind == "egg" else "dist-info")
        ep = "[console_scripts]\ntool = %s:main\n\n[pytest11]\n" % pk
        if kind in ("module", "egg"):
            t, _ = self.module_text(imports=["from %s_helpers import *" % pk] if rnd.random() < 0.4 else [])
            self.add(spd + pk + ".py", t)
            if "_helpers import" in t:
                th, _ = self.module_text()
                self.add(spd + pk + "_helpers.py", th)
            ep += "%s = %s\n" % (pk, pk)
        elif kind in ("pkg_module", "attr", "two_entries"):
            self.add(spd + pk + "/__init__.py", "")
            imp = []
            if rnd.random() < 0.6:
                deeper_imports = ["from .deeper import *"] if rnd.random() < 0.4 else []
                if getattr(self, "lib_star", None) and rnd.random() < 0.6:
                    deeper_imports.append(self.lib_star)          # the library a conftest imports directly, reached through a longer chain
                    self.tags.append("plugin-chain:reaches-imported-library")
                if rnd.random() < 0.35:
                    # an import cycle among plugin modules (helpers imports the plugin back, or itself)
                    deeper_imports.append(rnd.choice(["from .plugin import *", "from %s.plugin import *" % pk, "from .helpers import *"]))
                    self.tags.append("plugin-chain:cycle")
                th, _ = self.module_text(imports=deeper_imports)
                self.add(spd + pk + "/helpers.py", th)
                if "deeper" in th:
                    td, _ = self.module_text()
                    self.add(spd + pk + "/deeper.py", td)
                imp.append(rnd.choice(["from .helpers import *", "from %s.helpers import *" % pk, "from .helpers import nothing_here"]))
            plug = None
            if rnd.random() < 0.3:
                back = rnd.random() < 0.4
                tx, _ = self.module_text(plugins=[pk + ".plugin"] if back else None)
                if back:
                    self.tags.append("plugin-chain:pytest_plugins-cycle")
                self.add(spd + pk + "/extra.py", tx)
                plug = [pk + ".extra"]
            t, _ = self.module_text(imports=imp, plugins=plug)
            self.add(spd + pk + "/plugin.py", t)
            ep += "# comment\n%s = %s.plugin%s\n" % (pk, pk, ":hook" if kind == "attr" else "")
            if kind == "two_entries":
                t2, _ = self.module_text()
                self.add(spd + pk + "/second.py", t2)
                ep += "second=%s.second\nbroken line\n" % pk
        elif kind == "package":
            t, _ = self.module_text()
            self.add(spd + pk + "/__init__.py", t)
            t2, _ = self.module_text()
            self.add(spd + pk + "/more.py", t2)
            self.add(spd + pk + "/a/b/c.py", self.module_text()[0])
            self.add(spd + pk + "/a/b/c/d.py", self.module_text()[0])
            self.add(spd + pk + "/test_own.py", self.module_text()[0])
            ep += "%s = %s\n" % (pk, pk)
        elif kind == "nested":
            self.add(spd + pk + "/__init__.py", "")
            self.add(spd + pk + "/sub/__init__.py", "")
            self.add(spd + pk + "/sub/plugin.py", self.module_text()[0])
            ep += "%s = %s.sub.plugin\n" % (pk, pk)
        else:
            ep += "%s = %s.not_there\nother = ..bad\n" % (pk, pk)
        ep += "\n[other]\nx = y\n"
        self.files[spd + di + "/entry_points.txt"] = ep
        self.meta["dists"].append({"name": di, "entry": ep, "editable": False})

    def editable(self, spd, where):
        rnd = self.rnd
        raw = self.uniq(rnd.choice(["my-ed", "my_ed", "My.Ed"]))
        norm = raw.replace("-", "_").replace(".", "_").lower()
        pkg = norm
        # "sibling": outside the workspace, in a directory whose NAME extends the workspace's
        # (ws_plugins beside ws): inside only for a textual prefix test
        src = ("ext/%s_src/" % norm) if where == "outside" else ("ws_plugins/%s_src/" % norm) if where == "sibling" else "ws/src/"
        self.tags.append("editable:" + where)
        t, _ = self.module_text(imports=["from .more import *"] if rnd.random() < 0.5 else [], plugins=[pkg + ".extra"] if rnd.random() < 0.3 else None)
        self.add(src + pkg + "/__init__.py", "")
        self.add(src + pkg + "/plugin.py", t)
        if "more import" in t:
            self.add(src + pkg + "/more.py", self.module_text()[0])
        if "extra" in t:
            self.add(src + pkg + "/extra.py", self.module_text()[0])
        ver = "%d.%d" % (rnd.randint(0, 2), rnd.randint(0, 9))
        di = "%s-%s.dist-info" % (raw, ver)
        ep = "[pytest11]\n%s = %s.plugin\n" % (pkg, pkg)
        self.files[spd + di + "/entry_points.txt"] = ep
        editable = rnd.random() < 0.85
        self.files[spd + di + "/direct_url.json"] = json.dumps({"url": "file:///x", "dir_info": {"editable": editable}})
        stem = rnd.choice(["__editable__.%s-%s" % (norm, ver), "_%s" % norm, norm, "__editable__.%s" % raw, "unrelated_%s" % norm])
        self.tags.append("pth:" + stem.split(norm)[0].split(raw)[0])
        lead = rnd.choice(["", "# comment\n", "import something; x = 1\n"])
        content = lead + "@CASE@/" + src.rstrip("/") + "\n"
        model_content = content
        if where != "inside" and rnd.random() < 0.3:
            # the .pth line spells the checkout through a symbolic link (~/src -> /data/src): the
            # install is the one at the link's target (the model is given the resolved spelling)
            top = src.split("/")[0]
            link = "lnk_" + top
            self.meta.setdefault("symlinks", [])
            if [link, top] not in self.meta["symlinks"]:
                self.meta["symlinks"].append([link, top])
            content = lead + "@CASE@/" + link + "/" + src.rstrip("/").split("/", 1)[1] + "\n"
            self.tags.append("pth:through-symlink")
        self.files[spd + stem + ".pth"] = content
        self.meta["dists"].append({"name": di, "entry": ep, "editable": editable})
        self.meta["pths"].append({"stem": stem, "content": model_content})


def selected_files(files):
    out = []
    skip = set(core.tables()["skip_directories"]) if "skip_directories" in core.tables() else {".venv", "venv", "env", "site-packages", "__pycache__"}
    for rel in files:
        if not rel.startswith("ws/") or not rel.endswith(".py"):
            continue
        comps = rel.split("/")[1:]
        if any(c in skip or c.endswith(".egg-info") for c in comps[:-1]):
            continue
        n = comps[-1]
        if n == "conftest.py" or (n.startswith("test_") and n.endswith(".py")) or n.endswith("_test.py"):
            out.append(rel)
    return out


def vpath(rel):
    return L.cpath("/" + rel)


def ctext(s):
    return "[" + "; ".join(str(ord(c)) for c in s) + "]"


def to_term(tree, case_dir, obs):
    files = tree.files
    py = sorted(r for r in files if r.endswith(".py"))
    fd = []
    for k, rel in enumerate(py):
        t = files[rel]
        fd.append("(%s, facts_of %d %s %s)" % (vpath(rel), k + 1, py2coq.ctext(t), py2coq.cmodule(t)))
    sp = "None" if tree.meta["sp"] is None else "(Some %s)" % vpath(tree.meta["sp"].rstrip("/"))
    dists = ["(mk_dist %s %s %s)" % (ctext(d["name"]), "(Some %s)" % ctext(d["entry"]) if d["entry"] is not None else "None", L.cbool(d["editable"]))
             for d in tree.meta["dists"]]
    pths = ["(%s, %s)" % (ctext(p["stem"]), ctext(p["content"].replace("@CASE@", ""))) for p in tree.meta["pths"]]
    dump, avail = obs
    rel_of = lambda p: p[len(case_dir) + 1:] if p.startswith(case_dir + "/") else p.lstrip("/")
    cached = [vpath(rel_of(k)) for k, _ in dump["file_cache"]]
    plugin = [vpath(rel_of(p)) for p in dump["plugin_files"]]
    defs = []
    for name, ds in dump["definitions"]:
        for d in ds:
            defs.append("(mk_idef %s %s %s %s)" % (L.cstr(d["name"]), vpath(rel_of(d["path"])), L.cbool(d["third"]), L.cbool(d["plugin"])))
    av = []
    for rel, items in avail:
        av.append("(%s, %s)" % (vpath(rel), L.clist(["(%s, %s)" % (L.cstr(x["name"]), vpath(rel_of(x["path"]))) for x in items])))
    return "(mk_c14 %s %s %s %s %s %s %s %s %s %s)" % (
        L.clist(fd), vpath("ws"), sp, L.clist(dists), L.clist(pths), L.clist([vpath(r) for r in selected_files(files)]),
        L.clist(cached), L.clist(plugin), L.clist(defs), L.clist(av))


HANGS = []


def run_trees(seeds, corpus=()):
    h1, _ = core.build_harness()
    base = tempfile.mkdtemp(prefix="verif_c14_")
    base = os.path.realpath(base)
    trees, terms = [], []
    try:
        cases = []
        for i, seed in enumerate(list(corpus) + list(seeds)):
            if isinstance(seed, dict):
                tree = Tree(random.Random(0))
                tree.files, tree.meta, tree.tags = seed["files"], seed["meta"], ["corpus:" + seed["_name"]]
            else:
                tree = Tree(random.Random(seed)).build()
            case_dir = os.path.join(base, "c%d" % i)
            for rel, text in tree.files.items():
                p = os.path.join(case_dir, rel)
                os.makedirs(os.path.dirname(p), exist_ok=True)
                with open(p, "w", newline="") as f:
                    f.write(text.replace("@CASE@", case_dir))
            for link, target in tree.meta.get("symlinks", []):
                if not os.path.lexists(os.path.join(case_dir, link)):
                    os.symlink(os.path.join(case_dir, target), os.path.join(case_dir, link))
            tests = selected_files(tree.files)
            ops = [{"op": "scan", "path": os.path.join(case_dir, "ws")}, {"op": "dump"}]
            ops += [{"op": "available", "path": os.path.join(case_dir, r)} for r in tests if not r.endswith("conftest.py")]
            cases.append({"id": i, "ops": ops})
            trees.append((tree, case_dir, [r for r in tests if not r.endswith("conftest.py")]))
        obs, todo = {}, list(cases)
        while todo:
            got, _ = core.run_h1(h1, todo, "C14_scan", allow_hang=True)
            obs.update(got)
            # the harness stops at the first case that outruns its watchdog (60 s)
            todo = [c for c in todo if c["id"] not in got]
            if len(HANGS) >= 3:
                break
            HANGS.extend(i for i in got if got[i].get("hang"))
        for i, (tree, case_dir, tests) in enumerate(trees):
            if i not in obs or obs[i].get("hang"):
                continue
            o = obs[i]["obs"]
            terms.append((i, to_term(tree, case_dir, (o[1], list(zip(tests, o[2:]))))))
    finally:
        shutil.rmtree(base, ignore_errors=True)
    codes = core.eval_in_coq(PID, MODULE, VERDICT, terms, per_shard=4)
    return trees, codes


def scan_duplicates(seeds):
    """the parallel scan of a freshly written tree (import graphs of every kind: a module reached from two
    places in one round - diamonds, two statements, two conftests) against the single-analysis state: no
    definition and no usage of any file may be recorded twice.  -> (number of trees, failures)"""
    h1, _ = core.build_harness()
    base = os.path.realpath(tempfile.mkdtemp(prefix="verif_scan_"))
    bad, cases, metas = [], [], []
    try:
        for i, seed in enumerate(seeds):
            tree = Tree(random.Random(seed)).build()
            case_dir = os.path.join(base, "c%d" % i)
            for rel, text in tree.files.items():
                p = os.path.join(case_dir, rel)
                os.makedirs(os.path.dirname(p), exist_ok=True)
                with open(p, "w", newline="") as f:
                    f.write(text.replace("@CASE@", case_dir))
            # the same helper module re-exported by two nested conftests (relative and absolute spelling)
            shared = os.path.join(case_dir, "ws", "shared_two")
            os.makedirs(os.path.join(case_dir, "ws", "twice_pkg"), exist_ok=True)
            os.makedirs(shared, exist_ok=True)
            open(os.path.join(shared, "__init__.py"), "w").write("")
            open(os.path.join(shared, "fx.py"), "w").write(FX % ("", "twice_a", "") + FX % ("", "twice_b", ""))
            cf = os.path.join(case_dir, "ws", "conftest.py")
            open(cf, "a").write("\nfrom shared_two.fx import *\n")
            open(os.path.join(case_dir, "ws", "twice_pkg", "conftest.py"), "w").write("from ..shared_two.fx import *\nfrom ..shared_two.fx import twice_a\n")
            open(os.path.join(case_dir, "ws", "twice_pkg", "test_twice.py"), "w").write("def test_t(twice_a, twice_b):\n    pass\n")
            for link, target in tree.meta.get("symlinks", []):
                if not os.path.lexists(os.path.join(case_dir, link)):
                    os.symlink(os.path.join(case_dir, target), os.path.join(case_dir, link))
            ops = [{"op": "scan", "path": os.path.join(case_dir, "ws")}, {"op": "dump"}]
            # an in-workspace plugin module (entry point of an editable install inside the workspace) is opened,
            # closed and opened again with its on-disk text: its fixtures stay plugin fixtures
            reopened = [rel for rel in tree.files if rel.startswith("ws/src/") and rel.endswith("/plugin.py")][:1]
            for rel in reopened:
                pth, txt = os.path.join(case_dir, rel), tree.files[rel].replace("@CASE@", case_dir)
                ops += [{"op": "analyze", "path": pth, "text": txt}, {"op": "close", "path": pth}, {"op": "analyze", "path": pth, "text": txt}, {"op": "dump"}]
            cases.append({"id": i, "ops": ops})
            metas.append((tree, case_dir))
        obs, _ = core.run_h1(h1, cases, "scan_dups", allow_hang=True)
        for i, (tree, case_dir) in enumerate(metas):
            o = obs.get(i)
            if o is None or o.get("hang") or not isinstance(o["obs"][1], dict):
                continue
            d = o["obs"][1]
            seen, dups = set(), []
            for name, ds in d["definitions"]:
                for x in ds:
                    k = (name, x["path"], x["line"], x["start"])
                    if k in seen:
                        dups.append({"definition": name, "file": x["path"][len(case_dir) + 1:], "line": x["line"]})
                    seen.add(k)
            seen = set()
            for p_, us in d["usages"]:
                for u in us:
                    k = (p_, u["name"], u["line"], u.get("start"))
                    if k in seen:
                        dups.append({"usage": u["name"], "file": p_[len(case_dir) + 1:], "line": u["line"]})
                    seen.add(k)
            if len(o["obs"]) >= 6 and isinstance(o["obs"][5], dict):
                flags = lambda dd: sorted((nm, x["path"][len(case_dir) + 1:], x["plugin"], x["third"]) for nm, ds in dd["definitions"] for x in ds
                                          if x["path"].endswith("/plugin.py") and "/ws/src/" in x["path"])
                f0, f1 = flags(d), flags(o["obs"][5])
                if f0 and f0 != f1:      # the module was indexed by the scan (it is a plugin module of a recognised install)
                    bad.append({"why": "after opening, closing and re-opening an in-workspace plugin module with its on-disk text its fixtures are classified differently "
                                       "(plugin / third-party flags) than after the scan", "after_scan": f0[:6], "after_reopen": f1[:6], "tags": tree.tags})
            if dups:
                bad.append({"why": "after scan_workspace of a fresh tree the index holds records twice (a sequential single analysis of each file holds each once)",
                            "recorded_twice": dups[:8], "files": {k: v for k, v in tree.files.items() if k.startswith("ws/") and ".venv" not in k}, "tags": tree.tags})
    finally:
        shutil.rmtree(base, ignore_errors=True)
    return len(metas), bad


def load_corpus():
    out = []
    for p in sorted(glob.glob(os.path.join(core.VERIF, "gen", "corpus", PID, "*.json"))):
        c = json.load(open(p))
        c["_name"] = os.path.basename(p)
        out.append(c)
    return out


QUESTIONS = {0: "analysed files", 1: "plugin files", 2: "definition flags (third-party / plugin)"}


def run(r):
    quick = r.tier == "quick"
    proof_ok = runner.proof_stage(r)
    n = int(os.environ.get("VERIF_CASES", 100 if quick else 800))
    seeds = [r.seed * 100000 + 14 + i for i in range(n)]
    corpus = load_corpus()
    # handler part (shared exploration with C05): fixtures of an installed plugin are indexed as third-party
    # and are never listed as project symbols by the real server
    import C05
    stdlib = set(core.tables()["stdlib_modules"])
    hbad, hstats, _ = C05.explore_handlers(r, random.Random(r.seed * 13 + 14), int(os.environ.get("VERIF_H2_WORKSPACES", 10 if quick else 60)), stdlib)
    hseen = set()
    for b in hbad:
        if not any(b["why"].startswith(x) for x in ("workspace symbols", "document symbols", "code lenses are shown", "the fixtures of the installed")) or b["why"] in hseen:
            continue
        hseen.add(b["why"])
        r.violation(dict({"property": PID, "part": "handlers"}, **b), "h2_%d" % len(hseen))
    r.notes.append("handler part: %s" % json.dumps({k: v for k, v in hstats.items() if k in ("workspaces", "workspace_symbol", "document_symbol")}))
    ndup, dup_bad = scan_duplicates(seeds[:30 if quick else 200])
    for k, b in enumerate(dup_bad[:2]):
        r.violation(dict({"property": PID, "part": "scan-duplicates", "seed": r.seed}, **b), "dup_%d" % k)
    r.notes.append("scan part: %d freshly scanned trees checked for records held twice (%d with duplicates)" % (ndup, len(dup_bad)))
    del HANGS[:]
    trees, codes = run_trees(seeds, corpus)
    listed = runner.listed_classes(PID, CLASS_BITS)
    hits = collections.Counter()
    prop_bad, corr_bad, fuel = [], [], 0
    nq = 0
    tags = collections.Counter()
    distinct = set()
    for i, (tree, case_dir, tests) in enumerate(trees):
        nq += 3 + len(tests)
        tags.update(tree.tags)
        distinct.add(tuple(sorted(set(tree.tags))))
        for (q, code) in codes.get(i, []):
            if code & 4:
                fuel += 1
            cls = [b for b in listed if code & b]
            if code & 2 and cls:
                for b in cls:
                    hits[CLASS_BITS[b]] += 1
                continue
            if code & 2:
                prop_bad.append((i, q, code))
            elif code & 1:
                corr_bad.append((i, q, code))

    def rep(i, q, code):
        tree, case_dir, tests = trees[i]
        what = QUESTIONS.get(q, "fixtures available from %s" % (tests[q - 3] if q >= 3 and q - 3 < len(tests) else "?"))
        return {"property": PID, "question": what, "code": code, "files": tree.files, "meta": tree.meta, "tags": tree.tags,
                "seed": None if i < len(corpus) else seeds[i - len(corpus)]}

    for i in HANGS[:3]:
        tree, case_dir, tests = trees[i]
        r.violation({"property": PID, "why": "scan_workspace did not return within the watchdog (60 s): the import scan does not converge on this tree",
                     "files": tree.files, "meta": tree.meta, "tags": tree.tags,
                     "seed": None if i < len(corpus) else seeds[i - len(corpus)]}, "hang_%d" % i)
    for (i, q, code) in prop_bad[:3]:
        rp = rep(i, q, code)
        rp["why"] = "the spec rejects what the real scan left behind"
        r.violation(rp, "scan_%d_%d" % (i, q))
    if corr_bad and not prop_bad:
        i, q, code = corr_bad[0]
        rp = rep(i, q, code)
        rp["broken"] = "corr:C14 (Model/ScanModel.v and the real scan disagree on the %s; the spec accepts the real scan's result on every tree explored)" % rp["question"]
        r.violation(rp, "corr", no_input=True)
    if not proof_ok and not r.violations:
        r.violation({"property": PID, "broken": "thm:PLS.Properties.%s" % PID, "detail": {k: v for k, v in r.proof.items() if k != "cone"},
                     "seed": r.seed}, "proof", no_input=True)
    for b, f in listed.items():
        r.known_lines.append("KNOWN-FINDING: property=%s %s [class %s; %d hits this run]" % (PID, f["what"], f["class"], hits[f["class"]]))
    if fuel:
        r.notes.append("model out of fuel on %d questions" % fuel)
    r.coverage = {
        "obligations": r.proof.get("statements", 0), "discharged": r.proof.get("qed", 0) if proof_ok else 0,
        "checker_cmd": "make -C coq theories/Properties/%s.vo (coqc 8.16.1, full .vo build) + Print Assumptions + hygiene grep" % PID,
        "trusted_base": runner.trusted_base(),
        "evaluations": nq, "distinct_nontrivial": len(distinct), "rule": RULE,
        "trees": len(trees), "corpus_trees": len(corpus), "known_class_hits": dict(hits), "theorem_hypothesis_unmet": fuel,
        "correspondence_failures": len(corr_bad), "input_distribution": dict(tags),
        "proof": {k: v for k, v in r.proof.items() if k != "cone"},
    }
    r.assumptions = list(ASSUMPTIONS)
    return r.finish()


def replay(r, path):
    rp = json.load(open(path))
    print(json.dumps({k: rp[k] for k in rp if k != "files"}, indent=1)[:3000])
    for n, t in sorted(rp.get("files", {}).items()):
        print("-----", n)
        print(t)
    return 1
