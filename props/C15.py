"""C15 — reported positions identify exactly the right tokens.

The real binary over stdio on generated workspaces (generator P programs as conftest.py and
test modules, with non-ASCII / CRLF / tab variants): every Location / Range of every handler
(publishDiagnostics, documentSymbol, workspace/symbol, references, definition,
implementation, prepareCallHierarchy / incoming / outgoing, inlayHint, codeLens) is
collected, tagged with what the protocol says it is (a range that marks a name, a symbol
with full and selection range, a navigation target, an anchor, a result list) and judged in
Coq by Spec/Positions.v (UTF-16 columns, token boundaries) against the documents' own text;
the names a range may mark and the definition / yield lines come from CPython's parse of
the same text, never from the server."""
import ast, collections, glob, io, json, os, random, re, shutil, sys, tempfile, tokenize, warnings

import core, runner
import coqlit as L
import pgen, extract

PID = "C15"
MODULE = "Check.C15"
VERDICT = "verdict_C15"
CLASS_BITS = {64: "K_byte_columns", 128: "K_name_not_spelled_in_literal"}
RULE = ("one evaluation = one Location / Range / Position returned by the server, judged against the text of the document it points into; "
        "distinct = distinct (handler, token kind, line features) combinations")
ASSUMPTIONS = ["documents written to disk and opened over stdio; one conftest.py and two test modules per workspace",
               "the names a range may mark and the definition / yield lines are read from CPython's ast / tokenize of the same text"]
WORD = re.compile(r"[A-Za-z_][A-Za-z_0-9]*")


# ------------------------------------------------------------------ documents
def mutate(text, rnd, tags):
    """non-ASCII text before tokens, keeping the program valid"""
    r = rnd.random()
    if r < 0.25:
        subs = [(": 'T'", ": 'Ť'"), ("(make)", "(maké)"), (" other", " öther"), ("'k'", "'κ'"), ("\"plain string\"", "\"plain 𝒔tring\"")]
        rnd.shuffle(subs)
        for a, b in subs[:rnd.randint(1, 3)]:
            if a in text:
                text = text.replace(a, b)
                tags.append("nonascii")
    elif r < 0.35:
        # a non-ASCII string argument in front of fixture names on a decorator line
        text = text.replace("usefixtures(", "usefixtures(\"é𝒙\", ", 1)
        tags.append("nonascii:mark")
    if rnd.random() < 0.1 and 'usefixtures("db"' in text:
        text = text.replace('usefixtures("db"', 'usefixtures("d" "b"', 1)
        tags.append("concat:split-name")
    try:
        with warnings.catch_warnings():
            warnings.simplefilter("ignore")
            compile(text, "p", "exec")
    except (SyntaxError, ValueError):
        return None
    return text


def u16(s):
    return len(s.encode("utf-16-le")) // 2


class Doc:
    def __init__(self, path, text):
        self.path, self.text = path, text
        self.lines = [l[:-1] if l.endswith("\r") else l for l in text.split("\n")]
        tree = ast.parse(text)
        self.defs_at = collections.defaultdict(list)      # 0-based line -> function / assigned names
        self.fixtures = []                                 # (name, func name, def line0)
        self.yield_lines = set()
        self.own_yields = collections.defaultdict(set)     # fixture name / function name -> 0-based lines of its OWN yields
        self.params_at = collections.defaultdict(list)
        self.end_line_of = {}                              # 0-based definition line -> 0-based last line
        for node in ast.walk(tree):
            if isinstance(node, (ast.FunctionDef, ast.AsyncFunctionDef)):
                self.defs_at[node.lineno - 1].append(node.name)
                self.end_line_of[node.lineno - 1] = node.end_lineno - 1
                decs = [d for d in node.decorator_list if extract.is_fixture_decorator(d)]
                if decs:
                    alias = None
                    for d in decs:
                        alias = alias or extract.fixture_name_from_decorator(d)
                    self.fixtures.append((alias or node.name, node.name, node.lineno - 1))
                    ys = set()
                    todo = list(node.body)
                    while todo:
                        n = todo.pop()
                        if isinstance(n, (ast.FunctionDef, ast.AsyncFunctionDef, ast.ClassDef, ast.Lambda)):
                            continue                       # a yield in there belongs to the nested scope
                        if isinstance(n, (ast.Yield, ast.YieldFrom)):
                            ys.add(n.lineno - 1)
                        todo.extend(ast.iter_child_nodes(n))
                    self.own_yields[alias or node.name] |= ys
                    self.own_yields[node.name] |= ys
                a = node.args
                for x in list(a.posonlyargs) + list(a.args) + list(a.kwonlyargs) + ([a.vararg] if a.vararg else []) + ([a.kwarg] if a.kwarg else []):
                    self.params_at[x.lineno - 1].append(x.arg)
            elif isinstance(node, (ast.Assign, ast.AnnAssign)):
                tg = node.targets if isinstance(node, ast.Assign) else [node.target]
                for t in tg:
                    for n in ast.walk(t):
                        if isinstance(n, ast.Name):
                            self.defs_at[node.lineno - 1].append(n.id)
                            self.end_line_of.setdefault(node.lineno - 1, node.lineno - 1)
                            v = node.value
                            if isinstance(v, ast.Call) and (extract.is_fixture_decorator(v.func) or extract.is_fixture_decorator(v)):
                                self.fixtures.append((n.id, n.id, node.lineno - 1))
            elif isinstance(node, (ast.Yield, ast.YieldFrom)):
                self.yield_lines.add(node.lineno - 1)
        # tokens
        self.tokens = []          # (line0, col16, end col16, text, kind)
        self.concat = set()
        prev = None
        try:
            for tok in tokenize.generate_tokens(io.StringIO(text).readline):
                if tok.type in (tokenize.NAME, tokenize.STRING):
                    line = tok.line
                    l0 = tok.start[0] - 1
                    if tok.start[0] == tok.end[0]:
                        self.tokens.append((l0, u16(line[:tok.start[1]]), u16(line[:tok.end[1]]), tok.string,
                                            "name" if tok.type == tokenize.NAME else "string"))
                if tok.type == tokenize.STRING and prev is not None and prev.type == tokenize.STRING:
                    self.concat.add(prev.start[0] - 1)
                    self.concat.add(tok.start[0] - 1)
                if tok.type not in (tokenize.NL, tokenize.COMMENT):
                    prev = tok
        except (tokenize.TokenError, IndentationError):
            pass

    def coq(self):
        return L.clist(["[" + "; ".join(str(ord(c)) for c in l) + "]" for l in self.lines])


def ctext(s):
    return "[" + "; ".join(str(ord(c)) for c in s) + "]"


def crange(r):
    return "(mk_range (mk_pos %d %d) (mk_pos %d %d))" % (r["start"]["line"], r["start"]["character"], r["end"]["line"], r["end"]["character"])


class Collector:
    def __init__(self, docs):
        self.docs = docs
        self.by_uri = {}
        import lsp
        for i, d in enumerate(docs):
            self.by_uri[lsp.path_to_uri(d.path)] = i
        self.obs = []          # (coq term, description dict)
        self.alias = collections.defaultdict(list)
        for d in docs:
            for (name, fn, l0) in d.fixtures:
                if fn != name:
                    self.alias[name].append(fn)
        self.kinds = collections.Counter()

    def names_for(self, words):
        out = list(words)
        for w in words:
            out += self.alias.get(w, [])
        return sorted(set(out))

    def doc_of(self, uri):
        return self.by_uri.get(uri)

    def add(self, term, **desc):
        self.obs.append((term, desc))
        self.kinds[desc["handler"] + ":" + desc["what"]] += 1

    def mark(self, handler, uri, names, r, **kw):
        d = self.doc_of(uri)
        if d is None:
            return
        self.add("OMark %d %s %s" % (d, L.clist([ctext(n) for n in names]), crange(r)), handler=handler, what="mark", uri=uri, names=names, range=r, **kw)

    def sym(self, handler, uri, names, full, sel, model=None, **kw):
        d = self.doc_of(uri)
        if d is None:
            return
        if model == "symbol":
            el = self.docs[d].end_line_of.get(sel["start"]["line"])
            m = "None" if el is None else "(Some (0, %d))" % el
        elif model == "item":
            m = "(Some (1, 0))"
        else:
            m = "None"
        self.add("OSym %d %s %s %s %s" % (d, L.clist([ctext(n) for n in names]), crange(full), crange(sel), m), handler=handler, what="symbol", uri=uri,
                 names=names, range=full, selection=sel, **kw)

    def nav(self, handler, uri, r, lines, **kw):
        d = self.doc_of(uri)
        if d is None:
            return
        self.add("ONav %d %s %s" % (d, crange(r), L.clist([str(x) for x in sorted(lines)])), handler=handler, what="target", uri=uri, range=r,
                 allowed_lines=sorted(lines), **kw)

    def anchor(self, handler, uri, names, p, **kw):
        d = self.doc_of(uri)
        if d is None:
            return
        self.add("OAnchor %d %s (mk_pos %d %d)" % (d, L.clist([ctext(n) for n in names]), p["line"], p["character"]), handler=handler, what="anchor",
                 uri=uri, names=names, position=p, **kw)

    def lst(self, handler, entries, **kw):
        ents = [(self.doc_of(u), r) for (u, r) in entries if self.doc_of(u) is not None]
        if len(ents) > 1:
            self.add("OList %s" % L.clist(["(%d, %s)" % (d, crange(r)) for d, r in ents]), handler=handler, what="list", entries=[[d, r] for d, r in ents], **kw)

    def def_lines(self, uri, names, with_yield=False):
        d = self.docs[self.doc_of(uri)]
        out = set(l0 for (n, fn, l0) in d.fixtures if n in names or fn in names)
        if with_yield:
            for n in names:
                out |= d.own_yields.get(n, set())
        return out


def as_list(x):
    if x is None:
        return []
    return x if isinstance(x, list) else [x]


def explore_workspace(srv, base, wid, rnd, tags_out, nq, fixed=None):
    """-> Collector for one workspace"""
    import lsp
    root = os.path.join(base, "w%d" % wid)
    os.makedirs(os.path.join(root, "pkg"), exist_ok=True)
    texts = []
    for k in range(3):
        if fixed is not None:
            texts.append((fixed[k], ["corpus"]))
            continue
        for _ in range(10):
            t, tags = pgen.gen_program(rnd)
            t = mutate(t, rnd, tags)
            if t is not None:
                break
        texts.append((t, tags))
    paths = [os.path.join(root, "conftest.py"), os.path.join(root, "pkg", "test_a.py"), os.path.join(root, "test_b.py")]
    docs = []
    for p, (t, tags) in zip(paths, texts):
        with open(p, "w", newline="") as f:
            f.write(t)
        docs.append(Doc(p, t))
        tags_out.update(tags)
    col = Collector(docs)
    diags = {}
    for d in docs:
        prev = None
        if fixed is None and rnd.random() < 0.35:
            # the document is first opened with a text of the same length and the same number of lines whose
            # line breaks sit elsewhere (one blank line moved), then changed to the text itself: positions must
            # be those of the CURRENT text
            import C03
            prev = C03.same_length_variant(rnd, d.text)
        if prev is not None:
            srv.open(d.path, prev)
            diags[d.path] = srv.change(d.path, d.text, 2)
            tags_out.update(["reanalysis:same-length"])
        else:
            diags[d.path] = srv.open(d.path, d.text)
    fixture_names = set(NAMES_ALL)
    for d in docs:
        for (n, fn, l0) in d.fixtures:
            fixture_names.add(n)
            fixture_names.add(fn)
    for d in docs:
        uri = lsp.path_to_uri(d.path)
        # diagnostics
        by_msg = collections.defaultdict(list)
        for dg in diags[d.path] or []:
            code = dg.get("code")
            if code == "undeclared-fixture":
                m = re.search(r"'([^']+)'", dg["message"])
                col.mark("publishDiagnostics:" + code, uri, [m.group(1)] if m else [], dg["range"])
            else:
                col.mark("publishDiagnostics:" + str(code), uri, d.defs_at.get(dg["range"]["start"]["line"], []), dg["range"])
            by_msg[(code, dg["message"])].append((uri, dg["range"]))
        for k, ents in by_msg.items():
            col.lst("publishDiagnostics", ents)
        # symbols
        syms = srv.document_symbol(d.path) or []
        for s in syms:
            col.sym("documentSymbol", uri, col.names_for([s["name"]]), s["range"], s["selectionRange"], model="symbol")
        col.lst("documentSymbol", [(uri, s["selectionRange"]) for s in syms])
        # code lens
        for cl in srv.code_lens(d.path) or []:
            col.nav("codeLens", uri, cl["range"], set(l0 for (_, _, l0) in d.fixtures))
        # inlay hints
        hints = srv.inlay_hint(d.path, {"start": {"line": 0, "character": 0}, "end": {"line": len(d.lines) + 1, "character": 0}}) or []
        for h in hints:
            col.anchor("inlayHint", uri, sorted(set(d.params_at.get(h["position"]["line"], [])) | fixture_names), h["position"])
        # position queries
        cands = []
        for (l0, c0, c1, s, kind) in d.tokens:
            words = WORD.findall(s) if kind == "string" else [s]
            if any(w in fixture_names for w in words):
                # every word of a string literal may be a (possibly undefined) fixture name with its own usage
                cands.append((l0, c0, c1, s, kind, list(words) if kind == "string" else [w for w in words if w in fixture_names]))
        rnd.shuffle(cands)
        for (l0, c0, c1, s, kind, words) in (cands if fixed is not None else cands[:nq]):
            c = rnd.randint(c0 + (1 if kind == "string" and c1 - c0 > 2 else 0), max(c0, c1 - 1))
            if kind == "string":
                # the word under the cursor decides which name the answers are about
                under = [m.group(0) for m in WORD.finditer(s) if m.start() <= c - c0 < m.end()]
                if under and "\\" not in s and s.count('"') + s.count("'") <= 2:
                    words = under
            names = col.names_for(words)
            q = {"query": {"path": d.path, "line": l0, "character": c, "token": s}}
            for loc in as_list(srv.definition(d.path, l0, c)):
                col.nav("definition", loc["uri"], loc["range"], col.def_lines(loc["uri"], names) if col.doc_of(loc["uri"]) is not None else set(), **q)
            for loc in as_list(srv.implementation(d.path, l0, c)):
                col.nav("implementation", loc["uri"], loc["range"], col.def_lines(loc["uri"], names, True) if col.doc_of(loc["uri"]) is not None else set(), **q)
            refs = as_list(srv.references(d.path, l0, c))
            for loc in refs:
                col.mark("references", loc["uri"], names, loc["range"], **q)
            col.lst("references", [(loc["uri"], loc["range"]) for loc in refs], **q)
            for it in as_list(srv.prepare_call_hierarchy(d.path, l0, c)):
                col.sym("prepareCallHierarchy", it["uri"], col.names_for([it["name"]]), it["range"], it["selectionRange"], model="item", **q)
                inc = as_list(srv.incoming_calls(it))
                for call in inc:
                    f = call["from"]
                    col.mark("incomingCalls:from", f["uri"], col.names_for([it["name"]]), f["selectionRange"], **q)
                    for fr in call["fromRanges"]:
                        col.mark("incomingCalls:fromRanges", f["uri"], col.names_for([it["name"]]), fr, **q)
                col.lst("incomingCalls", [(call["from"]["uri"], call["from"]["selectionRange"]) for call in inc], **q)
                for call in as_list(srv.outgoing_calls(it)):
                    t = call["to"]
                    col.sym("outgoingCalls:to", t["uri"], col.names_for([t["name"]]), t["range"], t["selectionRange"], model="item", **q)
                    for fr in call["fromRanges"]:
                        col.mark("outgoingCalls:fromRanges", it["uri"], col.names_for([t["name"]]), fr, **q)
    # workspace symbols (all workspaces so far; keep those of this one)
    ws = srv.workspace_symbol("") or []
    mine = [s for s in ws if col.doc_of(s["location"]["uri"]) is not None]
    for s in mine:
        col.mark("workspaceSymbol", s["location"]["uri"], col.names_for([s["name"]]), s["location"]["range"])
    col.lst("workspaceSymbol", [(s["location"]["uri"], s["location"]["range"]) for s in mine])
    return col


NAMES_ALL = pgen.NAMES + ["aliased"]


def to_term(col):
    concat = []
    for i, d in enumerate(col.docs):
        concat += ["(%d, %d)" % (i, l) for l in sorted(d.concat)]
    return "(mk_c15 %s %s %s)" % (L.clist([d.coq() for d in col.docs]), L.clist(concat), L.clist(["(%s)" % t for t, _ in col.obs]))


def run_workspaces(r, seeds, nq, fixed_docs=()):
    import lsp
    binp = core.build_binary()
    base = tempfile.mkdtemp(prefix="verif_c15_")
    cols, tags = [], collections.Counter()
    try:
        srv = lsp.Server(binp, root=base, timeout=40)
        try:
            srv.wait_for_log("Workspace scan complete", timeout=30)
            for wid, docs in enumerate(fixed_docs):
                cols.append(explore_workspace(srv, base, wid, random.Random(wid), tags, nq, fixed=docs))
            for wid, seed in enumerate(seeds):
                rnd = random.Random(seed)
                cols.append(explore_workspace(srv, base, len(fixed_docs) + wid, rnd, tags, nq))
        finally:
            try:
                srv.shutdown()
            except Exception:
                pass
    finally:
        shutil.rmtree(base, ignore_errors=True)
    return cols, tags


def run(r):
    quick = r.tier == "quick"
    proof_ok = runner.proof_stage(r)
    nws = int(os.environ.get("VERIF_CASES", 24 if quick else 150))
    seeds = [r.seed * 1000 + 15 + i for i in range(nws)]
    corpus = sorted(glob.glob(os.path.join(core.VERIF, "gen", "corpus", PID, "*.json")))
    cdocs = [json.load(open(p))["docs"] for p in corpus]
    cseeds = ["corpus:" + os.path.basename(p) for p in corpus]
    cols, tags = run_workspaces(r, seeds, 12 if quick else 25, cdocs)
    listed = runner.listed_classes(PID, CLASS_BITS)
    codes = core.eval_in_coq(PID, MODULE, VERDICT, [(i, to_term(c)) for i, c in enumerate(cols)])
    hits = collections.Counter()
    nobs, bad, kinds = 0, [], collections.Counter()
    for i, c in enumerate(cols):
        nobs += len(c.obs)
        kinds.update(c.kinds)
        for (k, code) in codes[i]:
            cls = [b for b in listed if code & b]
            if cls:
                for b in cls:
                    hits[CLASS_BITS[b]] += 1
                continue
            bad.append((i, k, code))
    names = {1: "outside the document", 2: "start after end", 4: "does not cover exactly the token", 8: "selection range outside the full range",
             16: "navigation target not on a definition / yield line", 32: "duplicate entries",
             256: "the full range differs from Model/Ranges.v (correspondence)", 64: "class K_byte_columns (not listed)",
             128: "class K_name_not_spelled_in_literal (not listed)"}
    seen = set()
    nviol = 0
    for (i, k, code) in bad:
        c = cols[i]
        desc = c.obs[k][1]
        key = (desc["handler"], code)
        if key in seen:
            continue
        seen.add(key)
        if nviol >= 4:
            break
        nviol += 1
        seed = (cseeds + seeds)[i]
        r.violation({"property": PID, "why": [v for b, v in names.items() if code & b], "code": code, "observation": desc,
                     "documents": {d.path.split("/w%d/" % i)[-1]: d.text for d in c.docs}, "seed": seed,
                     "all_failures_in_workspace": len([1 for (j, _, _) in bad if j == i])}, "pos_%d_%d" % (i, k))
    if not proof_ok and not r.violations:
        r.violation({"property": PID, "broken": "thm:PLS.Properties.%s" % PID, "detail": {k: v for k, v in r.proof.items() if k != "cone"},
                     "seed": r.seed}, "proof", no_input=True)
    for b, f in listed.items():
        r.known_lines.append("KNOWN-FINDING: property=%s %s [class %s; %d hits this run]" % (PID, f["what"], f["class"], hits[f["class"]]))
    r.coverage = {
        "obligations": r.proof.get("statements", 0), "discharged": r.proof.get("qed", 0) if proof_ok else 0,
        "checker_cmd": "make -C coq theories/Properties/%s.vo (coqc 8.16.1, full .vo build) + Print Assumptions + hygiene grep" % PID,
        "trusted_base": runner.trusted_base(),
        "evaluations": nobs, "distinct_nontrivial": len(kinds), "rule": RULE,
        "workspaces": len(cols), "corpus_workspaces": len(cseeds), "observations_by_handler": dict(kinds),
        "failing_observations_outside_classes": len(bad), "known_class_hits": dict(hits), "input_distribution": dict(tags),
        "proof": {k: v for k, v in r.proof.items() if k != "cone"},
    }
    r.assumptions = list(ASSUMPTIONS)
    return r.finish()


def replay(r, path):
    rp = json.load(open(path))
    print(json.dumps({k: rp[k] for k in rp if k != "documents"}, indent=1)[:3000])
    for n, t in rp.get("documents", {}).items():
        print("-----", n)
        print(t)
    return 1
