"""C01 — fixture resolution follows pytest's shadowing order."""
import glob, json, os

import core, runner
import wsgen
from common_ws import usage_positions

PID = "C01"
MODULE = "Check.C01"
VERDICT = "verdict_C01 [] []"
CLASS_BITS = {16: "K_import_provenance"}
NCASES = (140, 1600)
shrinkable = True
RULE = ("generator W (gen/wsgen.py): virtual workspaces, depth 0-3, per level and name a conftest that is "
        "absent/defines/overrides/star-imports/explicitly imports/pytest_plugins-declares, helper chains and cycles, "
        "invisible sibling/unimported modules, plugin and site-packages providers; go-to-definition asked at every "
        "column of every usage token and one column either side, plus direct resolution per (test module, name) and "
        "the imported-fixture set per conftest and a full dump of the index maps; a case is non-trivial when at least "
        "one conftest provides a name; distinct = distinct multiset of feature tags")
ASSUMPTIONS = ["virtual workspaces only (no file exists on disk)", "ASCII identifiers and lines",
               "rustpython and CPython agree on node ranges for the generated grammar (checked by the dump comparison)"]


def add_queries(ws, steps, stdlib):
    steps.append({"q": "dump"})
    nq = 1
    for p in sorted(ws["files"]):
        for (line, s, e, name) in usage_positions(ws["files"][p], stdlib):
            for col in range(max(0, s - 1), e + 1):
                steps.append({"q": "goto", "path": p, "line": line - 1, "col": col})
                nq += 1
        if p.endswith("conftest.py"):
            steps.append({"q": "imported", "path": p})
            nq += 1
        if "/test_" in p:
            for n in ws["names"] + ["unknown_fixture"]:
                steps.append({"q": "closest", "path": p, "name": n})
                nq += 1
    return nq


def make_case(cid, rnd, stdlib):
    ws = wsgen.gen_workspace(rnd, root="/vw%d" % (cid % 7))
    steps = wsgen.build_steps(ws)
    nq = add_queries(ws, steps, stdlib)
    return {"id": cid, "steps": steps, "tags": ws["tags"], "queries": nq}


def corpus(stdlib):
    out = []
    for p in sorted(glob.glob(os.path.join(core.VERIF, "gen", "corpus", PID, "*.json"))):
        ws = json.load(open(p))
        ws.setdefault("plugins", [])
        ws.setdefault("order", list(ws["files"]))
        steps = wsgen.build_steps(ws)
        nq = add_queries(ws, steps, stdlib)
        out.append({"id": 0, "steps": steps, "tags": ["corpus:" + os.path.basename(p)], "queries": nq})
    return out


def nontrivial(c):
    if any(t.startswith("conftest:") and t not in ("conftest:absent", "conftest:none") for t in c["tags"]) \
            or any(t.startswith("corpus:") for t in c["tags"]):
        return tuple(sorted(c["tags"]))
    return None


def run(r):
    # protocol part (exploration shared with C05): at every usage token of generated workspaces on disk the real server's
    # go-to-definition must land on an indexed fixture that hover, go-to-implementation and call-hierarchy preparation
    # also name, and the references listed on a definition must be exactly the usages whose go-to-definition lands on it
    import os, random, sys
    import core, C05
    quick = r.tier == "quick"
    stdlib = set(core.tables()["stdlib_modules"])
    bad, stats, _ = C05.explore_handlers(r, random.Random(r.seed * 19 + 1), int(os.environ.get("VERIF_H2_WORKSPACES", 12 if quick else 40)), stdlib)
    seen = set()
    for b in bad:
        if not any(x in b["why"] for x in ("go-to-definition", "references of a definition")) or b["why"] in seen:
            continue
        seen.add(b["why"])
        r.violation(dict({"property": PID, "part": "handlers"}, **b), "h2_%d" % len(seen))
    r.extra_coverage = {"handler_part": {k: v for k, v in stats.items() if k in ("workspaces", "positions", "hover", "references_inverse")}}
    return runner.drive_ws(r, sys.modules[__name__])
