"""C01 — fixture resolution follows pytest's shadowing order."""
import collections, json, os, random

import core, runner
import wsgen
from common_ws import usage_positions, evaluate

PID = "C01"


def make_case(cid, rnd, stdlib):
    ws = wsgen.gen_workspace(rnd, root="/vw%d" % (cid % 7))
    steps = wsgen.build_steps(ws)
    steps.append({"q": "dump"})
    nq = 0
    for p in sorted(ws["files"]):
        for (line, s, e, name) in usage_positions(ws["files"][p], stdlib):
            for col in range(max(0, s - 1), e + 1):
                steps.append({"q": "goto", "path": p, "line": line - 1, "col": col})
                nq += 1
        if p.endswith("conftest.py"):
            steps.append({"q": "imported", "path": p})
        if "/test_" in p:
            for n in ws["names"] + ["unknown_fixture"]:
                steps.append({"q": "closest", "path": p, "name": n})
                nq += 1
    return {"id": cid, "steps": steps, "tags": ws["tags"], "queries": nq}


def run(r):
    quick = r.tier == "quick"
    proof_ok = runner.proof_stage(r)
    stdlib = set(core.tables()["stdlib_modules"])
    h1, _ = core.build_harness()
    rnd = random.Random(r.seed)
    ncases = int(os.environ.get("VERIF_CASES", 48 if quick else 1600))
    cases = [make_case(i, rnd, stdlib) for i in range(ncases)]
    meta = evaluate(r, PID, "Check.C01", "verdict_C01 [] []", cases, stdlib, h1)
    return finish(r, cases, meta, proof_ok)


def finish(r, cases, meta, proof_ok):
    tagc = collections.Counter()
    nq = corr_bad = 0
    known_hits = collections.Counter()
    prop_fail = []
    corr_fail = []
    nontrivial = set()
    for c in cases:
        m = meta[c["id"]]
        for t in c["tags"]:
            tagc[t] += 1
        nq += c["queries"]
        if m.get("hang"):
            prop_fail.append((c, [], "hang"))
            continue
        corr, prop, known, model_bad = runner.classify(m["codes"])
        if corr:
            corr_fail.append((c, corr))
        if prop:
            prop_fail.append((c, prop, "spec"))
        for s in known:
            known_hits["C01 known class"] += 1
        key = tuple(sorted(set(c["tags"])))
        if any(t.startswith("conftest:") and t not in ("conftest:absent", "conftest:none") for t in c["tags"]):
            nontrivial.add(key)
    for (c, steps, why) in prop_fail[:5]:
        r.violation({"property": PID, "why": why, "case": c, "failing_steps": steps,
                     "obs": [meta[c["id"]]["obs"][s] for s in steps] if not meta[c["id"]].get("hang") else None,
                     "seed": r.seed}, "prop_%d" % c["id"])
    if corr_fail and not prop_fail:
        c, steps = corr_fail[0]
        r.violation({"property": PID, "broken": "corr:C01 (model and implementation disagree)", "case": c,
                     "disagreeing_steps": steps, "obs": [meta[c["id"]]["obs"][s] for s in steps], "seed": r.seed},
                    "corr_%d" % c["id"], no_input=True)
    if not proof_ok and not r.violations:
        r.violation({"property": PID, "broken": "thm:PLS.Properties.C01", "detail": r.proof, "seed": r.seed},
                    "proof", no_input=True)
    if known_hits:
        kf = core.load_known_findings()
        for f in kf["findings"]:
            if f["property"] == PID:
                r.known_lines.append("KNOWN-FINDING: property=%s %s" % (PID, f["what"]))
    r.coverage = {
        "obligations": r.proof.get("statements", 0), "discharged": r.proof.get("qed", 0),
        "checker_cmd": "make -C coq theories/Properties/C01.vo (coqc 8.16.1) + Print Assumptions",
        "trusted_base": runner.trusted_base(),
        "evaluations": nq, "distinct_nontrivial": len(nontrivial),
        "rule": "generator W (gen/wsgen.py): virtual workspaces, depth 0-3, per level and name a conftest that is absent/defines/overrides/star-imports/explicitly imports/pytest_plugins-declares, helper chains and cycles, invisible sibling/unimported modules, plugin and site-packages providers; go-to-definition asked at every column of every usage token and one column either side; a case is non-trivial when at least one conftest provides a name; distinct = distinct multiset of feature tags",
        "samples": [{"id": c["id"], "tags": c["tags"], "steps": c["steps"][:3]} for c in cases[:2]],
        "cases": len(cases), "known_class_hits": sum(known_hits.values()),
        "correspondence_failures": len(corr_fail), "input_distribution": dict(tagc),
        "proof": {k: v for k, v in r.proof.items() if k != "cone"},
    }
    r.assumptions = ["virtual workspaces only (no file exists on disk); ASCII identifiers; rustpython and CPython agree on node ranges"]
    return r.finish()
