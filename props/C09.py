"""C09 — concurrent analysis of different files is isolated.

Proof: Proofs/Conc.v (isolation for any number of threads, any interleaving of the atomic map
operations, any shared names).  Tie to the code, against the build with the instrumented
dashmap (H4):
 (B) operation conformance: for sequential analyses of generated histories the number of
     write-lock acquisitions on `definitions` and `usage_by_fixture` made by ONE
     analyze_file call must equal what the model's thread program predicts from the state
     before and after (one get_mut per key of the clean-up list, one remove_if per emptied
     vector, one entry().push per recorded item);
 (C) schedule exploration on the real code: 2-3 real threads analyse / re-analyse distinct
     files that share fixture names on one database, with pseudo-random yields and sleeps
     injected before every blocking lock acquisition (DASHMAP_CHAOS seeds); the quiescent
     index must have, per key and per file, the slices of the sequential run of the same
     analyses, no empty vector, and the usage index must mirror the per-file usage map."""
import collections, json, os, random, shutil, sys, tempfile

import core, runner
import histgen, C06
from C12 import MapNames

PID = "C09"


def slices(dump):
    """-> {(map, key, file): [entries]} for the two shared maps + per-file maps"""
    out = {}
    for name, ds in dump["definitions"]:
        for d in ds:
            out.setdefault(("definitions", name, d["path"]), []).append(json.dumps(d, sort_keys=True))
    for name, us in dump["usage_by_fixture"]:
        for u in us:
            out.setdefault(("usage_by_fixture", name, u["key_path"]), []).append(json.dumps(u["usage"], sort_keys=True))
    for p, us in dump["usages"]:
        out[("usages", p, p)] = [json.dumps(u, sort_keys=True) for u in us]
    for p, ns in dump["file_definitions"]:
        out[("file_definitions", p, p)] = sorted(ns)
    for p, ns in dump["imports"]:
        out[("imports", p, p)] = sorted(ns)
    return out


def empties(dump):
    return [("definitions", n) for n, ds in dump["definitions"] if not ds] + \
           [("usage_by_fixture", n) for n, us in dump["usage_by_fixture"] if not us]


def mirror_ok(dump):
    a = sorted(json.dumps(u, sort_keys=True) for _, us in dump["usages"] for u in us)
    b = sorted(json.dumps(u["usage"], sort_keys=True) for _, us in dump["usage_by_fixture"] for u in us)
    return a == b


def gen_conc_case(cid, rnd):
    h = histgen.gen_history(rnd, root="/vp%d" % (cid % 5))
    base = h["versions"][:h["nfiles"]]
    edits = h["versions"][h["nfiles"]:]
    # hazard: one file holds the last definition of a name and drops it while another adds it
    root = "/vp%d" % (cid % 5)
    hz_a, hz_b = root + "/pkg/test_hz_a.py", root + "/test_hz_b.py"
    fx = "import pytest\n\n@pytest.fixture\ndef only_here():\n    return 1\n\ndef test_u(only_here):\n    pass\n"
    base = base + [(hz_a, fx)]
    edits = edits + [(hz_a, "import pytest\n\ndef test_u():\n    pass\n"), (hz_b, fx), (hz_a, fx)]
    files = []
    for p, _ in edits:
        if p not in files:
            files.append(p)
    nthreads = rnd.choice([2, 2, 3])
    rnd.shuffle(files)
    groups = [files[i::nthreads] for i in range(nthreads)]
    threads = []
    for g in groups:
        ops = [{"op": rnd.choice(["analyze", "analyze", "analyze", "analyze_fresh"]) if False else "analyze", "path": p, "text": t}
               for p, t in edits if p in g]
        if ops:
            threads.append(ops)
    return {"id": cid, "base": [{"op": "analyze", "path": p, "text": t} for p, t in base], "threads": threads, "tags": h["tags"]}


def gen_hazard_case(cid, rnd, reps=12):
    """two / three files that take turns holding the ONLY definition and the only usage of a shared
    name: every re-analysis empties the shared vectors while the other thread refills them"""
    root = "/vz%d" % (cid % 3)
    with_fx = "import pytest\n\n@pytest.fixture\ndef shared_fx():\n    return 1\n\ndef test_u(shared_fx):\n    pass\n"
    without = "import pytest\n\ndef test_u():\n    pass\n"
    files = [root + "/test_z%d.py" % k for k in range(rnd.choice([2, 2, 3]))]
    threads = []
    for k, p in enumerate(files):
        ops = []
        for i in range(reps):
            ops.append({"op": "analyze", "path": p, "text": (with_fx if (i + k) % 2 == 0 else without) + "\n" * (i % 3)})
        ops.append({"op": "analyze", "path": p, "text": with_fx if k % 2 == 0 else without})
        threads.append(ops)
    base = [{"op": "analyze", "path": files[0], "text": with_fx}]
    return {"id": cid, "base": base, "threads": threads, "tags": ["hazard"]}


def gen_usage_hazard_case(cid, rnd, reps=8):
    """files that take turns being the ONLY user of many names (no definitions involved): each
    re-analysis empties the shared usage vectors of the reverse index while another thread records
    its first usages of the same names (seed S69: check under a read lock, remove later)"""
    root = "/vu%d" % (cid % 3)
    nn = rnd.choice([20, 40])
    users = "def test_u(%s):\n    pass\n" % ", ".join("u_%d" % j for j in range(nn))
    none = "def test_u():\n    pass\n"
    files = [root + "/test_u%d.py" % k for k in range(rnd.choice([2, 3]))]
    threads = []
    for k, p in enumerate(files):
        ops = [{"op": "analyze", "path": p, "text": (users if (i + k) % 2 == 0 else none) + "\n" * (i % 3)} for i in range(reps)]
        ops.append({"op": "analyze", "path": p, "text": users if k % 2 == 0 else none})
        threads.append(ops)
    return {"id": cid, "base": [{"op": "analyze", "path": files[0], "text": users}], "threads": threads, "tags": ["usage-hazard"]}


def gen_interleave_case(cid, rnd, reps=4):
    """several files that each request the SAME fixture many times, analysed concurrently and then re-analysed: the
    pushes of different files into one per-name vector interleave ([A, B, A, B, ...]), and a clean-up that assumes
    its own entries are contiguous removes the entries of the other files (seed S85)"""
    root = "/vi%d" % (cid % 3)
    nuse = rnd.choice([6, 10])
    files = [root + "/mod_%d/test_i%d.py" % (k, k) for k in range(rnd.choice([3, 4]))]

    def text(k, i):
        return "".join("def test_%d_%d(shared_db):\n    pass\n\n" % (k, j) for j in range(nuse)) + "\n" * i
    threads = [[{"op": "analyze", "path": p, "text": text(k, i)} for i in range(reps)] for k, p in enumerate(files)]
    base = [{"op": "analyze", "path": root + "/conftest.py", "text": "import pytest\n\n@pytest.fixture\ndef shared_db():\n    return 1\n"}]
    return {"id": cid, "base": base, "threads": threads, "tags": ["interleaved-usages"]}


def gen_fresh_names_case(cid, rnd, reps=8):
    """several files that all define the SAME names and all switch, round after round, between
    two disjoint sets of names: in every round the new set is absent from the per-name maps and
    is defined for the first time by all threads at once (seed S27: get_mut-then-insert)"""
    root = "/vy%d" % (cid % 3)
    nfiles = rnd.choice([2, 3, 3])
    nnames = rnd.choice([6, 10])

    def text(prefix, k):
        return "import pytest\n\n" + "".join("@pytest.fixture\ndef %s_%d():\n    return %d\n\n" % (prefix, j, k) for j in range(nnames))
    files = [root + "/pkg_%d/conftest.py" % k for k in range(nfiles)]
    threads = [[{"op": "analyze", "path": p, "text": text("fa" if i % 2 == 0 else "fb", k)} for i in range(reps)] for k, p in enumerate(files)]
    return {"id": cid, "base": [], "threads": threads, "tags": ["fresh-names"]}


def gen_fresh_usage_names_case(cid, rnd, reps=8):
    """the usage side of the same hazard: several test modules that all NAME the same fixtures - in a module-level
    `pytestmark = ...usefixtures(...)`, a decorator, plain parameters - and switch, round after round, between two
    disjoint sets of names: in every round every name is absent from the name -> usages map and is entered for
    the first time by all threads at once"""
    root = "/vz%d" % (cid % 3)
    nfiles = rnd.choice([2, 3])
    nnames = rnd.choice([12, 30])
    form = rnd.choice(["pytestmark", "pytestmark-list", "decorator", "params"])

    def text(prefix, k):
        names = ["%s_%d" % (prefix, j) for j in range(nnames)]
        if k % 2:
            names.reverse()
        q = ", ".join('"%s"' % n for n in names)
        if form == "pytestmark":
            return "import pytest\npytestmark = pytest.mark.usefixtures(%s)\n\ndef test_u():\n    pass\n" % q
        if form == "pytestmark-list":
            return "from pytest import mark\npytestmark = [mark.django_db, mark.usefixtures(%s)]\n\ndef test_u():\n    pass\n" % q
        if form == "decorator":
            return "import pytest\n\n@pytest.mark.usefixtures(%s)\ndef test_u():\n    pass\n" % q
        return "def test_u(%s):\n    pass\n" % ", ".join(names)
    files = [root + "/pkg_%d/test_u.py" % k for k in range(nfiles)]
    threads = [[{"op": "analyze", "path": p, "text": text("ua" if i % 2 == 0 else "ub", k)} for i in range(reps)] for k, p in enumerate(files)]
    return {"id": cid, "base": [], "threads": threads, "tags": ["fresh-usage-names:" + form]}


def run_conc(h4, cases, seeds, tmp):
    """each case under every chaos seed, plus one sequential reference"""
    ref_cases = [{"id": c["id"], "ops": c["base"] + [o for t in c["threads"] for o in t] + [{"op": "dump"}]} for c in cases]
    inp, outp = os.path.join(tmp, "ref.in.json"), os.path.join(tmp, "ref.out.json")
    json.dump(ref_cases, open(inp, "w"))
    core.sh([h4, inp, outp], timeout=1200)
    ref = {r["id"]: r for r in json.load(open(outp))}
    results = []
    par_cases = [{"id": c["id"], "ops": c["base"] + [{"op": "par_analyze", "threads": c["threads"]}]} for c in cases]
    inp = os.path.join(tmp, "par.in.json")
    json.dump(par_cases, open(inp, "w"))
    for seed in seeds:
        outp = os.path.join(tmp, "par.%d.out.json" % seed)
        rc, out = core.sh([h4, inp, outp], timeout=1200, env={"DASHMAP_CHAOS": str(seed), "H1_CASE_TIMEOUT_S": "60"})
        got = {r["id"]: r for r in json.load(open(outp))} if os.path.exists(outp) else {}
        for c in cases:
            g = got.get(c["id"])
            if g is None or g.get("hang"):
                results.append((c, seed, "hang: the concurrent analyses did not finish within 60 s", None))
                continue
            d = g["obs"][-1]
            if isinstance(d, dict) and "panic" in d:
                results.append((c, seed, "panic: %s" % d["panic"], None))
                continue
            rd = ref[c["id"]]["obs"][-1]
            s1, s2 = slices(d), slices(rd)
            diff = [k for k in sorted(set(s1) | set(s2)) if s1.get(k) != s2.get(k)]
            why = None
            if diff:
                why = "slices differ from the sequential run at %s" % (diff[:3],)
            elif empties(d):
                why = "a key is left with an empty vector: %s" % (empties(d)[:3],)
            elif not mirror_ok(d):
                why = "usage_by_fixture does not mirror usages"
            results.append((c, seed, why, {"concurrent": {str(k): s1.get(k) for k in diff[:3]}, "sequential": {str(k): s2.get(k) for k in diff[:3]}} if why else None))
    return results


def run_conformance(h4, rnd, n, tmp, nfields):
    """-> (number of analyses checked, mismatches)"""
    log = os.path.join(tmp, "oplog.txt")
    cases = []
    for i in range(n):
        h = histgen.gen_history(rnd, root="/vo%d" % (i % 3))
        ops = []
        for k, (p, t) in enumerate(h["versions"]):
            ops += [{"op": "dump"}, {"op": "mark", "text": "B %d %d" % (i, k)},
                    {"op": "analyze", "path": p, "text": t}, {"op": "mark", "text": "E %d %d" % (i, k)}]
        ops.append({"op": "dump"})
        cases.append({"id": i, "ops": ops, "versions": h["versions"]})
    inp, outp = os.path.join(tmp, "conf.in.json"), os.path.join(tmp, "conf.out.json")
    json.dump([{"id": c["id"], "ops": c["ops"]} for c in cases], open(inp, "w"))
    core.sh([h4, inp, outp], timeout=1200, env={"DASHMAP_OPLOG": log, "DASHMAP_LOCKLOG": log})
    res = {r["id"]: r for r in json.load(open(outp))}
    names = MapNames(nfields)
    names.learn(log)
    ids = names.table(log)
    counts, cur = {}, None
    for line in open(log, errors="replace"):
        if line.startswith("MARK B"):
            cur = tuple(line.split()[2:4])
            counts[cur] = collections.Counter()
        elif line.startswith("MARK E"):
            cur = None
        elif line.startswith("A ") and cur is not None:
            f = line.split()
            counts[cur][(ids.get(int(f[-2]), 99), int(f[-1]))] += 1
    bad, checked = [], 0
    for c in cases:
        obs = res[c["id"]]["obs"]
        for k, (p, t) in enumerate(c["versions"]):
            before, after = obs[4 * k], obs[4 * k + 4]
            got = counts.get((str(c["id"]), str(k)), collections.Counter())
            valid = C06.is_valid(t)
            if not valid:
                exp_u = exp_d = 0
            else:
                ub = dict(before["usage_by_fixture"])
                emptied_u = sum(1 for n, us in ub.items() if us and all(u["key_path"] == p for u in us))
                rec_u = sum(len(us) for q, us in after["usages"] if q == p)
                exp_u = len(ub) + emptied_u + rec_u
                fd = dict(before["file_definitions"]).get(p, [])
                db = dict(before["definitions"])
                emptied_d = sum(1 for n in fd if db.get(n) and all(d["path"] == p for d in db[n]))
                rec_d = sum(1 for n, ds in after["definitions"] for d in ds if d["path"] == p)
                exp_d = len(fd) + emptied_d + rec_d
            checked += 1
            if got[(3, 1)] != exp_u or got[(0, 1)] != exp_d:
                bad.append({"file": p, "text": t, "usage_by_fixture_writes": [got[(3, 1)], exp_u], "definitions_writes": [got[(0, 1)], exp_d]})
    return checked, bad


def run(r):
    quick = r.tier == "quick"
    proof_ok = runner.proof_stage(r)
    h4, _ = core.build_h4()
    rnd = random.Random(r.seed)
    tmp = tempfile.mkdtemp(prefix="verif_c09_")
    try:
        nconf, conf_bad = run_conformance(h4, rnd, 6 if quick else 80, tmp, 14)
        cases = [gen_conc_case(i, rnd) for i in range(24 if quick else 300)]
        cases += [gen_hazard_case(1000 + i, rnd) for i in range(12 if quick else 100)]
        cases += [gen_fresh_names_case(2000 + i, rnd) for i in range(8 if quick else 60)]
        cases += [gen_usage_hazard_case(3000 + i, rnd) for i in range(6 if quick else 40)]
        cases += [gen_interleave_case(4000 + i, rnd) for i in range(6 if quick else 40)]
        cases += [gen_fresh_usage_names_case(5000 + i, rnd) for i in range(12 if quick else 60)]
        seeds = [r.seed * 100 + k for k in range(6 if quick else 30)]
        results = run_conc(h4, cases, seeds, tmp)
    finally:
        shutil.rmtree(tmp, ignore_errors=True)
    # the parallel workspace scan itself, on real trees: no record of any file duplicated (shared with C14)
    import C14
    ndup, dup_bad = C14.scan_duplicates([r.seed * 1000 + 9 + k for k in range(24 if quick else 150)])
    for k, b in enumerate(dup_bad[:2]):
        r.violation(dict({"property": PID, "part": "scan-duplicates", "seed": r.seed}, **b), "dup_%d" % k)
    r.notes.append("scan part: %d freshly scanned trees (parallel scan_workspace) checked for records held twice (%d with duplicates)" % (ndup, len(dup_bad)))
    fails = [x for x in results if x[2]]
    for k, (c, seed, why, detail) in enumerate(sorted(fails, key=lambda x: sum(len(t) for t in x[0]["threads"]))[:3]):
        r.violation({"property": PID, "why": "after concurrent analyses of distinct files (real threads, chaos seed %d): %s" % (seed, why),
                     "base": c["base"], "threads": c["threads"], "detail": detail, "chaos_seed": seed,
                     "replay_hint": "DASHMAP_CHAOS=%d h4 <case with op par_analyze>; the interleaving is pseudo-random per thread, repeat if needed" % seed,
                     "seed": r.seed}, "conc_%d" % k)
    if conf_bad and not r.violations:
        r.violation({"property": PID, "broken": "corr:C09/program (the write-lock acquisitions of one analyze_file on the shared per-name maps are not those of "
                     "the model's thread program)", "first": conf_bad[0], "count": len(conf_bad), "seed": r.seed}, "corr", no_input=True)
    if not proof_ok and not r.violations:
        r.violation({"property": PID, "broken": "thm:PLS.Properties.C09", "detail": {k: v for k, v in r.proof.items() if k != "cone"}, "seed": r.seed},
                    "proof", no_input=True)
    tagc = collections.Counter("threads:%d" % len(c["threads"]) for c in cases)
    r.coverage = {
        "obligations": r.proof.get("statements", 0), "discharged": r.proof.get("qed", 0) if proof_ok else 0,
        "checker_cmd": "make -C coq theories/Properties/C09.vo (coqc 8.16.1, full .vo build) + Print Assumptions + hygiene grep",
        "trusted_base": runner.trusted_base() + [
            "atomicity of each DashMap call (its shard lock) and the memory model: trusted, not modelled",
            "the instrumented dashmap copy (yields / sleeps before blocking acquisitions, per-acquisition log)",
            "real OS scheduling is sampled (chaos seeds), the theorem covers all interleavings of the modelled operations"],
        "evaluations": len(results) + nconf, "distinct_nontrivial": len(set((c["id"], s) for c, s, _, _ in results if len(c["threads"]) >= 2)),
        "rule": "one evaluation = one concurrent run (2-3 real threads, one chaos seed) of the re-analyses of a generated history partitioned by file "
                "(shared fixture names, plus a file dropping the last definition of a name while another adds it), compared slice by slice with the "
                "sequential run; or one sequential analyze_file whose write-lock counts are compared with the model's program; non-trivial = at least "
                "two threads; distinct = (case, seed)",
        "samples": [{"threads": [[(o["path"], len(o["text"])) for o in t] for t in c["threads"]]} for c in cases[:2]],
        "concurrent_runs": len(results), "conformance_analyses": nconf, "conformance_mismatches": len(conf_bad),
        "input_distribution": dict(tagc), "proof": {k: v for k, v in r.proof.items() if k != "cone"},
    }
    r.assumptions = ["undeclared-fixture records are excluded (their computation reads other files' definitions at several instants; C06 states what holds for them)",
                     "file_cache of other files is outside the statement once the cache limit is exceeded (eviction is C07's subject)"]
    return r.finish()


def replay(r, path):
    rp = json.load(open(path))
    if "threads" not in rp:
        print(json.dumps(rp)[:1500])
        return 1
    h4, _ = core.build_h4()
    tmp = tempfile.mkdtemp(prefix="verif_c09r_")
    try:
        case = {"id": 0, "base": rp["base"], "threads": rp["threads"]}
        res = run_conc(h4, [case], [rp.get("chaos_seed", 1) + k for k in range(20)], tmp)
    finally:
        shutil.rmtree(tmp, ignore_errors=True)
    bad = [x for x in res if x[2]]
    print("%d of %d runs violate" % (len(bad), len(res)), bad[0][2] if bad else "")
    return 1 if bad else 0
