"""C03 — what the index records for a file is what the file says (first stage: correspondence)."""
import glob, json, os, random, sys

import core, runner
import coqlit as L
import pgen, py2coq

PID = "C03"
MODULE = "Check.C03"
VERDICT = "verdict_C03"
CLASS_BITS = {16: "K_yield_forms", 128: "K_direct_parametrize"}
NCASES = (160, 2000)
shrinkable = False
RULE = ("generator P (gen/pgen.py): modules over the documented forms; the real analyze_file (rustpython) against the Coq "
        "analyzer model run on CPython's tree of the same text; distinct = distinct tag multiset")
ASSUMPTIONS = ["virtual paths", "rustpython and CPython agree on node ranges for the generated grammar"]

CONFTEST = "import pytest\n\n" + "".join("@pytest.fixture\ndef %s():\n    return 1\n\n" % n for n in pgen.NAMES[:4])


def make_case(cid, rnd, stdlib):
    text, tags = pgen.gen_program(rnd)
    root = "/vp%d" % (cid % 3)
    steps = [{"op": "analyze", "path": root + "/conftest.py", "text": CONFTEST},
             {"op": "analyze", "path": root + "/pkg/test_mod.py", "text": text}, {"q": "dump"}]
    if rnd.random() < 0.3:
        # the module is analysed a first time with a text of the SAME byte length whose line breaks
        # sit elsewhere (one blank line moved), then with the text itself: whatever is cached per
        # file between the two analyses must not leak into what is recorded for the second
        prev = same_length_variant(rnd, text)
        if prev is not None:
            steps.insert(1, {"op": "analyze", "path": root + "/pkg/test_mod.py", "text": prev})
            tags = tags + ["reanalysis:same-length"]
    return {"id": cid, "steps": steps, "tags": tags, "queries": 1}


def same_length_variant(rnd, text):
    import warnings
    lines = text.split("\n")
    blanks = [i for i, l in enumerate(lines[:-1]) if l.strip() == ""]
    for _ in range(8):
        if not blanks:
            return None
        i = rnd.choice(blanks)
        j = rnd.randrange(1, len(lines) - 1)
        if abs(i - j) < 2:
            continue
        moved = lines[:i] + lines[i + 1:]
        j2 = j if j < i else j - 1
        cand = "\n".join(moved[:j2] + [lines[i]] + moved[j2:])
        if len(cand.encode()) != len(text.encode()) or cand == text:
            continue
        try:
            with warnings.catch_warnings():
                warnings.simplefilter("ignore")
                compile(cand, "p", "exec")
            return cand
        except (SyntaxError, ValueError):
            continue
    return None


def to_coq(case, obs_list, stdlib):
    ids = core.text_ids(case)
    steps, idx, panics = [], [], []
    target = case["steps"][-2]
    dump = None
    for i, (st, ob) in enumerate(zip(case["steps"], obs_list)):
        if isinstance(ob, dict) and "panic" in ob:
            panics.append((i, ob["panic"]))
            continue
        if st.get("op") == "analyze":
            steps.append("Op (OAnalyze true %s (facts_of %d %s %s))" % (
                L.cpath(st["path"]), ids[st["text"]], py2coq.ctext(st["text"]), py2coq.cmodule(st["text"])))
        else:
            steps.append(core.coq_step(st, ob, ids, stdlib))
            dump = ob
        idx.append(i)
    defs, uses = [], []
    if dump is not None:
        for name, ds in dump["definitions"]:
            defs += [d for d in ds if d["path"] == target["path"]]
        for p_, us in dump["usages"]:
            if p_ == target["path"]:
                uses += [(u["name"], u["line"]) for u in us]
    c03 = "(mk_c03 %s %d %s %s %s %s)" % (
        L.cpath(target["path"]), ids[target["text"]], py2coq.ctext(target["text"]), py2coq.cmodule(target["text"]),
        L.clist([L.cfdef(d) for d in defs]), L.clist(["(%s, %d)" % (L.cstr(n), l) for n, l in uses]))
    return "((mk_wcase [] [] %s), %s)" % (L.clist(steps), c03), idx, panics


def corpus(stdlib):
    out = []
    for p in sorted(glob.glob(os.path.join(core.VERIF, "gen", "corpus", PID, "*.json"))):
        text = json.load(open(p))["text"]
        steps = [{"op": "analyze", "path": "/vq/conftest.py", "text": CONFTEST},
                 {"op": "analyze", "path": "/vq/pkg/test_mod.py", "text": text}, {"q": "dump"}]
        out.append({"id": 0, "steps": steps, "tags": ["corpus:" + os.path.basename(p)], "queries": 1})
    return out


def nontrivial(c):
    return tuple(sorted(set(c["tags"]))) if c["tags"] else None


def run(r):
    return runner.drive_ws(r, sys.modules[__name__])
