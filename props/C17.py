"""C17 — undeclared-fixture warnings are precise and their quick fix works.

Part 1 (flags): generated modules (generator P) analysed below a conftest that defines some
fixtures itself and imports others; the undeclared records of the real index are compared
with the Coq model (Analyzer body scan + Index.flagged) and judged by the spec
(Spec/Undeclared.v: covered positions by generic traversal, earlier-bound locals,
module-level names, visibility by Spec/Pytest.v).
Part 2 (edits): the real binary over stdio; for every published undeclared-fixture
diagnostic the offered quick fix, and for body completions the additional parameter edit,
are applied to the text; the result must parse (CPython), the fixture must have become a
parameter of the SAME function, no other line may change, and after re-sending the text
the warning must be gone."""
import ast, collections, glob, json, os, random, shutil, sys, tempfile

import core, runner
import coqlit as L
import pgen, py2coq

PID = "C17"
MODULE = "Check.C17"
VERDICT = "verdict_C17"
CLASS_BITS = {16: "K_import_visible", 32: "K_defined_later"}
NCASES = (130, 1500)
RULE = ("part 1: generator P modules (test / fixture bodies with every statement and expression form around fixture names, every "
        "binding form for locals) below a conftest that defines db / client / fx_a / cls and star-imports srv, beside a sibling directory pk/ whose conftest defines cfg; one evaluation = the "
        "undeclared records of one module; part 2: one evaluation = one quick fix or completion edit applied and re-parsed; "
        "distinct = distinct tag multiset / distinct signature shape")
ASSUMPTIONS = ["virtual paths (part 1)", "documents sent over stdio, not on disk (part 2)"]

HELPERS = ("import pytest\n\n@pytest.fixture\ndef srv():\n    return 1\n\n\n@pytest.fixture\ndef db():\n    return 0\n"
           )     # an ordinary module, analysed FIRST, that also defines a name the conftest defines (db)
SIBLING = "import pytest\n\n@pytest.fixture\ndef cfg():\n    return 1\n"     # in <root>/pk: a sibling of <root>/pkg whose name is a prefix of it
CONFTEST = "import pytest\nfrom .helpers import *\n\n" + "".join("@pytest.fixture\ndef %s():\n    return 1\n\n" % n for n in ["db", "client", "fx_a", "cls"])


def make_case(cid, rnd, stdlib):
    text, tags = pgen.gen_program(rnd)
    root = "/vu%d" % (cid % 3)
    steps = [{"op": "analyze", "path": root + "/helpers.py", "text": HELPERS},
             {"op": "analyze", "path": root + "/conftest.py", "text": CONFTEST},
             {"op": "analyze", "path": root + "/pk/conftest.py", "text": SIBLING},
             {"op": "analyze", "path": root + "/pkg/test_mod.py", "text": text},
             {"q": "undeclared", "path": root + "/pkg/test_mod.py"}]
    return {"id": cid, "steps": steps, "tags": tags, "queries": 1}


def corpus(stdlib):
    out = []
    for p in sorted(glob.glob(os.path.join(core.VERIF, "gen", "corpus", PID, "*.json"))):
        c = json.load(open(p))
        if "text" not in c:
            continue
        steps = [{"op": "analyze", "path": "/vu/helpers.py", "text": HELPERS},
                 {"op": "analyze", "path": "/vu/conftest.py", "text": CONFTEST},
                 {"op": "analyze", "path": "/vu/pk/conftest.py", "text": SIBLING},
                 {"op": "analyze", "path": "/vu/pkg/test_mod.py", "text": c["text"]},
                 {"q": "undeclared", "path": "/vu/pkg/test_mod.py"}]
        out.append({"id": 0, "steps": steps, "tags": ["corpus:" + os.path.basename(p)], "queries": 1})
    return out


def to_coq(case, obs_list, stdlib):
    ids = core.text_ids(case)
    steps, idx, panics = [], [], []
    target = case["steps"][-2]
    und = []
    for i, (st, ob) in enumerate(zip(case["steps"], obs_list)):
        if isinstance(ob, dict) and "panic" in ob:
            panics.append((i, ob["panic"]))
            continue
        if st.get("op") == "analyze":
            steps.append("Op (OAnalyze true %s (facts_of %d %s %s))" % (
                L.cpath(st["path"]), ids[st["text"]], py2coq.ctext(st["text"]), py2coq.cmodule(st["text"])))
            idx.append(i)
        else:
            und = ob
            idx.append(i)
    try:
        tree = ast.parse(target["text"])
        parsed = py2coq.cblock(tree.body)
    except (SyntaxError, ValueError):
        parsed = "[]"
    c17 = "(mk_c17 %s %s %s)" % (L.cpath(target["path"]), parsed, L.clist([L.cundecl(u, target["path"]) for u in und]))
    return "((mk_wcase [] [] %s), %s)" % (L.clist(steps), c17), [len(case["steps"]) - 1], panics


def nontrivial(c):
    return tuple(sorted(set(c["tags"]))) if any(t.startswith("body:") for t in c["tags"]) else None


def run(r):
    quick = r.tier == "quick"
    core.coq_make(["theories/Check/C17.vo"])
    rnd = random.Random(r.seed + 1717)
    stats, bad, kcases = explore_edits(r, rnd, int(os.environ.get("VERIF_EDIT_DOCS", 30 if quick else 250)))
    for k, b in enumerate(bad[:3]):
        r.violation(dict({"property": PID, "part": "edits"}, **b), "edit_%d" % k)
    # the edits that are right must also be the model's insertion (Model/ParamEdit.v)
    terms = [(i, "(%s, %s, %s)" % (c["before"], L.cstr(c["x"]), c["after"])) for i, c in enumerate(kcases)]
    codes = core.eval_in_coq("C17_edits", MODULE, "verdict_edit", terms)
    sterms = [(i, "(%s, %d%%nat, %d%%nat)" % (L.clist(["%d%%N" % b for b in c["bytes"]]), c["name_start"], c["impl"])) for i, c in enumerate(scases)]
    scodes = core.eval_in_coq("C17_star", MODULE, "verdict_star", sterms) if sterms else {}
    sdiffer = [scases[i] for i in sorted(scodes) if scodes[i]]
    if sdiffer and not bad:
        c = sdiffer[0]
        r.violation(dict({"property": PID, "broken": "corr:C17 (Model/ParamEdit.v star_start and the offset the server inserts at differ for a starred first parameter)"},
                         **{k: c[k] for k in ("function", "text", "edits", "name_start", "impl")}), "star_corr", no_input=True)
    r.notes.append("text level: %d insertions in front of a starred first parameter compared with Model/ParamEdit.v star_start (%d differ)" % (len(scases), len(sdiffer)))
    differs = [kcases[i] for i in sorted(codes) if codes[i] and codes[i][0][1] & 1]
    invalid = [kcases[i] for i in sorted(codes) if codes[i] and codes[i][0][1] & 2]
    for k, c in enumerate(invalid[:2]):
        r.violation(dict({"property": PID, "part": "edits", "why": "the parameter list after the edit breaks Python's parameter order"}, **c), "edit_order_%d" % k)
    if differs and not bad and not invalid:
        c = differs[0]
        r.violation(dict({"property": PID, "broken": "corr:C17 (Model/ParamEdit.v insert_after_last_pos and the edit the server offers produce "
                          "different parameter lists; every edit explored parsed, added the parameter to the right function and cleared the warning)"}, **c),
                    "edit_corr", no_input=True)
    shapes = sorted(k[6:] for k in stats if k.startswith("shape:"))
    r.notes.append("part 2: %d undeclared-fixture diagnostics, %d quick fixes and %d completion parameter edits applied, re-parsed by CPython and "
                   "re-analysed; %d judged wrong; %d parameter lists compared with Model/ParamEdit.v (%d differ); %d distinct signature shapes; "
                   "no quick fix offered: %d, no completion edit: %d"
                   % (stats["diagnostics"], stats["quickfix_applied"], stats["completion_edit_applied"], len(bad), len(kcases), len(differs),
                      len(shapes), sum(v for k, v in stats.items() if k.startswith("no_quickfix")),
                      sum(v for k, v in stats.items() if k.startswith("no_completion_edit"))))
    r.extra_coverage = {"evaluations": stats["quickfix_applied"] + stats["completion_edit_applied"], "distinct_nontrivial": len(shapes),
                        "edit_shapes": shapes, "edit_stats": dict(stats), "parameter_lists_compared_with_model": len(kcases)}
    return runner.drive_ws(r, sys.modules[__name__])


def replay(r, path):
    rp = json.load(open(path))
    print(json.dumps({k: rp[k] for k in rp if k not in ("lib",)})[:3000])
    return 1


# ------------------------------------------------------------------ part 2: the edits
SIG_FIX = ["db", "client", "fx_a"]


def gen_edit_doc(rnd):
    """a module whose functions each use one visible fixture without declaring it, with every
    signature shape; -> (text, [(function name, fixture)])"""
    out, expect = ["import pytest", ""], []
    k = [0]

    def fn(ind, in_class):
        k[0] += 1
        fx = rnd.choice(SIG_FIX)
        name = "test_s%d" % k[0]
        is_fixture = rnd.random() < 0.25
        if is_fixture:
            name = "fxs%d" % k[0]
            out.append(ind + rnd.choice(["@pytest.fixture", "@pytest.fixture()", "@pytest.fixture(scope=\"module\")"]))
        elif rnd.random() < 0.2:
            out.append(ind + "@pytest.mark.skip")
        kw = "async def" if rnd.random() < 0.2 else "def"
        fmt = lambda n, pats: rnd.choice(pats).format(n=n)
        pos = [fmt(n, ["{n}", "{n}: int", "{n}: 'X'"]) for n in ["a", "b"] if rnd.random() < 0.4]
        posd = [fmt(n, ["{n}=None", "{n}: T = (1, 2)", "{n}=f(1, x=2)"]) for n in ["cfg_x", "opt"] if rnd.random() < 0.3]
        tail = []
        star = rnd.choice([None, None, None, "*args", "*", "*rest: int"])
        if star:
            kws = [fmt(n, ["{n}", "{n}=1", "{n}: int = 2"]) for n in ["k1", "k2"] if rnd.random() < 0.5]
            if star == "*" and not kws:
                kws = ["k1=None"]
            tail = [star] + kws
        if rnd.random() < 0.2:
            tail.append(rnd.choice(["**kw", "**kwargs: int"]))
        head = (["self"] if in_class else []) + pos + posd
        if head and rnd.random() < 0.15:
            head.insert(rnd.randint(1, len(head)), "/")
        ps = head + tail
        first_starred = False
        if not in_class and rnd.random() < 0.15:
            # the FIRST parameter is a starred one: the new name goes in front of the star(s)
            ps = rnd.choice([["**kw"], ["**kwargs: int"], ["*args"], ["*args", "**kw"], ["*", "k1=None"], ["*", "k1", "**kw"], ["*rest: int", "k2=1"],
                             ["*\targs"], ["**\tkw"], ["* args", "** kw"], ["*\t rest: int", "k2=1"]])
            pos, posd, head = [], [], []
            star = next((x for x in ps if x.startswith("*") and not x.startswith("**")), None)
            tail = ps
            first_starred = True
        ret = rnd.choice(["", "", " -> None", " -> int", " -> dict[str, int]", " -> \"T\""])
        shape = rnd.choice(["one", "one", "one", "multi", "multi_trailing", "space", "comment", "empty_multi", "multi_comment"])
        if shape == "one" or (shape in ("multi", "multi_trailing") and not ps):
            out.append("%s%s %s(%s)%s:" % (ind, kw, name, ", ".join(ps), ret))
        elif shape == "space":
            out.append("%s%s %s( %s )%s :" % (ind, kw, name, ", ".join(ps), ret))
        elif shape == "comment":
            out.append("%s%s %s(%s)%s:  # trailing (comment):" % (ind, kw, name, ", ".join(ps), ret))
        elif shape == "multi_comment" and ps:
            # a comment (or only blanks) behind the opening parenthesis of a multi-line signature
            out.append("%s%s %s(%s\n%s    %s\n%s)%s:" % (ind, kw, name, rnd.choice(["  # noqa: ANN002", " # type: ignore", "  "]), ind,
                                                         (",\n" + ind + "    ").join(ps), ind, ret))
        elif shape == "multi_comment":
            out.append("%s%s %s(  # nothing yet\n%s)%s:" % (ind, kw, name, ind, ret))
        elif shape == "empty_multi":
            out.append("%s%s %s(\n%s)%s:" % (ind, kw, name, ind, ret))
            ps = []
        else:
            trail = "," if shape == "multi_trailing" else ""
            out.append("%s%s %s(\n%s    %s%s\n%s)%s:" % (ind, kw, name, ind, (",\n" + ind + "    ").join(ps), trail, ind, ret))
        body = rnd.choice(["x = {f}.value", "{f}.go()", "return {f}", "assert {f}", "y = f({f})"])
        out.append(ind + "    " + body.format(f=fx))
        out.append("")
        expect.append((name, fx, shape + ("|ret" if ret else "") + ("|pos" if pos or in_class else "") + ("|posd" if posd else "")
                       + ("|star" if star else "") + ("|dstar" if any(x.startswith("**") for x in tail) else "")
                       + ("|posonly" if "/" in head else "") + ("|first-starred" if first_starred else "")))

    for _ in range(rnd.randint(2, 4)):
        if rnd.random() < 0.25:
            out.append("class TestC%d:" % k[0])
            for _ in range(rnd.randint(1, 2)):
                fn("    ", True)
        else:
            fn("", False)
    return "\n".join(out) + "\n", expect


def apply_edits(text, edits):
    """LSP TextEdits (UTF-16 columns; the generated documents are ASCII) -> new text"""
    lines = text.split("\n")
    offs = [0]
    for l in lines:
        offs.append(offs[-1] + len(l) + 1)

    def off(p):
        if p["line"] >= len(lines):
            return len(text)
        return min(offs[p["line"]] + p["character"], offs[p["line"]] + len(lines[p["line"]]))
    for e in sorted(edits, key=lambda e: (e["range"]["start"]["line"], e["range"]["start"]["character"]), reverse=True):
        a, b = off(e["range"]["start"]), off(e["range"]["end"])
        text = text[:a] + e["newText"] + text[b:]
    return text


def fn_nodes(tree):
    """function definitions in source order, keyed name#k (k = occurrence index of that name): two methods of
    different classes may share a name"""
    nodes = sorted((n for n in ast.walk(tree) if isinstance(n, (ast.FunctionDef, ast.AsyncFunctionDef))), key=lambda n: (n.lineno, n.col_offset))
    seen, out = collections.Counter(), []
    for n in nodes:
        out.append(("%s#%d" % (n.name, seen[n.name]), n))
        seen[n.name] += 1
    return out


def fn_params(tree):
    out = {}
    for key, node in fn_nodes(tree):
        a = node.args
        out[key] = [x.arg for x in list(a.posonlyargs) + list(a.args) + ([a.vararg] if a.vararg else [])
                    + list(a.kwonlyargs) + ([a.kwarg] if a.kwarg else [])]
    return out


def fn_kinds(tree, fname):
    """the parameter list of [fname] as Model/ParamEdit.v's [list param] (Gallina)"""
    node = dict(fn_nodes(tree)).get(fname) or next(n for n in ast.walk(tree) if isinstance(n, (ast.FunctionDef, ast.AsyncFunctionDef)) and n.name == fname.split("#")[0])
    a = node.args
    pos = list(a.posonlyargs) + list(a.args)
    nd = len(a.defaults)
    out = [("PosD" if i >= len(pos) - nd else "Pos", x.arg) for i, x in enumerate(pos)]
    if a.vararg:
        out.append(("VarStar", a.vararg.arg))
    elif a.kwonlyargs:
        out.append(("VarStar", ""))
    out += [("Kw", x.arg) for x in a.kwonlyargs]
    if a.kwarg:
        out.append(("DStar", a.kwarg.arg))
    return "[" + "; ".join("(%s, %s)" % (k, L.cstr(n)) for k, n in out) + "]"


scases = []     # text-level cases for Model/ParamEdit.v star_start: (document bytes, name offset, offered offset)


def star_case(text, node, edits):
    """when the new name must go in front of a starred FIRST parameter: the document's bytes, the byte offset
    of that parameter's name (CPython) and the byte offset the server's edit inserts at; else None"""
    if node is None or len(edits) != 1 or not text.isascii():
        return None
    a = node.args
    npos = len(a.posonlyargs) + len(a.args)
    if npos - len(a.defaults) > 0:
        return None                      # a positional parameter without default: the name goes behind it
    firsts = [(x.lineno, x.col_offset, "plain") for x in a.posonlyargs + a.args + a.kwonlyargs]
    firsts += [(x.lineno, x.col_offset, "star") for x in (a.vararg, a.kwarg) if x is not None]
    if not firsts or min(firsts)[2] != "star":
        return None
    starts = [0]
    for l in text.split("\n"):
        starts.append(starts[-1] + len(l) + 1)
    ln, col, _ = min(firsts)
    e = edits[0]["range"]["start"]
    return {"bytes": list(text.encode()), "name_start": starts[ln - 1] + col, "impl": starts[e["line"]] + e["character"]}


def judge_edit(text, new_text, fname, fixture):
    """-> None if the edit is right, else a reason"""
    try:
        t2 = ast.parse(new_text)
    except SyntaxError as e:
        return "the edited document does not parse: %s" % e
    p1, p2 = fn_params(ast.parse(text)), fn_params(t2)
    if fixture not in p2.get(fname, []):
        return "the fixture did not become a parameter of %s (parameters now: %s)" % (fname, p2.get(fname))
    for f in p1:
        if f != fname and p1[f] != p2.get(f):
            return "another function was touched: %s %s -> %s" % (f, p1[f], p2.get(f))
    if p2[fname][:len(p1[fname])] != p1[fname] and [x for x in p2[fname] if x != fixture] != p1[fname]:
        return "the other parameters of %s changed: %s -> %s" % (fname, p1[fname], p2[fname])
    return None


def explore_edits(r, rnd, ndocs):
    import lsp
    binp = core.build_binary()
    base = tempfile.mkdtemp(prefix="verif_c17_")
    bad, stats, kcases = [], collections.Counter(), []
    del scases[:]
    try:
        srv = lsp.Server(binp, root=base, timeout=30)
        try:
            srv.wait_for_log("Workspace scan complete", timeout=30)
            conf = os.path.join(base, "conftest.py")
            srv.open(conf, "import pytest\n\n" + "".join("@pytest.fixture\ndef %s():\n    return 1\n\n" % n for n in SIG_FIX + ["extra_fx"]))
            fixed_docs = []
            for cp in sorted(glob.glob(os.path.join(core.VERIF, "gen", "corpus", PID, "edits_*.json"))):
                c = json.load(open(cp))
                fixed_docs.append((c["edit_text"], [tuple(e) for e in c["expect"]]))
            stats["corpus_docs"] = len(fixed_docs)
            for i in range(len(fixed_docs) + ndocs):
                text, expect = fixed_docs[i] if i < len(fixed_docs) else gen_edit_doc(rnd)
                p = os.path.join(base, "test_e%d.py" % i)
                if i >= len(fixed_docs) and rnd.random() < 0.35:
                    # an earlier version of the document bound the fixture names at module level (an import that was
                    # deleted since): what the server says about the CURRENT text must not remember it
                    prev = "from helpers_mod import %s\n" % ", ".join(SIG_FIX) + text
                    srv.open(p, prev)
                    diags = srv.change(p, text, 2)
                    stats["docs_with_deleted_module_level_names"] += 1
                else:
                    diags = srv.open(p, text)
                und = [d for d in diags if d.get("code") == "undeclared-fixture"]
                tree = ast.parse(text)
                fn_at = {}
                for key, node in fn_nodes(tree):
                    for ln in range(node.lineno, node.end_lineno + 1):
                        fn_at[ln - 1] = key             # inner functions come later in source order and win
                shapes = {}
                for n, f, sh in expect:
                    shapes[n] = sh
                    shapes.setdefault(n + "#0", sh)
                warned = set()
                for d in und:
                    ln_ = d["range"]["start"]["line"]
                    warned.add((fn_at.get(ln_, "").split("#")[0], text.split("\n")[ln_][d["range"]["start"]["character"]:d["range"]["end"]["character"]]))
                for n, f, sh in expect:
                    if (n.split("#")[0], f) not in warned:
                        bad.append({"kind": "diagnostics", "why": "no undeclared-fixture warning for a visible fixture used in a body without being declared",
                                    "function": n, "fixture": f, "shape": sh, "text": text, "published": [x.get("message") for x in diags][:6]})
                        break
                for d in und:
                    fname = fn_at.get(d["range"]["start"]["line"])
                    fixture = text.split("\n")[d["range"]["start"]["line"]][d["range"]["start"]["character"]:d["range"]["end"]["character"]]
                    stats["diagnostics"] += 1
                    acts = srv.code_action(p, d["range"], [d]) or []
                    if not acts:
                        stats["no_quickfix:" + shapes.get(fname, "?")] += 1
                        continue
                    for a in acts:
                        edits = []
                        for uri, es in (a.get("edit", {}).get("changes") or {}).items():
                            edits += es
                        new_text = apply_edits(text, edits)
                        why = judge_edit(text, new_text, fname, fixture)
                        stats["quickfix_applied"] += 1
                        stats["shape:" + shapes.get(fname, "?")] += 1
                        sc = star_case(text, dict(fn_nodes(tree)).get(fname), edits)
                        if sc:
                            scases.append(dict(sc, function=fname, text=text, edits=edits))
                        if why is None:
                            kcases.append({"kind": "quick fix", "before": fn_kinds(tree, fname), "x": fixture,
                                           "after": fn_kinds(ast.parse(new_text), fname), "function": fname,
                                           "text": text, "edits": edits, "edited": new_text})
                        if why is None:
                            d2 = srv.change(p, new_text, 2)
                            still = [x for x in d2 if x.get("code") == "undeclared-fixture" and fn_at.get(x["range"]["start"]["line"]) == fname
                                     and fixture in x["message"]]
                            srv.change(p, text, 3)
                            if still:
                                why = "the warning is still published after re-analysis of the edited document"
                        if why:
                            bad.append({"kind": "quick fix", "why": why, "shape": shapes.get(fname), "function": fname, "fixture": fixture,
                                        "text": text, "edits": edits, "edited": new_text})
                # all warnings of the document in ONE request: every offered fix must serve the function of ITS diagnostic
                if len(und) >= 2:
                    whole = {"start": {"line": 0, "character": 0}, "end": {"line": text.count("\n") + 1, "character": 0}}
                    for a in srv.code_action(p, whole, und) or []:
                        ds = a.get("diagnostics") or []
                        if len(ds) != 1:
                            continue
                        d = ds[0]
                        fname = fn_at.get(d["range"]["start"]["line"])
                        fixture = text.split("\n")[d["range"]["start"]["line"]][d["range"]["start"]["character"]:d["range"]["end"]["character"]]
                        edits = []
                        for uri, es in (a.get("edit", {}).get("changes") or {}).items():
                            edits += es
                        new_text = apply_edits(text, edits)
                        why = judge_edit(text, new_text, fname, fixture)
                        stats["quickfix_in_batch"] += 1
                        if why:
                            bad.append({"kind": "quick fix (one request for all warnings of the document)", "why": why, "function": fname, "fixture": fixture,
                                        "text": text, "edits": edits, "edited": new_text})
                # body completion: ask on the body line of every function, at its end
                for (fname, fx, shape) in expect:
                    fname = fname if "#" in fname else fname + "#0"
                    node = dict(fn_nodes(tree))[fname]
                    ln = node.body[0].lineno - 1
                    col = len(text.split("\n")[ln])
                    items = srv.completion(p, ln, col) or []
                    if isinstance(items, dict):
                        items = items.get("items", [])
                    it = next((x for x in items if x.get("label") == "extra_fx" and x.get("additionalTextEdits")), None)
                    if it is None:
                        stats["no_completion_edit:" + shape] += 1
                        continue
                    stats["completion_edit_applied"] += 1
                    new_text = apply_edits(text, it["additionalTextEdits"])
                    why = judge_edit(text, new_text, fname, "extra_fx")
                    if why is None:
                        kcases.append({"kind": "completion parameter edit", "before": fn_kinds(tree, fname), "x": "extra_fx",
                                       "after": fn_kinds(ast.parse(new_text), fname), "function": fname,
                                       "text": text, "edits": it["additionalTextEdits"], "edited": new_text})
                    if why:
                        bad.append({"kind": "completion parameter edit", "why": why, "shape": shape, "function": fname, "fixture": "extra_fx",
                                    "text": text, "edits": it["additionalTextEdits"], "edited": new_text})
        finally:
            try:
                srv.shutdown()
            except Exception:
                pass
    finally:
        shutil.rmtree(base, ignore_errors=True)
    return stats, bad, kcases
