"""C07 — caching, closing documents and cache eviction are invisible."""
import ast, glob, json, os, shutil, sys, tempfile

import core, runner
import coqlit as L
import extract, histgen, wsgen
from common_ws import usage_positions, def_positions
from C06 import c_ans, c_aq, is_valid

PID = "C07"
MODULE = "Check.C07"
VERDICT = "verdict_C07"
CLASS_BITS = {16: "K_closed_file", 32: "K_order_sensitive_import"}
NCASES = (90, 1000)
RULE = ("(A) generator H histories with document closes interleaved: after every state-changing operation the live (warm) "
        "database and, per query, a database that replays the same operations and is asked only then (cold) answer "
        "go-to-definition, resolution, available fixtures, imported names, references; (B) workspaces of generator W "
        "written to a real temporary tree: every file is analysed, a baseline of answers is taken, then documents are "
        "opened with their on-disk text and closed one after the other and the answers must not move; non-trivial = the "
        "case contains a delete-only / import-only / unparsable edit, mutual imports or a close; distinct = distinct tag sequence")
ASSUMPTIONS = ["family A: virtual workspaces; family B: real temporary tree under /tmp, removed after the run",
               "eviction under cache pressure (2001 files) is exercised in the thorough tier only"]


def queries_for(latest, names, stdlib, rnd=None):
    qs = []
    for q in sorted(latest):
        if not is_valid(latest[q]):
            continue
        for (line, s, e, name) in usage_positions(latest[q], stdlib)[:6]:
            qs.append({"op": "goto", "path": q, "line": line - 1, "col": s})
        if "/test_" in q:
            for n in names:
                qs.append({"op": "closest", "path": q, "name": n})
            qs.append({"op": "available", "path": q})
        if q.endswith("conftest.py") or "/helpers" in q or "/m1" in q or "/m2" in q or "/ring" in q:
            qs.append({"op": "imported", "path": q})
    if rnd is not None:
        rnd.shuffle(qs)
    return qs


def case_history(cid, rnd, stdlib):
    h = histgen.gen_history(rnd, root="/vk%d" % (cid % 5))
    steps, replay, latest = [], [], {}
    tags = list(h["tags"])
    nq = 0
    if rnd.random() < 0.3:
        # mutually importing modules
        root = "/vk%d/pkg" % (cid % 5)
        m1 = "import pytest\nfrom .m2 import *\n\n@pytest.fixture\ndef f1():\n    return 1\n"
        m2 = "import pytest\nfrom .m1 import *\n\n@pytest.fixture\ndef f2():\n    return 2\n"
        h["versions"] = [(root + "/m1.py", m1), (root + "/m2.py", m2)] + h["versions"]
        tags.append("mutual-imports")
    if rnd.random() < 0.35:
        # a ring of star-importing modules with side branches, entered from several packages
        base = "/vk%d" % (cid % 5)
        k = rnd.randint(3, 4)
        ring = []
        for j in range(k):
            imports = "from ring%d import *\n" % ((j + 1) % k)
            if rnd.random() < 0.5:
                imports += "from side%d import *\n" % j
                ring.append((base + "/side%d.py" % j, "import pytest\n\n@pytest.fixture\ndef s%d():\n    return 0\n" % j))
            ring.append((base + "/ring%d.py" % j, "import pytest\n" + imports + "\n@pytest.fixture\ndef r%d():\n    return %d\n" % (j, j)))
        entries = rnd.sample(range(k), 2)
        for e_i, j in enumerate(entries):
            ring.append((base + "/ent%d/conftest.py" % e_i, "import pytest\nfrom ring%d import *\n" % j))
            ring.append((base + "/ent%d/test_e.py" % e_i, "def test_e(r0, r1, r2):\n    pass\n"))
        rnd.shuffle(ring)
        h["versions"] = ring + h["versions"]
        h["names"] = h["names"] + ["r%d" % j for j in range(k)] + ["s%d" % j for j in range(k)]
        tags.append("import-ring%d" % k)
    forced = set()
    if cid % 3 == 1:
        # a fixture-less conftest whose star import is retargeted (same statement shape, other
        # module) between two rounds of queries: nothing but the import target changes
        cf = "/vk%d/pkg/conftest.py" % (cid % 5)
        a, b = rnd.sample(["helpers", "helpers2"], 2)
        n0 = len(h["versions"])
        h["versions"] = h["versions"] + [(cf, "import pytest\nfrom .%s import *\n" % a), (cf, "import pytest\nfrom .%s import *\n" % b)]
        forced = {n0, n0 + 1}
        tags.append("edit:retarget-directed")
    if cid % 4 == 2:
        # an ABSOLUTE import that first resolves to a module in an ancestor directory; later a
        # same-named module appears NEARER to the importing conftest (absolute imports resolve
        # nearest directory first): whatever the earlier queries memoised, the answers must be
        # those of a cold twin
        base = "/vk%d" % (cid % 5)
        fx = "import pytest\n\n@pytest.fixture\ndef %s():\n    return 1\n"
        n0 = len(h["versions"])
        h["versions"] = h["versions"] + [
            (base + "/shadow_mod.py", fx % "sh_far"),
            (base + "/shw/conftest.py", rnd.choice(["from shadow_mod import *\n", "import pytest\npytest_plugins = [\"shadow_mod\"]\n",
                                                    "from shadow_mod import *\nimport pytest\n"])),
            (base + "/shw/test_s.py", "def test_s(sh_far, sh_near):\n    pass\n"),
            (base + "/shw/shadow_mod.py", fx % "sh_near")]
        h["names"] = h["names"] + ["sh_far", "sh_near"]
        forced = forced | {n0 + 2, n0 + 3}
        tags.append("shadowing-module-appears")
    if cid % 5 == 3:
        # a fixture-less conftest whose MULTI-LINE plugin list / parenthesised import is edited on a
        # continuation line only (the statement's first line stays as it was)
        base = "/vk%d" % (cid % 5)
        fx = "import pytest\n\n@pytest.fixture\ndef %s():\n    return 1\n"
        style = rnd.choice(["plugins", "import"])
        if style == "plugins":
            v1 = "pytest_plugins = [\n    \"ml_pa\",\n]\n"
            v2 = "pytest_plugins = [\n    \"ml_pa\",\n    \"ml_pb\",\n]\n"
        else:
            v1 = "from ml_pa import (\n    ml_a,\n)\nfrom ml_pb import (\n    ml_unused,\n)\n"
            v2 = "from ml_pa import (\n    ml_a,\n)\nfrom ml_pb import (\n    ml_b,\n)\n"
        n0 = len(h["versions"])
        h["versions"] = h["versions"] + [
            (base + "/mlp/ml_pa.py", fx % "ml_a"), (base + "/mlp/ml_pb.py", fx % "ml_b"),
            (base + "/mlp/conftest.py", v1), (base + "/mlp/test_ml.py", "def test_ml(ml_a, ml_b):\n    pass\n"),
            (base + "/mlp/conftest.py", v2)]
        h["names"] = h["names"] + ["ml_a", "ml_b"]
        forced = forced | {n0 + 3, n0 + 4}
        tags.append("edit:continuation-line-only")
    for i, (p, text) in enumerate(h["versions"]):
        op = {"op": "analyze", "path": p, "text": text}
        steps.append(op)
        replay.append(op)
        latest[p] = text
        if i not in forced and rnd.random() < 0.15 and len(latest) > 2:
            q = rnd.choice(sorted(latest))
            cl = {"op": "close", "path": q}
            steps.append(cl)
            replay.append(cl)
            tags.append("close")
            latest.pop(q)
        if i in forced or (i >= 2 and rnd.random() < 0.8):
            qs = queries_for(latest, h["names"] + ["f1", "f2"], stdlib, rnd)
            steps.append({"q": "cold", "replay": list(replay), "queries": qs})
            nq += len(qs)
    return {"id": cid, "steps": steps, "tags": tags, "queries": nq, "disk": {}}


def case_close_on_disk(cid, rnd, stdlib, tmproot):
    ws = wsgen.gen_workspace(rnd, root=os.path.join(tmproot, "w%d" % cid), max_depth=2)
    ws["plugins"] = []
    for p, t in ws["files"].items():
        os.makedirs(os.path.dirname(p), exist_ok=True)
        open(p, "w").write(t)
    steps = [{"op": "analyze", "path": p, "text": ws["files"][p]} for p in ws["order"]]
    latest = dict(ws["files"])
    qs = queries_for(latest, ws["names"], stdlib)
    steps.append({"q": "multi", "queries": qs, "role": "baseline"})
    nq = len(qs)
    victims = [p for p in sorted(ws["files"]) if p.endswith("conftest.py") or "/helpers_" in p or "/test_" in p]
    rnd.shuffle(victims)
    for p in victims[:3]:
        steps.append({"op": "analyze", "path": p, "text": ws["files"][p]})   # didOpen, unmodified
        steps.append({"op": "close", "path": p})                              # didClose
        steps.append({"q": "multi", "queries": qs, "role": "after-close"})
        nq += len(qs)
    return {"id": cid, "steps": steps, "tags": ws["tags"] + ["close-on-disk"], "queries": nq, "disk": dict(ws["files"])}


_TMP = []


def make_case(cid, rnd, stdlib):
    if rnd.random() < 0.65:
        return case_history(cid, rnd, stdlib)
    if not _TMP:
        _TMP.append(tempfile.mkdtemp(prefix="plsv_c07_", dir="/tmp"))
    return case_close_on_disk(cid, rnd, stdlib, _TMP[0])


def corpus(stdlib):
    out = []
    for p in sorted(glob.glob(os.path.join(core.VERIF, "gen", "corpus", PID, "*.json"))):
        c = json.load(open(p))
        if "close" in c:
            # family B witness: written to a real temporary tree
            if not _TMP:
                _TMP.append(tempfile.mkdtemp(prefix="plsv_c07_", dir="/tmp"))
            root = os.path.join(_TMP[0], "corpus_" + os.path.basename(p)[:-5])
            files = {q.replace("$ROOT", root): t for q, t in c["files"].items()}
            for q, t in files.items():
                os.makedirs(os.path.dirname(q), exist_ok=True)
                open(q, "w").write(t)
            steps = [{"op": "analyze", "path": q.replace("$ROOT", root), "text": files[q.replace("$ROOT", root)]} for q in c["order"]]
            qs = queries_for(files, c["names"], stdlib)
            steps.append({"q": "multi", "queries": qs, "role": "baseline"})
            for q in c["close"]:
                q = q.replace("$ROOT", root)
                steps.append({"op": "analyze", "path": q, "text": files[q]})
                steps.append({"op": "close", "path": q})
                steps.append({"q": "multi", "queries": qs, "role": "after-close"})
            out.append({"id": 0, "steps": steps, "tags": ["corpus:" + os.path.basename(p), "close-on-disk"],
                        "queries": len(qs) * (1 + len(c["close"])), "disk": files})
            continue
        steps, replay = [], []
        for q in c["order"]:
            op = {"op": "analyze", "path": q, "text": c["files"][q]}
            steps.append(op)
            replay.append(op)
        for q in c["queries"]:
            q2 = dict(q)
            q2["op"] = q2.pop("q")
            steps.append({"q": "cold", "replay": list(replay), "queries": [q2]})
        for (q, t) in c.get("then", []):
            op = {"op": "analyze", "path": q, "text": t}
            steps.append(op)
            replay.append(op)
        for q in c.get("queries2", []):
            q2 = dict(q)
            q2["op"] = q2.pop("q")
            steps.append({"q": "cold", "replay": list(replay), "queries": [q2]})
        out.append({"id": 0, "steps": steps, "tags": ["corpus:" + os.path.basename(p)], "queries": len(c["queries"]), "disk": {}})
    return out


def to_coq(case, obs_list, stdlib):
    ids = core.text_ids(case)
    steps, idx, panics = [], [], []
    baseline = None
    for i, (st, ob) in enumerate(zip(case["steps"], obs_list)):
        if isinstance(ob, dict) and "panic" in ob:
            panics.append((i, ob["panic"]))
            continue
        if "op" in st:
            steps.append("Op7 (" + core.coq_step(st, ob, ids, stdlib)[3:] + ")")
            idx.append(i)
            continue
        qs = st["queries"]
        if st["q"] == "cold":
            a, b = ob["warm"], ob["cold"]
        else:
            a = ob
            b = baseline if st.get("role") == "after-close" else None
            if st.get("role") == "baseline":
                baseline = ob
        keep = [k for k, q in enumerate(qs) if not (q["op"] == "refs")]
        cq = L.clist([c_aq(qs[k], a[k]) for k in keep])
        ca = L.clist([c_ans(qs[k], a[k]) for k in keep])
        if b is None:
            steps.append("Multi7 %s %s" % (cq, ca))
        else:
            cb = L.clist([c_ans(qs[k], b[k]) for k in keep])
            steps.append("Twin7 %s %s %s" % (cq, ca, cb))
        idx.append(i)
    disk = L.clist(["(%s, %s)" % (L.cpath(p), L.ccached(extract.extract(t, stdlib), ids.get(t, 0)))
                    for p, t in sorted(case.get("disk", {}).items())])
    return "%s %s" % (disk, L.clist(steps)), idx, panics


def nontrivial(c):
    t = c["tags"]
    if any(x in ("edit:remove", "edit:remove_all", "edit:imports", "edit:break", "mutual-imports", "close", "close-on-disk") or x.startswith("corpus:") for x in t):
        return tuple(t)
    return None


def run(r):
    # protocol part (exploration shared with C05): the real server, after an unmodified document was opened and closed,
    # answers go-to-definition / hover / references inside an import-free package exactly as before
    import random
    import C05
    quick = r.tier == "quick"
    bad, stats, _ = C05.explore_handlers(r, random.Random(r.seed * 41 + 7), int(os.environ.get("VERIF_H2_WORKSPACES", 8 if quick else 40)), set(core.tables()["stdlib_modules"]))
    for b in [x for x in bad if x["why"].startswith("opening and closing")][:1]:
        r.violation(dict({"property": PID, "part": "handlers"}, **b), "h2_close")
    r.extra_coverage = {"handler_part": {k: v for k, v in stats.items() if k in ("workspaces", "open_close")}}
    try:
        return runner.drive_ws(r, sys.modules[__name__])
    finally:
        for d in _TMP:
            shutil.rmtree(d, ignore_errors=True)
        _TMP.clear()
