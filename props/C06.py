"""C06 — index state depends on current contents only, not on edit history."""
import ast, glob, json, os, sys

import core, runner
import coqlit as L
import extract, histgen
from common_ws import usage_positions, def_positions

PID = "C06"
MODULE = "Check.C06"
VERDICT = "verdict_C06"
CLASS_BITS = {16: "K_invalid_hides_imports"}
NCASES = (100, 1200)
RULE = ("generator H (gen/histgen.py): a 5-file virtual workspace (two conftests, an imported helper module, two test "
        "modules) and 3-9 further full-text versions produced by structural edits (add/remove/rename/move fixtures, add "
        "tests incl. undeclared uses, break and repair syntax, re-send identical text, change a conftest's imports, empty "
        "a file; close a document and open it again with the next version); at EVERY prefix the long-lived database is compared with a database built fresh from the latest valid "
        "version of each file: all persistent maps (dump) and go-to-definition at every usage, resolution, available "
        "fixtures, imported names, references, and the undeclared findings of the document changed last; non-trivial = "
        "history contains a removal, rename, break or import edit; distinct = distinct edit-kind sequence")
ASSUMPTIONS = ["virtual workspaces only", "ASCII", "queries inside a currently unparsable document are not asked (DESIGN §7 C06)"]


def is_valid(text):
    try:
        ast.parse(text)
        return True
    except (SyntaxError, ValueError):
        return False


def make_case(cid, rnd, stdlib):
    h = histgen.gen_history(rnd, root="/vh%d" % (cid % 5))
    steps = []
    latest, last_valid = {}, {}   # insertion-ordered: re-insert on update
    nq = 0
    for i, (p, text) in enumerate(h["versions"]):
        if i >= 4 and p in latest and rnd.random() < 0.2:
            # the document is closed and opened again (with this version: the text may have changed
            # while it was closed, or be the very same text)
            steps.append({"op": "close", "path": p})
            h["tags"].append("close-reopen" + ("-same-text" if latest[p] == text else ""))
        steps.append({"op": "analyze", "path": p, "text": text})
        latest.pop(p, None)
        latest[p] = text
        if is_valid(text):
            last_valid.pop(p, None)
            last_valid[p] = text
        if i < 4:
            continue   # the initial scan-like phase
        queries = []
        for q in sorted(latest):
            if not is_valid(latest[q]):
                continue
            for (line, s, e, name) in usage_positions(latest[q], stdlib):
                queries.append({"op": "goto", "path": q, "line": line - 1, "col": s})
            if "/test_" in q:
                for n in h["names"]:
                    queries.append({"op": "closest", "path": q, "name": n})
                queries.append({"op": "available", "path": q})
            if q.endswith("conftest.py"):
                queries.append({"op": "imported", "path": q})
            for (name, line, s, e) in def_positions(latest[q], stdlib):
                queries.append({"op": "refs", "path": q, "name": name, "line": line})
        if is_valid(text):
            queries.append({"op": "undeclared", "path": p})
        fresh_ops = [{"op": "analyze", "path": q, "text": t} for q, t in last_valid.items()]
        steps.append({"q": "both", "fresh_ops": fresh_ops, "queries": queries})
        nq += len(queries) + 1
    return {"id": cid, "steps": steps, "tags": h["tags"], "queries": nq}


def c_ans(q, a):
    k = q["op"]
    if isinstance(a, dict) and "panic" in a:
        raise ValueError("panic")
    if k in ("goto", "closest"):
        return "(AnsDef %s)" % L.coptdef(a)
    if k == "available":
        return "(AnsDefs %s)" % L.clist([L.cfdef(d) for d in a])
    if k == "undeclared":
        return "(AnsUndecl %s)" % L.clist([L.cundecl(u, q["path"]) for u in a])
    if k == "imported":
        return "(AnsNames %s)" % L.clist([L.cstr(x) for x in a])
    if k == "refs":
        return "(AnsUsages %s)" % L.clist([L.cusage(u) for u in (a.get("refs") or [])])
    raise ValueError(k)


def c_aq(q, live_answer):
    k = q["op"]
    if k == "goto":
        return "(AQGoto %s %s %s)" % (L.cpath(q["path"]), L.cN(q["line"]), L.cN(q["col"]))
    if k == "closest":
        return "(AQClosest %s %s)" % (L.cpath(q["path"]), L.cstr(q["name"]))
    if k == "available":
        return "(AQAvail %s)" % L.cpath(q["path"])
    if k == "undeclared":
        return "(AQUndecl %s)" % L.cpath(q["path"])
    if k == "imported":
        return "(AQImported %s)" % L.cpath(q["path"])
    if k == "refs":
        return "(AQRefs %s)" % L.cfdef(live_answer["def"])
    raise ValueError(k)


def to_coq(case, obs_list, stdlib):
    ids = core.text_ids(case)
    steps, idx, panics = [], [], []
    for i, (st, ob) in enumerate(zip(case["steps"], obs_list)):
        if isinstance(ob, dict) and "panic" in ob:
            panics.append((i, ob["panic"]))
            continue
        if "op" in st:
            steps.append("Op6 (" + core.coq_step(st, ob, ids, stdlib)[3:] + ")")
            idx.append(i)
            continue
        qs, la, fa = [], [], []
        for q, a_l, a_f in zip(st["queries"], ob["live"]["answers"], ob["fresh"]["answers"]):
            if q["op"] == "refs" and (a_l.get("nodef") or a_f.get("nodef")):
                if bool(a_l.get("nodef")) != bool(a_f.get("nodef")):
                    panics.append((i, "definition present in only one of live/fresh: %s" % json.dumps(q)))
                continue
            qs.append(c_aq(q, a_l))
            la.append(c_ans(q, a_l))
            fa.append(c_ans(q, a_f))
        # the fresh database's texts get the same ids
        steps.append("Both6 %s (mk_snapshot %s %s) (mk_snapshot %s %s)" % (
            L.clist(qs), L.cdump(ob["live"]["dump"], ids), L.clist(la), L.cdump(ob["fresh"]["dump"], ids), L.clist(fa)))
        idx.append(i)
    return L.clist(steps), idx, panics


def nontrivial(c):
    kinds = tuple(t for t in c["tags"])
    if any(t in ("edit:remove", "edit:rename", "edit:break", "edit:imports", "edit:remove_all") for t in kinds):
        return kinds
    return None


def corpus(stdlib):
    out = []
    for p in sorted(glob.glob(os.path.join(core.VERIF, "gen", "corpus", PID, "*.json"))):
        c = json.load(open(p))
        c["tags"] = ["corpus:" + os.path.basename(p)]
        c.setdefault("queries", len(c["steps"]))
        out.append(c)
    return out


def run(r):
    # protocol part (exploration shared with C19): histories of open / change notifications sent to the REAL server,
    # incl. workspaces that exist on disk before it starts (the scan has indexed what is then opened and edited);
    # after every notification the findings it publishes must be those of a fresh database on the latest contents
    import os, random
    import core, C19
    quick = r.tier == "quick"
    h1, _ = core.build_harness()
    stdlib = set(core.tables()["stdlib_modules"])
    bad, nh = C19.server_history_failures(r, h1, random.Random(r.seed * 17 + 6), int(os.environ.get("VERIF_SERVER_HISTORIES", 10 if quick else 80)), stdlib)
    for k, b in enumerate(bad[:2]):
        r.violation(dict({"property": PID, "part": "server histories"}, **b), "srv_%d" % k)
    r.notes.append("protocol part: %d histories over stdio" % nh)
    r.extra_coverage = {"server_histories": nh}
    return runner.drive_ws(r, sys.modules[__name__])
