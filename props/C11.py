"""C11 — no input or request sequence crashes or wedges the server.

Proof side: Properties/C11.v (totality of the byte-slicing text functions for every
string / position).  Tie: the real functions (through the cfg-guarded wrappers) and
the model are run on the same generated strings and positions (generator S), results
compared inside Coq; every library entry point runs under catch_unwind.  Exploration
for what the model cannot exhibit: analyses of generated files with awkward docstrings
and signatures (library), and the real binary over stdio with stale / out-of-range /
mid-character positions, requiring one response per request and continued service."""
import json, os, random, sys, tempfile, shutil

import core, runner
import coqlit as L

PID = "C11"

WS = [9, 10, 11, 12, 13, 32, 133, 160, 5760] + list(range(8192, 8203)) + [8232, 8233, 8239, 8287, 12288]
LETTERS = [ord(c) for c in "abcxyz_DEFdef019"] + [0xE9, 0xDF, 0x3A9, 0x4E2D, 0x1D4B3, 0x301, 0x660, 0x2167, 0xB2]
PUNCT = [ord(c) for c in "():,=-.[]#\"'@*:"]


def T(s):
    return "[" + "; ".join(str(ord(c)) for c in s) + "]"


def rstr(rnd, n, ws_p=0.25, nl_p=0.08):
    out = []
    for _ in range(n):
        r = rnd.random()
        if r < nl_p:
            out.append(rnd.choice([10, 10, 10, 13]))
        elif r < nl_p + ws_p:
            out.append(rnd.choice(WS if rnd.random() < 0.4 else [32, 32, 9]))
        elif r < 0.85:
            out.append(rnd.choice(LETTERS))
        else:
            out.append(rnd.choice(PUNCT))
    return "".join(map(chr, out))


def indent(rnd):
    k = rnd.randint(0, 4)
    if rnd.random() < 0.5:
        return " " * k
    return "".join(chr(rnd.choice([32, 9, 12288, 160, 8195, 5760, 133])) for _ in range(k))


def gen_docstring(rnd):
    n = rnd.randint(0, 6)
    ls = []
    for _ in range(n):
        if rnd.random() < 0.25:
            ls.append(indent(rnd))
        else:
            ls.append(indent(rnd) + rstr(rnd, rnd.randint(1, 6), 0.1, 0.0))
    sep = rnd.choice(["\n", "\n", "\r\n"])
    return sep.join(ls) + rnd.choice(["", "\n", "\r"])


def gen_def_line(rnd):
    name = "".join(chr(rnd.choice(LETTERS)) for _ in range(rnd.randint(1, 5)))
    pre = rstr(rnd, rnd.randint(0, 4), 0.5, 0.0)
    kw = rnd.choice(["def ", "async def ", "def  ", "Def ", ""])
    params = ", ".join(rstr(rnd, rnd.randint(1, 4), 0.0, 0.0) + rnd.choice(["", ": int", " : T", " = 1", "　: x"])
                       for _ in range(rnd.randint(0, 3)))
    return pre + kw + name + "(" + params + "):", name


KINDS = [0, 1, 0, 2, 0, 3, 4, 0, 5, 4, 0, 6, 4, 0, 7, 8]


def gen_cases(rnd, n):
    """-> list of (harness op, builder(obs) -> Gallina tcase, tag)"""
    out = []
    for i in range(n):
        k = KINDS[i % len(KINDS)]
        if k == 0:
            s = gen_docstring(rnd)
            out.append(({"op": "format_docstring", "text": s}, ("TFormatDoc", s), "format_docstring"))
        elif k == 1:
            line = rstr(rnd, rnd.randint(0, 12), 0.2, 0.0)
            for ch in range(0, len(line) + 2):
                out.append(({"op": "extract_word", "text": line, "col": ch}, ("TWord", line, ch), "extract_word"))
        elif k == 2:
            l1, name = gen_def_line(rnd)
            l2, name2 = gen_def_line(rnd)
            content = rnd.choice(["", "x = 1\n"]) + l1 + rnd.choice(["\n", "\r\n"]) + l2
            for ln in range(0, 4):
                nm = rnd.choice([name, name2, "zz", ""])
                out.append(({"op": "find_name_pos", "text": content, "line": ln, "name": nm},
                            ("TFindName", content, ln, nm), "find_name_pos"))
        elif k == 3:
            l1, _ = gen_def_line(rnd)
            content = l1 + "\n" + rstr(rnd, 6, 0.3, 0.0)
            blen = len(l1.encode("utf-8"))
            for col in range(0, blen + 2):
                out.append(({"op": "param_has_annotation", "text": content, "line": 1, "col": col},
                            ("TParamAnn", content, 1, col), "param_has_annotation"))
            out.append(({"op": "param_has_annotation", "text": content, "line": rnd.choice([0, 2, 3, 99]), "col": rnd.randint(0, 9)},
                        None, "param_has_annotation"))
            out[-1] = (out[-1][0], ("TParamAnn", content, out[-1][0]["line"], out[-1][0]["col"]), "param_has_annotation")
        elif k == 4:
            parts = []
            for _ in range(rnd.randint(1, 4)):
                parts.append("".join(chr(rnd.choice([ord("a"), ord("B"), ord("_"), ord("."), 0xE9, 0x4E2D, 0x1D4B3, ord("7")]))
                                     for _ in range(rnd.randint(0, 3))))
            d = "-".join(parts) + rnd.choice([".dist-info", ".egg-info", ".dist-info", "", ".dist-infox"])
            out.append(({"op": "dist_info_name", "name": d}, ("TDistInfo", d), "dist_info_name"))
        elif k == 5:
            ls = []
            for _ in range(rnd.randint(0, 7)):
                r = rnd.random()
                if r < 0.3:
                    ls.append(rnd.choice(["[pytest11]", " [pytest11] ", "[console_scripts]", "[pytest11", "[]", "[pytest11]x"]))
                elif r < 0.4:
                    ls.append("# " + rstr(rnd, 3, 0.1, 0.0))
                else:
                    ls.append(indent(rnd) + rstr(rnd, 2, 0.0, 0.0) + rnd.choice([" = ", "=", " ", "=="]) + rstr(rnd, 3, 0.0, 0.0) + indent(rnd))
            content = rnd.choice(["\n", "\r\n"]).join(ls)
            out.append(({"op": "parse_entry_points", "text": content}, ("TEntryPoints", content), "parse_entry_points"))
        elif k == 6:
            s = rstr(rnd, rnd.randint(0, 20), 0.2, 0.2)
            out.append(({"op": "line_index", "text": s}, ("TLineIndex", s), "line_index"))
            for off in range(0, len(s.encode("utf-8")) + 2):
                out.append(({"op": "line_of_offset", "text": s, "offset": off}, ("TLineOfOffset", s, off), "line_of_offset"))
        elif k == 7:
            s = rstr(rnd, 30, 0.5, 0.1)
            out.append(({"op": "char_classes", "text": s}, ("TClasses", s), "char_classes"))
        else:
            s = "".join(chr(c) for c in WS) + "".join(chr(rnd.choice(LETTERS)) for _ in range(5))
            out.append(({"op": "char_classes", "text": s}, ("TClasses", s), "char_classes"))
    return out


CORPUS = [
    ({"op": "format_docstring", "text": "x\n  a\n　b"}, ("TFormatDoc", "x\n  a\n　b"), "corpus:format_docstring_u3000"),
    ({"op": "format_docstring", "text": "\n    a\n　　b\n    c\n"}, ("TFormatDoc", "\n    a\n　　b\n    c\n"), "corpus:format_docstring_u3000x2"),
    ({"op": "param_has_annotation", "text": "déf", "line": 1, "col": 2}, ("TParamAnn", "déf", 1, 2), "corpus:param_annotation_midchar"),
    ({"op": "dist_info_name", "name": "é-1.dist-info"}, ("TDistInfo", "é-1.dist-info"), "corpus:dist_info_nonascii"),
    ({"op": "dist_info_name", "name": "中中-1.0.dist-info"}, ("TDistInfo", "中中-1.0.dist-info"), "corpus:dist_info_cjk"),
]


def res_lit(obs, conv):
    if isinstance(obs, dict) and "panic" in obs:
        return "Panic"
    return "(Ok %s)" % conv(obs)


def opt_text(o):
    return "None" if o is None else "(Some %s)" % T(o)


def to_tcase(spec, obs, classes):
    k = spec[0]
    if k == "TFormatDoc":
        return "TFormatDoc %s %s" % (T(spec[1]), res_lit(obs, T))
    if k == "TWord":
        return "TWord %s %s %d %s" % (L.clist([str(c) for c in classes[spec[1]]]), T(spec[1]), spec[2], res_lit(obs, opt_text))
    if k == "TFindName":
        return "TFindName %s %d %s %s" % (T(spec[1]), spec[2], T(spec[3]), res_lit(obs, lambda o: "(%d, %d)" % (o[0], o[1])))
    if k == "TParamAnn":
        return "TParamAnn %s %d %d %s" % (T(spec[1]), spec[2], spec[3], res_lit(obs, L.cbool))
    if k == "TDistInfo":
        return "TDistInfo %s %s" % (T(spec[1]), res_lit(obs, lambda o: "None" if o is None else "(Some %s)" % T(o[0])))
    if k == "TEntryPoints":
        return "TEntryPoints %s %s" % (T(spec[1]), res_lit(obs, lambda o: L.clist(["(%s, %s)" % (T(a), T(b)) for a, b in o])))
    if k == "TLineIndex":
        return "TLineIndex %s %s" % (T(spec[1]), res_lit(obs, lambda o: L.clist([str(x) for x in o])))
    if k == "TLineOfOffset":
        return "TLineOfOffset %s %d %s" % (T(spec[1]), spec[2], res_lit(obs, lambda o: "(%d, %d)" % (o[0], o[1])))
    if k == "TClasses":
        if isinstance(obs, dict) and "panic" in obs:
            return None
        return "TClasses %s %s" % (T(spec[1]), L.clist([str(c) for c in obs["ws"]]))
    raise ValueError(k)


# ------------------------------------------------------------------ exploration: analysis
def gen_py_file(rnd):
    """a syntactically valid module with awkward docstrings / signatures"""
    doc = gen_docstring(rnd).replace('"""', "'").replace("\\", "/").replace("\r", "")
    nm = rnd.choice(["fx", "café", "中", "f_1"])
    ind = rnd.choice(["    ", "\t", "  "])
    body = '%s"""%s"""\n%sreturn 1\n' % (ind, doc, ind)
    deco = rnd.choice(["@pytest.fixture", "@pytest.fixture", "@pytest.fixture(scope=\"module\")", "@pytest_asyncio.fixture(loop_scope=\"session\")",
                       "@pytest_asyncio.fixture(loop_scope='session', scope='module')", "@pytest.fixture(my_scope=\"x\", scope=\"class\")",
                       "@pytest_asyncio.fixture(scope=\"session\", loop_scope=\"session\")"])
    txt = "import pytest\n\n" + deco + "\ndef %s(%s):\n%s\n" % (nm, rnd.choice(["", "a", "a, b=1", "éé: int", "*args", "**kw", "*args, **kw", "*, k=1"]), body)
    txt += "def test_x(%s%s):\n%s%s\n" % (nm, rnd.choice(["", ": int", " : 'T'", "　= 3"]), ind, rnd.choice(["pass", "x = %s" % nm, '"""　\n  d\n　　e"""']))
    # fixtures named inside string literals: names that are prefixes / suffixes / infixes of one
    # another, with multi-byte first and last characters, in every literal shape the analyzer reads
    if rnd.random() < 0.7:
        base = rnd.choice(["été", "中", "café", "fx", "ß", "éé", "𝒇x", "a"])
        longer = rnd.choice([base + "_db", "x_" + base, base + base, base + "é", "é" + base, base + "1"])
        names = rnd.choice([[longer, base], [base, longer], [longer, longer, base], [base], [longer + base, base, longer]])
        sep = rnd.choice([",", ", ", " ,", ",　", " , "])
        lit = sep.join(names)
        q = rnd.choice(['"', "'"])
        shape = rnd.randrange(6)
        if shape == 0:
            deco = "@pytest.mark.parametrize(%s%s%s, [(%s)], indirect=True)" % (q, lit, q, ", ".join("1" for _ in names))
        elif shape == 1:
            deco = "@pytest.mark.parametrize(%s%s%s, [(%s)], indirect=[%s%s%s])" % (q, lit, q, ", ".join("1" for _ in names), q, names[-1], q)
        elif shape == 2:
            deco = "@pytest.mark.usefixtures(%s)" % ", ".join(q + x + q for x in names)
        elif shape == 3:
            deco = "@pytest.mark.usefixtures(%s%s%s %s%s%s)" % (q, names[0][:1], q, q, names[0][1:], q)
        elif shape == 4:
            deco = "@pytest.mark.parametrize([%s], [(%s)], indirect=True)" % (", ".join(q + x + q for x in names), ", ".join("1" for _ in names))
        else:
            deco = "@pytest.mark.parametrize((%s,), [(%s)], indirect=(%s%s%s,))" % (", ".join(q + x + q for x in names), ", ".join("1" for _ in names), q, names[0], q)
        txt += "\n%s\ndef test_lit(%s):\n%spass\n" % (deco, ", ".join(dict.fromkeys(names)) if shape in (0, 1, 4, 5) else "", ind)
        if rnd.random() < 0.3:
            txt += "\npytestmark = pytest.mark.usefixtures(%s%s%s)\n" % (q, lit.split(",")[0].strip(), q)
    return txt


def explore_analysis(r, h1, rnd, n):
    cases = []
    for i in range(n):
        txt = gen_py_file(rnd)
        steps = [{"op": "analyze", "path": "/vt/test_a%d.py" % i, "text": txt}, {"op": "dump"}]
        # stale positions: break the text, then ask at recorded columns
        broken = txt.replace("def test_x(", "def test_x((é　", 1)
        steps.append({"op": "analyze", "path": "/vt/test_a%d.py" % i, "text": broken})
        for (ln, col) in [(0, 0), (3, 4), (3, 5), (3, 6), (6, 11), (6, 12), (6, 13), (7, 2), (99, 0), (4294967295, 4294967295)]:
            for q in ("goto", "goto_or_def", "name_at"):
                steps.append({"op": q, "path": "/vt/test_a%d.py" % i, "line": ln, "col": col})
            steps.append({"op": "completion_context", "path": "/vt/test_a%d.py" % i, "line": ln, "col": col})
        steps.append({"op": "undeclared", "path": "/vt/test_a%d.py" % i})
        # the requests that read the parsed tree (parameter insertion, enclosing function, completion context): on the
        # valid text first (whatever they cache), then on texts cut off inside a signature - shorter than every offset
        # of the earlier tree - and on the valid text again
        pth = "/vt/test_a%d.py" % i
        nl = txt.count("\n") + 2
        tree_ops = [{"op": q, "path": pth, "line": ln} for ln in range(1, nl) for q in ("param_insertion", "containing_function")] \
            + [{"op": "completion_context", "path": pth, "line": ln, "col": 4} for ln in range(0, nl)]
        steps.append({"op": "analyze", "path": pth, "text": txt})
        steps += tree_ops
        for marker in ("def test_x(", ")\ndef ", "e\ndef "):          # the test's header, the fixture's header (behind any decorator line)
            k = txt.find(marker)
            if k >= 0:
                cut = txt[:k + len(marker)] + rnd.choice(["", "(", "*"])
                steps.append({"op": "analyze", "path": pth, "text": cut})
                steps += tree_ops
        steps.append({"op": "analyze", "path": pth, "text": txt})
        steps += tree_ops[:6]
        cases.append({"id": i, "ops": steps, "text": txt})
    obs, rc = core.run_h1(h1, [{"id": c["id"], "ops": c["ops"]} for c in cases], "C11_analysis", allow_hang=True)
    bad = []
    indexed = 0
    for c in cases:
        o = obs.get(c["id"])
        if o is None or o.get("hang"):
            bad.append((c, "hang"))
            continue
        for st, ob in zip(c["ops"], o["obs"]):
            if isinstance(ob, dict) and "panic" in ob:
                bad.append((c, {"step": st, "panic": ob["panic"]}))
                break
        d = o["obs"][1]
        if isinstance(d, dict) and d.get("definitions"):
            indexed += 1
        elif not (isinstance(d, dict) and "panic" in d):
            # a syntactically valid module with a fixture must be indexed
            try:
                compile(c["text"], "x", "exec")
                bad.append((c, {"not_indexed": True}))
            except SyntaxError:
                pass
    return len(cases), indexed, bad


# ------------------------------------------------------------------ exploration: the binary
def explore_lsp(r, rnd, n_docs):
    import lsp
    binp = core.build_binary()
    d = tempfile.mkdtemp(prefix="c11_", dir=core.CACHE)
    bad = []
    nreq = 0
    try:
        srv = lsp.Server(binp, root=None, timeout=20)
        try:
            for i in range(n_docs):
                p = os.path.join(d, "test_d%d.py" % i)
                txt = gen_py_file(rnd)
                srv.open(p, txt)
                lines = txt.split("\n")
                broken = txt.replace("def test_x(", "def test_x((é　", 1)
                positions = [(0, 0), (3, 4), (3, 5), (3, 6), (6, 11), (6, 12), (6, 13), (7, 2), (len(lines) + 3, 0),
                             (4294967295, 0), (0, 4294967295), (4294967295, 4294967295)]
                for phase in (0, 1):
                    if phase == 1:
                        srv.change(p, broken, 2)
                    for (ln, col) in positions:
                        for m in ("definition", "hover", "references", "implementation", "prepare_call_hierarchy", "completion"):
                            try:
                                getattr(srv, m)(p, ln, col)
                            except lsp.ServerDied as e:
                                bad.append({"doc": txt, "phase": phase, "request": m, "line": ln, "col": col, "error": "server died: %s" % e,
                                            "stderr": srv.stderr_tail(2000)})
                                raise
                            except (lsp.LspError, TimeoutError) as e:
                                if isinstance(e, TimeoutError) or "timed out" in str(e).lower() or "timeout" in str(e).lower():
                                    bad.append({"doc": txt, "phase": phase, "request": m, "line": ln, "col": col, "error": "no response: %s" % e})
                                    raise lsp.ServerDied(str(e))
                            nreq += 1
                    rng = {"start": {"line": 0, "character": 0}, "end": {"line": 4294967295, "character": 0}}
                    for call in (lambda: srv.inlay_hint(p, rng), lambda: srv.code_lens(p), lambda: srv.document_symbol(p),
                                 lambda: srv.code_action(p, rng, []), lambda: srv.workspace_symbol("")):
                        try:
                            call()
                        except lsp.ServerDied as e:
                            bad.append({"doc": txt, "phase": phase, "request": "document-level", "error": "server died: %s" % e,
                                        "stderr": srv.stderr_tail(2000)})
                            raise
                        except (lsp.LspError, TimeoutError) as e:
                            if isinstance(e, TimeoutError) or "timed out" in str(e).lower() or "timeout" in str(e).lower():
                                bad.append({"doc": txt, "phase": phase, "request": "document-level", "error": "no response: %s" % e})
                                raise lsp.ServerDied(str(e))
                        nreq += 1
                if not srv.alive():
                    bad.append({"doc": txt, "error": "server exited", "stderr": srv.stderr_tail(2000)})
                    break
        except lsp.ServerDied:
            pass
        finally:
            try:
                srv.shutdown()
            except Exception:
                pass
    finally:
        shutil.rmtree(d, ignore_errors=True)
    return nreq, bad, None


def run(r):
    import collections
    quick = r.tier == "quick"
    proof_ok = runner.proof_stage(r)
    h1, _ = core.build_harness()
    rnd = random.Random(r.seed)
    n = int(os.environ.get("VERIF_CASES", 400 if quick else 6000))

    def explore(specs, name):
        # pass 1: classes for the word cases come from Rust itself
        ops = [s[0] for s in specs]
        cls_ops = [{"op": "char_classes", "text": s[1][1]} for s in specs if s[1][0] == "TWord"]
        cls_texts = [s[1][1] for s in specs if s[1][0] == "TWord"]
        obs, rc = core.run_h1(h1, [{"id": 0, "ops": ops}, {"id": 1, "ops": cls_ops}], name)
        if obs[0].get("hang") or obs[1].get("hang"):
            raise core.TieBroken("harness", "text function hangs")
        classes = {t: o["alnum"] for t, o in zip(cls_texts, obs[1]["obs"])}
        terms, index = [], []
        for i, (sp, ob) in enumerate(zip(specs, obs[0]["obs"])):
            t = to_tcase(sp[1], ob, classes)
            if t is not None:
                terms.append("(" + t + ")")
                index.append(i)
        batches = []
        B = 60
        for b in range(0, len(terms), B):
            batches.append((b // B, "[" + ";\n ".join(terms[b:b + B]) + "]"))
        codes = core.eval_in_coq(name, "Check.C11", "verdict_C11_batch", batches)
        res = []
        for bid, cs in codes.items():
            for (j, code) in cs:
                i = index[bid * B + j]
                res.append((specs[i], obs[0]["obs"][i], code))
        return res

    specs = list(CORPUS) + gen_cases(rnd, n)
    results = explore(specs, "C11")
    panics = [x for x in results if x[2] & 2]
    corr = [x for x in results if (x[2] & 1) and not (x[2] & 2)]
    model_bad = [x for x in results if x[2] & 8]
    searched = 0
    if (corr or not proof_ok) and not panics:
        rnd2 = random.Random(r.seed * 7919 + 13)
        more = gen_cases(rnd2, 4 * n if quick else n)
        searched = len(more)
        res2 = explore(more, "C11_search")
        results += res2
        panics = [x for x in results if x[2] & 2]
        corr = [x for x in results if (x[2] & 1) and not (x[2] & 2)]

    # exploration beyond the model
    na, indexed, abad = explore_analysis(r, h1, rnd, 120 if quick else 1500)
    nreq, lbad, lerr = explore_lsp(r, rnd, 4 if quick else 60)
    if lerr:
        r.notes.append("LSP exploration skipped: " + lerr)

    for k, x in enumerate(sorted(panics, key=lambda x: len(json.dumps(x[0][0])))[:3]):
        r.violation({"property": PID, "why": "a text function panics on this input", "op": x[0][0], "impl_answer": x[1],
                     "seed": r.seed}, "panic_%d" % k)
    for k, (c, what) in enumerate(abad[:2]):
        r.violation({"property": PID, "why": "analysis / a query panics, hangs or drops a valid file", "what": what,
                     "ops": c["ops"][:3], "text": c["text"], "seed": r.seed}, "analysis_%d" % k)
    for k, b in enumerate(lbad[:2]):
        r.violation({"property": PID, "why": "the server did not answer / exited", **b, "seed": r.seed}, "lsp_%d" % k)
    if corr and not r.violations:
        x = sorted(corr, key=lambda x: len(json.dumps(x[0][0])))[0]
        r.violation({"property": PID, "broken": "corr:C11/%s (model Model.TextFns and implementation disagree; no panic found)" % x[0][2],
                     "op": x[0][0], "impl_answer": x[1], "searched_extra_cases": searched, "seed": r.seed}, "corr", no_input=True)
    if not proof_ok and not r.violations:
        r.violation({"property": PID, "broken": "thm:PLS.Properties.C11", "detail": {k: v for k, v in r.proof.items() if k != "cone"},
                     "searched_extra_cases": searched, "seed": r.seed}, "proof", no_input=True)
    if model_bad:
        r.notes.append("%d cases on which the model itself panics" % len(model_bad))

    tagc = collections.Counter(x[0][2] for x in results)
    widths = collections.Counter()
    for x in results:
        s = x[0][1][1]
        for ch in s:
            widths["utf8_width_%d" % len(ch.encode("utf-8"))] += 1
    r.coverage = {
        "obligations": r.proof.get("statements", 0), "discharged": r.proof.get("qed", 0) if proof_ok else 0,
        "checker_cmd": "make -C coq theories/Properties/C11.vo (coqc 8.16.1, full .vo build) + Print Assumptions + hygiene grep",
        "trusted_base": runner.trusted_base() + [
            "Rust's Unicode tables: is_alphanumeric is an oracle of the model (theorem quantifies over it); is_whitespace is written out (25 scalar values) and compared with Rust's on every run",
            "beyond the model (exploration only, not proof): rustpython-parser, tower-lsp-server, serde, the allocator and stack depth on huge inputs"],
        "evaluations": len(results) + na + nreq,
        "distinct_nontrivial": len(set(json.dumps(x[0][0], sort_keys=True) for x in results)),
        "rule": "generator S: strings over ASCII word characters, all 25 White_Space scalars, 2/3/4-byte letters, combining marks, "
                "CR/LF mixes, punctuation; per function: every character index (extract_word), every byte column incl. mid-character "
                "(parameter_has_annotation), every byte offset (line index), dist-info names with non-ASCII segments, ini sections; "
                "distinct = distinct (function, arguments); plus analyses of generated valid modules with awkward docstrings and "
                "queries at stale positions (library, catch_unwind) and the real binary over stdio (one response per request, still alive)",
        "samples": [{"op": x[0][0], "impl": x[1]} for x in results[:3]],
        "cases": len(results), "corpus_cases": len(CORPUS), "extra_search_cases": searched,
        "input_distribution": dict(tagc), "char_widths": dict(widths),
        "analysis_cases": na, "analysis_indexed": indexed, "lsp_requests": nreq,
        "correspondence_failures": len(corr),
        "proof": {k: v for k, v in r.proof.items() if k != "cone"},
    }
    r.assumptions = ["text functions: all inputs (theorem); analysis and request handling: sampled",
                     "panic-freedom of rustpython, tower-lsp, serde, allocator, stack depth: runtime behaviour outside the model"]
    return r.finish()


def replay(r, path):
    rp = json.load(open(path))
    h1, _ = core.build_harness()
    if "op" in rp:
        obs, rc = core.run_h1(h1, [{"id": 0, "ops": [rp["op"]]}], "C11_replay")
        print(json.dumps(obs[0]["obs"][0])[:500])
        return 1 if isinstance(obs[0]["obs"][0], dict) and "panic" in obs[0]["obs"][0] else 0
    if "ops" in rp:
        obs, rc = core.run_h1(h1, [{"id": 0, "ops": rp["ops"]}], "C11_replay")
        print(json.dumps(obs[0])[:800])
        return 1 if any(isinstance(o, dict) and "panic" in o for o in obs[0].get("obs", [])) else 0
    print(json.dumps(rp)[:800])
    return 1
