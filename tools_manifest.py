#!/usr/bin/env python3
"""Regenerates MANIFEST.json from the per-property table below (keeps it valid at all times)."""
import json, os
HERE = os.path.dirname(os.path.abspath(__file__))
PROPS = ["C%02d" % i for i in range(1, 21)]

CLAIMED = json.load(open(os.path.join(HERE, "manifest_claims.json")))

checks = []
for pid in PROPS:
    c = CLAIMED.get(pid)
    if not c or not c.get("claimed"):
        continue
    checks.append({
        "property_id": pid,
        "quick_cmd": "./check %s --tier quick" % pid,
        "thorough_cmd": "./check %s --tier thorough" % pid,
        "evidence_file": "/verif/evidence/%s.json" % pid,
        "replay_cmd_template": "./check %s --replay {path}" % pid,
        "engine": "coq-model+correspondence",
        "level_claimed": {"category": "proof", "text": c["text"], "design_ref": c.get("design_ref", "DESIGN.md §7 " + pid)},
        "level_note": c["note"],
        "technique": c["technique"],
    })
na = [{"property_id": pid, "reason": CLAIMED.get(pid, {}).get("reason", "check not built yet; see DESIGN.md §11 staging")}
      for pid in PROPS if not CLAIMED.get(pid, {}).get("claimed")]
m = {
    "version": 1,
    "setup_cmd": "./check --setup",
    "hooks": {
        "guard": "pytest_language_server_verif",
        "enable": "RUSTFLAGS=\"--cfg pytest_language_server_verif\" (set in /verif/harness/.cargo/config.toml; the harness crate depends on /repo by path)",
        "baseline_off_cmd": "cd /repo && cargo test --workspace --no-fail-fast --offline",
        "source_commits": CLAIMED["_hooks"]["source_commits"],
        "add_only": True,
    },
    "engines": [{"name": "coq-model+correspondence", "path": "/verif/coq, /verif/harness, /verif/lib, /verif/gen",
                 "serves_properties": [c["property_id"] for c in checks],
                 "kind_free_text": "Coq 8.16 model + theorems (kernel-checked), tied to the code by a differential correspondence check (Rust harness on the real FixtureDatabase vs vm_compute of the model) and a table translator"}],
    "checks": checks,
    "notes": "See DESIGN.md. Known findings: known_findings.json.",
    "not_applicable": na,
}
json.dump(m, open(os.path.join(HERE, "MANIFEST.json"), "w"), indent=1)
print("MANIFEST.json: %d checks, %d not claimed" % (len(checks), len(na)))
