"""Printing of cases / observations as Gallina literals (Model/Types.v, Check/Verdict.v)."""


def cstr(s: str) -> str:
    if "\x00" in s:
        raise ValueError("NUL in string literal")
    return '"' + s.replace('"', '""') + '"'


def cbool(b) -> str:
    return "true" if b else "false"


def cN(n) -> str:
    n = int(n)
    if n < 0:
        raise ValueError("negative N")
    return str(n)


def clist(xs) -> str:
    return "[" + "; ".join(xs) + "]"


def copt(x, f) -> str:
    return "None" if x is None else "(Some %s)" % f(x)


def cpath(p: str) -> str:
    """absolute POSIX path -> leaf-first component list"""
    assert p.startswith("/"), p
    comps = [c for c in p.split("/") if c != ""]
    return clist([cstr(c) for c in reversed(comps)])


SCOPES = {"function": 0, "class": 1, "module": 2, "package": 3, "session": 4}


def cfdef(d) -> str:
    """a definition as returned by the harness (def_json)"""
    return "(mk_fdef %s %s %s %s %s %s %s %s %s %s %s %s %s %s)" % (
        cstr(d["name"]), cpath(d["path"]), cN(d["line"]), cN(d["end_line"]), cN(d["start"]), cN(d["end"]),
        copt(d["doc"], cstr), copt(d["ret"], cstr), cbool(d["third"]), cbool(d["plugin"]),
        clist([cstr(x) for x in d["deps"]]), cN(SCOPES[d["scope"]]), copt(d["yield"], cN), cbool(d["autouse"]))


def coptdef(d) -> str:
    return "None" if d is None else "(Some %s)" % cfdef(d)


def cusage(u) -> str:
    return "(mk_usage %s %s %s %s %s)" % (cstr(u["name"]), cpath(u["path"]), cN(u["line"]), cN(u["start"]), cN(u["end"]))


def cundecl(u, path=None) -> str:
    return "(mk_undecl %s %s %s %s %s %s %s)" % (
        cstr(u["name"]), cpath(u.get("path", path)), cN(u["line"]), cN(u["start"]), cN(u["end"]),
        cstr(u["function"]), cN(u["function_line"]))


def citem(it) -> str:
    k = it["k"]
    if k == "use":
        return "(IUse (mk_lusage %s %s %s %s))" % (cstr(it["name"]), cN(it["line"]), cN(it["start"]), cN(it["end"]))
    if k == "def":
        return "(IDef (mk_ldef %s %s %s %s %s %s %s %s %s %s %s))" % (
            cstr(it["name"]), cN(it["line"]), cN(it["end_line"]), cN(it["start"]), cN(it["end"]),
            copt(it["doc"], cstr), copt(it["ret"], cstr), clist([cstr(x) for x in it["deps"]]),
            cN(it["scope"]), copt(it["yield"], cN), cbool(it["autouse"]))
    if k == "body":
        return "(IBody (mk_body %s %s %s %s %s))" % (
            clist([cstr(x) for x in it["declared"]]),
            clist(["(%s, %s)" % (cstr(n), cN(l)) for n, l in it["locals"]]),
            cstr(it["fn"]), cN(it["fn_line"]),
            clist(["(mk_bname %s %s %s %s)" % (cstr(x["name"]), cN(x["line"]), cN(x["start"]), cN(x["end"]))
                   for x in it["names"]]))
    raise ValueError(k)


def cedge(e) -> str:
    kind = "Star" if e["kind"] == "star" else "(Names %s)" % clist([cstr(x) for x in e["names"]])
    return "(mk_edge %s %s %s)" % (cN(e["level"]), clist([cstr(x) for x in e["mod"]]), kind)


def cfacts(f, text_id) -> str:
    return "(mk_facts %s %s %s %s %s %s)" % (
        cbool(f["ok"]), cN(text_id), clist([cstr(x) for x in f["lines"]]),
        clist([cstr(x) for x in f["modnames"]]), clist([citem(i) for i in f["items"]]),
        clist([cedge(e) for e in f["edges"]]))


def ccached(f, text_id) -> str:
    return "(mk_cached %s %s %s %s)" % (
        cN(text_id), cbool(f["ok"]), clist([cstr(x) for x in f["lines"]]),
        clist([cedge(e) for e in f["edges"]]) if f["ok"] else "[]")


def cdump(d, text_ids) -> str:
    def kv(k, v):
        return "(%s, %s)" % (k, v)
    defs = clist([kv(cstr(k), clist([cfdef(x) for x in v])) for k, v in d["definitions"]])
    fdefs = clist([kv(cpath(k), clist([cstr(x) for x in v])) for k, v in d["file_definitions"]])
    usages = clist([kv(cpath(k), clist([cusage(x) for x in v])) for k, v in d["usages"]])
    for k, v in d["usage_by_fixture"]:
        for x in v:
            if x["key_path"] != x["usage"]["path"]:
                raise ValueError("usage_by_fixture pair path differs from usage path")
    uby = clist([kv(cstr(k), clist([cusage(x["usage"]) for x in v])) for k, v in d["usage_by_fixture"]])
    und = clist([kv(cpath(k), clist([cundecl(x) for x in v])) for k, v in d["undeclared"]])
    mods = clist([kv(cpath(k), clist([cstr(x) for x in v])) for k, v in d["imports"]])
    cache = clist([kv(cpath(k), cN(text_ids.get(v, 0))) for k, v in d["file_cache"]])
    return "(mk_dump %s %s %s %s %s %s %s %s)" % (defs, fdefs, usages, uby, und, mods, cache, cN(d["version"]))
