"""The common flow of one check run (DESIGN §5)."""
import json, os, random, sys, time, traceback

import core
from core import VERIF, CACHE


CLASS_MASK = ~15


def classify(codes, listed_bits):
    """codes of one case: list of (step, code); listed_bits: class bits whose finding is
    listed in known_findings.json.  A spec failure is 'known' only if one of its class
    bits is listed.  -> (corr steps, unlisted spec failures, {bit: [steps]}, model-vs-spec)"""
    corr = [s for s, c in codes if c & 1]
    prop, known = [], {}
    for s, c in codes:
        if not (c & 2):
            continue
        hit = [b for b in listed_bits if c & b]
        if hit:
            for b in hit:
                known.setdefault(b, []).append(s)
        else:
            prop.append(s)
    model_bad = [s for s, c in codes if (c & 8) and not (c & CLASS_MASK)]
    return corr, prop, known, model_bad


def listed_classes(pid, class_bits):
    """class_bits: {bit: class name}.  -> {bit: finding} for the classes listed in known_findings.json"""
    kf = core.load_known_findings()
    by_class = {f["class"]: f for f in kf["findings"] if f["property"] == pid}
    return {b: by_class[c] for b, c in class_bits.items() if c in by_class}


class Run:
    def __init__(self, pid, tier, seed):
        self.pid, self.tier, self.seed = pid, tier, seed
        self.t0 = time.time()
        self.violations = []      # (replay path, suffix)
        self.known_lines = []
        self.notes = []
        self.coverage = {}
        self.assumptions = []
        self.proof = {}

    # ---- reporting
    def replay_path(self, n):
        d = os.path.join(VERIF, "evidence", "replay")
        os.makedirs(d, exist_ok=True)
        return os.path.join(d, "%s_%s.json" % (self.pid, n))

    def violation(self, replay_obj, tag, no_input=False):
        p = self.replay_path(tag)
        core.write_json(p, replay_obj)
        self.violations.append((p, " no-failing-input-found" if no_input else ""))

    def finish(self):
        for line in self.known_lines:
            print(line)
        for p, suf in self.violations:
            print("VIOLATION property=%s replay=%s%s" % (self.pid, p, suf))
        ev = {
            "property_id": self.pid, "tier": self.tier, "seed": self.seed, "level": "proof",
            "coverage": self.coverage, "assumptions": self.assumptions,
            "wall_s": round(time.time() - self.t0, 2), "violations": len(self.violations),
            "known_findings": self.known_lines, "notes": self.notes,
        }
        core.write_json(os.path.join(VERIF, "evidence", self.pid + ".json"), ev)
        return 1 if self.violations else 0


def proof_stage(run, extra_targets=()):
    """tables + make of the property's cone + Print Assumptions + hygiene.
    Returns True if the proof side checks; otherwise records what broke in run.proof."""
    pid = run.pid
    ok = True
    try:
        core.tables()
    except core.TieBroken as e:
        run.proof["translator"] = e.detail
        return False
    targets = ["theories/Properties/%s.vo" % pid, "theories/Check/%s.vo" % pid] + list(extra_targets)
    rc, out, dt = core.coq_make(targets)
    run.proof["make_s"] = round(dt, 1)
    if rc != 0:
        run.proof["make_error"] = out[-3000:]
        import re
        m = re.search(r'File "([^"]+)", line (\d+)', out)
        run.proof["broken_at"] = "%s:%s" % (m.group(1), m.group(2)) if m else "?"
        ok = False
    bad = core.hygiene()
    if bad:
        run.proof["hygiene"] = bad
        ok = False
    if ok:
        pa, raw = core.print_assumptions(pid)
        if pa is None:
            run.proof["assumptions_error"] = raw
            ok = False
        else:
            run.proof["print_assumptions"] = pa
            extra = [a for a in pa["axioms"] if a not in core.ALLOWED_AXIOMS]
            if extra:
                run.proof["unexpected_axioms"] = extra
                ok = False
    stmts, qeds, cone = core.count_obligations(pid)
    run.proof["statements"] = stmts
    run.proof["qed"] = qeds
    run.proof["cone"] = cone
    return ok


def trusted_base():
    return [
        "Coq 8.16.1 kernel; vm_compute (kernel VM) for case evaluation and closed witness lemmas; no native_compute; no extraction",
        "Coq standard library only (String, List, NArith, Bool, Lia); Print Assumptions expected: Closed under the global context",
        "translator/gen_tables.py (regex extraction of constant tables from the Rust source, each anchor exactly once)",
        "correspondence check: gen/extract.py (syntactic extraction of file facts from CPython's ast), lib/coqlit.py (printing of cases as Gallina literals), harness/ (Rust H1 driving the real FixtureDatabase), case generators",
        "CPython 3.11 ast as independent parser; rustpython-parser trusted to agree on node ranges for the generated grammar (validated by the index dump comparison)",
        "modelled, not verified: DashMap (atomic calls, iteration order as oracle), rustpython-parser, Path::canonicalize (virtual paths are their own canonical form), the file system (virtual workspaces: no file exists on disk)",
    ]


def drive_ws(r, P):
    """Generic driver for workspace-case properties.  P provides: PID, MODULE, VERDICT,
    CLASS_BITS {bit: class name}, make_case(cid, rnd, stdlib), corpus(stdlib) -> cases,
    NCASES (quick, thorough), RULE, nontrivial(case) -> hashable key or None,
    ASSUMPTIONS, optional extra_targets."""
    import collections, random
    from common_ws import evaluate
    pid = P.PID
    quick = r.tier == "quick"
    proof_ok = proof_stage(r, getattr(P, "EXTRA_TARGETS", ()))
    stdlib = set(core.tables()["stdlib_modules"])
    h1, _ = core.build_harness()
    rnd = random.Random(r.seed)
    n = int(os.environ.get("VERIF_CASES", P.NCASES[0] if quick else P.NCASES[1]))
    listed = listed_classes(pid, P.CLASS_BITS)

    def explore(cases, name):
        meta = evaluate(r, name, P.MODULE, P.VERDICT, cases, stdlib, h1, getattr(P, "to_coq", None))
        out = []
        for c in cases:
            m = meta[c["id"]]
            if m.get("hang"):
                out.append((c, m, [], ["hang"], {}, []))
                continue
            corr, prop, known, model_bad = classify(m["codes"], listed.keys())
            if m["panics"]:
                prop = prop + ["panic@%d" % i for i, _ in m["panics"]]
            out.append((c, m, corr, prop, known, model_bad))
        return out

    corpus = P.corpus(stdlib) if hasattr(P, "corpus") else []
    for i, c in enumerate(corpus):
        c["id"] = 100000 + i
    cases = corpus + [P.make_case(i, rnd, stdlib) for i in range(n)]
    results = explore(cases, pid)
    prop_fail = [x for x in results if x[3]]
    corr_fail = [x for x in results if x[2]]
    searched_more = 0
    if (corr_fail or not proof_ok) and not prop_fail:
        # the tie is broken but no failing input yet: search harder before reporting
        extra_n = int(os.environ.get("VERIF_SEARCH_CASES", 6 * n if quick else 2 * n))
        rnd2 = random.Random(r.seed * 7919 + 13)
        more = [P.make_case(200000 + i, rnd2, stdlib) for i in range(extra_n)]
        res2 = explore(more, pid + "_search")
        searched_more = len(more)
        results += res2
        prop_fail = [x for x in results if x[3]]
        corr_fail = [x for x in results if x[2]]

    for (c, m, corr, prop, known, mb) in prop_fail[:3]:
        c2, m2, prop2 = shrink(P, c, m, prop, stdlib, h1, listed) if hasattr(P, "shrinkable") else (c, m, prop)
        steps = [s for s in prop2 if isinstance(s, int)]
        r.violation({"property": pid, "why": "the spec rejects the implementation's answer",
                     "case": c2, "failing_steps": prop2,
                     "failing": [{"step": c2["steps"][s], "impl_answer": m2["obs"][s]} for s in steps[:10]],
                     "seed": r.seed}, "prop_%s" % c["id"])
    if corr_fail and not prop_fail:
        c, m, corr = corr_fail[0][0], corr_fail[0][1], corr_fail[0][2]
        r.violation({"property": pid, "broken": "corr:%s (model %s and implementation disagree; the spec accepts every implementation answer explored)" % (pid, P.MODULE),
                     "case": c, "disagreeing_steps": corr,
                     "disagreeing": [{"step": c["steps"][s], "impl_answer": m["obs"][s]} for s in corr[:10]],
                     "searched_extra_cases": searched_more, "seed": r.seed}, "corr_%s" % c["id"], no_input=True)
    if not proof_ok and not r.violations:
        r.violation({"property": pid, "broken": "thm:PLS.Properties.%s" % pid, "detail": {k: v for k, v in r.proof.items() if k != "cone"},
                     "searched_extra_cases": searched_more, "seed": r.seed}, "proof", no_input=True)

    hits = collections.Counter()
    for x in results:
        for b, steps in x[4].items():
            hits[P.CLASS_BITS[b]] += len(steps)
    for b, f in listed.items():
        r.known_lines.append("KNOWN-FINDING: property=%s %s [class %s; %d hits this run]" % (pid, f["what"], f["class"], hits[f["class"]]))
    hyp_unmet = sum(1 for x in results if not x[1].get("hang") for (_, c) in x[1]["codes"] if c & 4)
    if hyp_unmet:
        r.notes.append("theorem hypothesis unmet on %d queries" % hyp_unmet)
    unmodelled = sum(1 for x in results if x[5])
    if unmodelled:
        r.notes.append("%d cases where the model's own answer fails the spec outside every class" % unmodelled)

    tagc = collections.Counter()
    nontrivial = set()
    nq = 0
    for c in cases:
        for t in c.get("tags", []):
            tagc[t] += 1
        nq += c.get("queries", 0)
        k = P.nontrivial(c)
        if k is not None:
            nontrivial.add(k)
    r.coverage = {
        "obligations": r.proof.get("statements", 0), "discharged": r.proof.get("qed", 0) if proof_ok else 0,
        "checker_cmd": "make -C coq theories/Properties/%s.vo (coqc 8.16.1, full .vo build) + Print Assumptions + hygiene grep" % pid,
        "trusted_base": trusted_base(),
        "evaluations": nq, "distinct_nontrivial": len(nontrivial), "rule": P.RULE,
        "samples": [{"id": c["id"], "tags": c.get("tags"), "steps": c["steps"][:4]} for c in cases[:2]],
        "cases": len(cases), "corpus_cases": len(corpus), "extra_search_cases": searched_more,
        "known_class_hits": dict(hits), "theorem_hypothesis_unmet": hyp_unmet, "correspondence_failures": len(corr_fail),
        "input_distribution": dict(tagc),
        "proof": {k: v for k, v in r.proof.items() if k != "cone"},
    }
    extra = getattr(r, "extra_coverage", None)
    if extra:
        r.coverage["evaluations"] += extra.pop("evaluations", 0)
        r.coverage["distinct_nontrivial"] += extra.pop("distinct_nontrivial", 0)
        r.coverage.update(extra)
    r.assumptions = list(P.ASSUMPTIONS)
    return r.finish()


def replay_generic(r, P, path):
    """--replay for the properties driven by drive_ws: the recorded case is evaluated again on the current
    tree (harness + Coq verdict, evidence file untouched).  Replays of the protocol-level parts (handler part,
    line-end part, binary part: no single harness case) re-run the whole check, which repeats that part."""
    from common_ws import evaluate
    rp = json.load(open(path))
    case = rp.get("case")
    if isinstance(case, dict) and "steps" in case and hasattr(P, "MODULE") and not rp.get("part"):
        proof_stage(r, getattr(P, "EXTRA_TARGETS", ()))
        stdlib = set(core.tables()["stdlib_modules"])
        h1, _ = core.build_harness()
        case = dict(case)
        case.setdefault("id", 0)
        meta = evaluate(r, P.PID + "_replay", P.MODULE, P.VERDICT, [case], stdlib, h1, getattr(P, "to_coq", None))
        m = meta[case["id"]]
        if m.get("hang"):
            print("replay: the case outruns the harness watchdog")
            print("VIOLATION property=%s replay=%s" % (P.PID, path))
            return 1
        listed = listed_classes(P.PID, P.CLASS_BITS)
        corr, prop, known, mb = classify(m["codes"], listed.keys())
        if m["panics"]:
            prop = prop + ["panic@%d" % i for i, _ in m["panics"]]
        for s_ in [x for x in prop if isinstance(x, int)][:10]:
            print("replay: step %d %s -> %s" % (s_, json.dumps(case["steps"][s_])[:300], json.dumps(m["obs"][s_])[:300]))
        if prop or corr:
            print("VIOLATION property=%s replay=%s%s" % (P.PID, path, "" if prop else " no-failing-input-found"))
            return 1
        print("replay: the recorded case passes on the current tree (%d steps, %d inside listed classes)" % (len(case["steps"]), sum(len(v) for v in known.values())))
        return 0
    print("replay: %s records a finding of part %r (no single harness case); re-running the whole check" % (os.path.basename(path), rp.get("part", "?")))
    return P.run(r)


def shrink(P, c, m, prop, stdlib, h1, listed):
    """structural delta-debugging: drop analysed files / queries while the spec still
    rejects some implementation answer."""
    from common_ws import evaluate
    import copy

    def failing(case):
        meta = evaluate(None, P.PID + "_shrink", P.MODULE, P.VERDICT, [case], stdlib, h1, getattr(P, "to_coq", None))
        mm = meta[case["id"]]
        if mm.get("hang"):
            return mm, ["hang"]
        corr, prop, known, mb = classify(mm["codes"], listed.keys())
        if mm["panics"]:
            prop = prop + ["panic@%d" % i for i, _ in mm["panics"]]
        return mm, prop

    best, bm, bp = c, m, prop
    # keep only the first failing query, then try dropping each analyse step
    first = next((s for s in prop if isinstance(s, int)), None)
    if first is not None:
        cand = copy.deepcopy(best)
        cand["steps"] = [st for i, st in enumerate(best["steps"]) if "op" in st or i == first]
        mm, pp = failing(cand)
        if pp:
            best, bm, bp = cand, mm, pp
    changed = True
    rounds = 0
    while changed and rounds < 40:
        changed = False
        rounds += 1
        for i, st in enumerate(best["steps"]):
            if st.get("op") not in ("analyze", "mark_plugin", "close"):
                continue
            cand = copy.deepcopy(best)
            del cand["steps"][i]
            try:
                mm, pp = failing(cand)
            except Exception:
                continue
            if pp:
                best, bm, bp = cand, mm, pp
                changed = True
                break
    return best, bm, bp
