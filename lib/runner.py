"""The common flow of one check run (DESIGN §5)."""
import json, os, random, sys, time, traceback

import core
from core import VERIF, CACHE


def classify(codes):
    """codes of one case: list of (step, code) -> summary"""
    corr = [s for s, c in codes if c & 1]
    prop = [s for s, c in codes if (c & 2) and not (c & 4)]
    known = [s for s, c in codes if (c & 2) and (c & 4)]
    model_bad = [s for s, c in codes if (c & 8) and not (c & 4)]
    return corr, prop, known, model_bad


class Run:
    def __init__(self, pid, tier, seed):
        self.pid, self.tier, self.seed = pid, tier, seed
        self.t0 = time.time()
        self.violations = []      # (replay path, suffix)
        self.known_lines = []
        self.notes = []
        self.coverage = {}
        self.assumptions = []
        self.proof = {}

    # ---- reporting
    def replay_path(self, n):
        d = os.path.join(VERIF, "evidence", "replay")
        os.makedirs(d, exist_ok=True)
        return os.path.join(d, "%s_%s.json" % (self.pid, n))

    def violation(self, replay_obj, tag, no_input=False):
        p = self.replay_path(tag)
        core.write_json(p, replay_obj)
        self.violations.append((p, " no-failing-input-found" if no_input else ""))

    def finish(self):
        for line in self.known_lines:
            print(line)
        for p, suf in self.violations:
            print("VIOLATION property=%s replay=%s%s" % (self.pid, p, suf))
        ev = {
            "property_id": self.pid, "tier": self.tier, "seed": self.seed, "level": "proof",
            "coverage": self.coverage, "assumptions": self.assumptions,
            "wall_s": round(time.time() - self.t0, 2), "violations": len(self.violations),
            "known_findings": self.known_lines, "notes": self.notes,
        }
        core.write_json(os.path.join(VERIF, "evidence", self.pid + ".json"), ev)
        return 1 if self.violations else 0


def proof_stage(run, extra_targets=()):
    """tables + make of the property's cone + Print Assumptions + hygiene.
    Returns True if the proof side checks; otherwise records what broke in run.proof."""
    pid = run.pid
    ok = True
    try:
        core.tables()
    except core.TieBroken as e:
        run.proof["translator"] = e.detail
        return False
    targets = ["theories/Properties/%s.vo" % pid, "theories/Check/%s.vo" % pid] + list(extra_targets)
    rc, out, dt = core.coq_make(targets)
    run.proof["make_s"] = round(dt, 1)
    if rc != 0:
        run.proof["make_error"] = out[-3000:]
        import re
        m = re.search(r'File "([^"]+)", line (\d+)', out)
        run.proof["broken_at"] = "%s:%s" % (m.group(1), m.group(2)) if m else "?"
        ok = False
    bad = core.hygiene()
    if bad:
        run.proof["hygiene"] = bad
        ok = False
    if ok:
        pa, raw = core.print_assumptions(pid)
        if pa is None:
            run.proof["assumptions_error"] = raw
            ok = False
        else:
            run.proof["print_assumptions"] = pa
            extra = [a for a in pa["axioms"] if a not in core.ALLOWED_AXIOMS]
            if extra:
                run.proof["unexpected_axioms"] = extra
                ok = False
    stmts, qeds, cone = core.count_obligations(pid)
    run.proof["statements"] = stmts
    run.proof["qed"] = qeds
    run.proof["cone"] = cone
    return ok


def trusted_base():
    return [
        "Coq 8.16.1 kernel; vm_compute (kernel VM) for case evaluation and closed witness lemmas; no native_compute; no extraction",
        "Coq standard library only (String, List, NArith, Bool, Lia); Print Assumptions expected: Closed under the global context",
        "translator/gen_tables.py (regex extraction of constant tables from the Rust source, each anchor exactly once)",
        "correspondence check: gen/extract.py (syntactic extraction of file facts from CPython's ast), lib/coqlit.py (printing of cases as Gallina literals), harness/ (Rust H1 driving the real FixtureDatabase), case generators",
        "CPython 3.11 ast as independent parser; rustpython-parser trusted to agree on node ranges for the generated grammar (validated by the index dump comparison)",
        "modelled, not verified: DashMap (atomic calls, iteration order as oracle), rustpython-parser, Path::canonicalize (virtual paths are their own canonical form), the file system (virtual workspaces: no file exists on disk)",
    ]
