"""Shared machinery of ./check: tables, Coq build, harness build/run, case printing,
sharded evaluation of verdicts inside Coq, evidence and violation reporting."""
import hashlib, json, os, re, shutil, subprocess, sys, time

VERIF = os.path.dirname(os.path.dirname(os.path.abspath(__file__)))
REPO = os.environ.get("VERIF_REPO", "/repo")
CACHE = os.path.join(VERIF, ".cache")
COQ = os.path.join(VERIF, "coq")
GUARD = "pytest_language_server_verif"
sys.path.insert(0, os.path.join(VERIF, "gen"))
sys.path.insert(0, os.path.join(VERIF, "lib"))

import coqlit as L  # noqa: E402
import extract  # noqa: E402

NPROC = min(16, os.cpu_count() or 4)


def sh(cmd, timeout=None, cwd=None, env=None, check=False):
    e = dict(os.environ)
    e.update({"CARGO_NET_OFFLINE": "true"})
    if env:
        e.update(env)
    p = subprocess.run(cmd, shell=isinstance(cmd, str), cwd=cwd, env=e, timeout=timeout,
                       stdout=subprocess.PIPE, stderr=subprocess.STDOUT, text=True, errors="replace")
    if check and p.returncode != 0:
        raise RuntimeError("command failed (%s): %s\n%s" % (p.returncode, cmd, p.stdout[-4000:]))
    return p.returncode, p.stdout


# ---------------------------------------------------------------- tables (translator)
_tables = None


def tables():
    global _tables
    if _tables is None:
        os.makedirs(CACHE, exist_ok=True)
        rc, out = sh([sys.executable, os.path.join(VERIF, "translator", "gen_tables.py"), REPO,
                      os.path.join(COQ, "theories", "Generated", "Tables.v"), os.path.join(CACHE, "tables.json")])
        if rc != 0:
            raise TieBroken("translator", out.strip())
        _tables = json.load(open(os.path.join(CACHE, "tables.json")))
    return _tables


class TieBroken(Exception):
    """the tie between model and code could not be established (translator / proof / build)"""

    def __init__(self, what, detail):
        super().__init__(what + ": " + detail)
        self.what, self.detail = what, detail


class Hang(Exception):
    """a harness case did not return within the watchdog"""

    def __init__(self, name, case):
        super().__init__("%s: case %s outran the watchdog" % (name, case.get("id")))
        self.name, self.case = name, case


# ---------------------------------------------------------------- Coq
def coq_make(targets, timeout=1500):
    """full .vo build of the given targets (and their dependency cone)."""
    tables()
    if not os.path.exists(os.path.join(COQ, "Makefile")) or \
            os.path.getmtime(os.path.join(COQ, "Makefile")) < os.path.getmtime(os.path.join(COQ, "_CoqProject")):
        sh("coq_makefile -f _CoqProject -o Makefile", cwd=COQ, check=True)
    t0 = time.time()
    rc, out = sh(["make", "-j%d" % NPROC] + list(targets), cwd=COQ, timeout=timeout)
    return rc, out, time.time() - t0


HYGIENE = re.compile(r"\b(Admitted|admit|Axiom|Parameter|Conjecture|Hypothesis|Variable\b(?!s))|Unset Guard|bypass_check|type-in-type|Admit Obligations|Unset Positivity|Unset Universe")


def hygiene():
    """grep the development for forbidden declarations (Variables inside Sections are
    allowed: the grep reports Variable/Hypothesis lines outside a Section)."""
    bad = []
    for root, _, files in os.walk(os.path.join(COQ, "theories")):
        for f in files:
            if not f.endswith(".v"):
                continue
            depth = 0
            for i, line in enumerate(open(os.path.join(root, f), encoding="utf-8"), 1):
                code = re.sub(r"\(\*.*?\*\)", "", line)
                if re.match(r"\s*Section\b", code):
                    depth += 1
                if re.match(r"\s*End\b", code) and depth > 0:
                    depth -= 1
                for m in re.finditer(r"\b(Admitted|admit|Axiom|Parameter|Parameters|Conjecture|Admit Obligations)\b|Unset Guard|bypass_check|type-in-type|Unset Positivity|Unset Universe Checking", code):
                    bad.append("%s:%d: %s" % (os.path.join(root, f), i, m.group(0)))
                if depth == 0 and re.match(r"\s*(Variable|Variables|Hypothesis|Hypotheses|Context)\b", code):
                    bad.append("%s:%d: %s outside a Section" % (os.path.join(root, f), i, code.strip()))
    return bad


ALLOWED_AXIOMS = set()  # standard-library axioms the development is allowed to depend on (none so far)


def print_assumptions(prop_id):
    """re-compile Properties/<id>.v into a scratch dir and collect the Print Assumptions output."""
    src = os.path.join(COQ, "theories", "Properties", prop_id + ".v")
    if not os.path.exists(src):
        return None, "no Properties file"
    scratch = os.path.join(CACHE, "pa_" + prop_id)
    shutil.rmtree(scratch, ignore_errors=True)
    os.makedirs(scratch)
    dst = os.path.join(scratch, prop_id + "_pa.v")
    shutil.copy(src, dst)
    rc, out = sh(["coqc", "-noglob", "-Q", os.path.join(COQ, "theories"), "PLS", dst], timeout=900)
    shutil.rmtree(scratch, ignore_errors=True)
    if rc != 0:
        return None, out[-3000:]
    closed = out.count("Closed under the global context")
    axioms = []
    if "Axioms:" in out:
        for blk in out.split("Axioms:")[1:]:
            for line in blk.splitlines()[1:]:
                m = re.match(r"^([A-Za-z_][\w.']*)\s*:", line)
                if m:
                    axioms.append(m.group(1))
                elif line.strip() == "" or line.startswith("Closed"):
                    break
    return {"closed": closed, "axioms": sorted(set(axioms))}, out


def count_obligations(prop_id):
    """number of Qed-closed statements in the dependency cone of Properties/<id>.v"""
    rc, out = sh("coqdep -Q theories PLS theories/Properties/%s.v theories/*/*.v 2>/dev/null" % prop_id, cwd=COQ)
    deps = {}
    for line in out.splitlines():
        if ":" not in line:
            continue
        lhs, rhs = line.split(":", 1)
        tgt = lhs.split()[0]
        if tgt.endswith(".vo"):
            deps[tgt[:-1]] = [x[:-1] for x in rhs.split() if x.endswith(".vo") and x.startswith("theories/")]
    cone, todo = set(), ["theories/Properties/%s.v" % prop_id]
    while todo:
        f = todo.pop()
        if f in cone:
            continue
        cone.add(f)
        todo += deps.get(f, [])
    stmts = qeds = 0
    for f in sorted(cone):
        try:
            txt = open(os.path.join(COQ, f), encoding="utf-8").read()
        except OSError:
            continue
        txt = re.sub(r"\(\*.*?\*\)", "", txt, flags=re.S)
        qeds += len(re.findall(r"\b(Qed|Defined)\s*\.", txt))
    # every Qed/Defined closes exactly one proof obligation; a successful full .vo build
    # means each of them was accepted by the kernel
    return qeds, qeds, sorted(cone)


# ---------------------------------------------------------------- harness
def build_harness(timeout=1800):
    """build H1 from /repo's CURRENT working tree with the cfg guard on."""
    hdir = os.path.join(VERIF, "harness")
    lock_src = os.path.join(REPO, "Cargo.lock")
    lock_dst = os.path.join(hdir, "Cargo.lock")
    if not os.path.exists(lock_dst):
        shutil.copy(lock_src, lock_dst)
    t0 = time.time()
    tdir = os.path.join(CACHE, "target")
    rc, out = sh("cargo build --offline --target-dir %s 2>&1" % tdir, cwd=hdir, timeout=timeout)
    if rc != 0:
        raise TieBroken("harness-build", out[-3000:])
    h1 = os.path.join(tdir, "debug", "h1")
    if not os.path.exists(h1):
        raise TieBroken("harness-build", "no binary at %s after the build" % h1)
    return h1, time.time() - t0


def build_binary(timeout=1800):
    """build the real server / CLI binary from /repo's CURRENT working tree (guard OFF)
    into /verif/.cache/target_bin (nothing is written under /repo)."""
    tdir = os.path.join(CACHE, "target_bin")
    rc, out = sh(["cargo", "build", "--offline", "--bin", "pytest-language-server",
                  "--manifest-path", os.path.join(REPO, "Cargo.toml"), "--target-dir", tdir],
                 timeout=timeout, env={"RUSTFLAGS": ""})
    if rc != 0:
        raise TieBroken("binary-build", out[-3000:])
    return os.path.join(tdir, "debug", "pytest-language-server")


def build_h4(timeout=2400):
    """H4: the harness AND the server binary (compiled straight from /repo/src/main.rs) built
    against the instrumented copy of dashmap (harness/vendor/dashmap, [patch.crates-io] in a
    manifest generated here from /repo/Cargo.toml's dependency list; /repo is untouched)."""
    hdir = os.path.join(VERIF, "harness_h4")
    os.makedirs(os.path.join(hdir, ".cargo"), exist_ok=True)
    man = open(os.path.join(REPO, "Cargo.toml"), encoding="utf-8").read()
    m = re.search(r"\[dependencies\]\n(.*?)\n\[", man, re.S)
    if not m:
        raise TieBroken("h4-manifest", "no [dependencies] section in /repo/Cargo.toml")
    deps = m.group(1).strip()
    text = """[package]
name = "pls-verif-harness-h4"
version = "0.1.0"
edition = "2021"

[workspace]

[dependencies]
pytest-language-server = { path = "%s" }
%s

[[bin]]
name = "h4"
path = "../harness/src/main.rs"

[[bin]]
name = "pls_h4"
path = "%s/src/main.rs"

[profile.dev]
debug = 1
opt-level = 1

[patch.crates-io]
dashmap = { path = "../harness/vendor/dashmap" }
""" % (REPO, deps, REPO)
    mp = os.path.join(hdir, "Cargo.toml")
    if not os.path.exists(mp) or open(mp).read() != text:
        open(mp, "w").write(text)
    cfg = '[net]\noffline = true\n[build]\ntarget-dir = "%s"\nrustflags = ["--cfg", "%s"]\n' % (os.path.join(CACHE, "target_h4"), GUARD)
    cp = os.path.join(hdir, ".cargo", "config.toml")
    if not os.path.exists(cp) or open(cp).read() != cfg:
        open(cp, "w").write(cfg)
    lock_dst = os.path.join(hdir, "Cargo.lock")
    if not os.path.exists(lock_dst):
        shutil.copy(os.path.join(REPO, "Cargo.lock"), lock_dst)
    tdir = os.path.join(CACHE, "target_h4")          # the SAME directory is passed to cargo and returned
    rc, out = sh("cargo build --offline --target-dir %s 2>&1" % tdir, cwd=hdir, timeout=timeout)
    if rc != 0:
        raise TieBroken("h4-build", out[-3000:])
    d = os.path.join(tdir, "debug")
    for b in ("h4", "pls_h4"):
        if not os.path.exists(os.path.join(d, b)):
            raise TieBroken("h4-build", "no binary at %s after the build" % os.path.join(d, b))
    return os.path.join(d, "h4"), os.path.join(d, "pls_h4")


def run_h1(h1, cases, name, timeout=1200, allow_hang=False):
    """cases: [{"id":..,"ops":[..]}] -> {id: obs list}"""
    d = os.path.join(CACHE, "cases")
    os.makedirs(d, exist_ok=True)
    inp = os.path.join(d, name + ".in.json")
    outp = os.path.join(d, name + ".out.json")
    json.dump(cases, open(inp, "w"))
    if os.path.exists(outp):
        os.remove(outp)
    rc, out = sh([h1, inp, outp], timeout=timeout)
    if not os.path.exists(outp):
        raise RuntimeError("harness produced no output (rc=%s): %s" % (rc, out[-2000:]))
    res = json.load(open(outp))
    got = {r["id"]: r for r in res}
    if not allow_hang:
        # the harness stops at the first case that outruns its watchdog: the callers that do not
        # treat that themselves get it reported with the operations of that case as the replay
        for c in cases:
            if c["id"] in got and got[c["id"]].get("hang"):
                raise Hang(name, c)
        missing = [c["id"] for c in cases if c["id"] not in got]
        if missing:
            raise TieBroken("harness", "harness %s returned no result for cases %s (rc=%s): %s" % (name, missing[:5], rc, out[-600:]))
    return got, rc


# ---------------------------------------------------------------- cases -> Coq
def h1_op(step):
    """a case step -> the harness op"""
    if "op" in step:
        o = dict(step)
        if o["op"] == "analyze" and o.get("fresh"):
            o["op"] = "analyze_fresh"
        return o
    q = dict(step)
    q["op"] = q.pop("q")
    return q


def text_ids(case):
    ids = {}
    for st in case["steps"]:
        if st.get("op") == "analyze" and st["text"] not in ids:
            ids[st["text"]] = len(ids) + 1
    return ids


def coq_step(step, obs, ids, stdlib):
    """case step + implementation observation -> Gallina [step] (None: not representable)"""
    if "op" in step:
        k = step["op"]
        if k == "analyze":
            if FACTS_IN_COQ:
                # the facts are computed INSIDE Coq by the analyzer model (Model/Analyzer.v facts_of,
                # the function C03's theorems are about) from CPython's tree of the text
                import py2coq
                return "Op (OAnalyze %s %s (facts_of %d %s %s))" % (
                    L.cbool(not step.get("fresh")), L.cpath(step["path"]), ids[step["text"]],
                    py2coq.ctext(step["text"]), py2coq.cmodule(step["text"]))
            f = extract.extract(step["text"], stdlib)
            return "Op (OAnalyze %s %s %s)" % (L.cbool(not step.get("fresh")), L.cpath(step["path"]),
                                               L.cfacts(f, ids[step["text"]]))
        if k == "close":
            return "Op (OClose %s)" % L.cpath(step["path"])
        if k == "mark_plugin":
            return "Op (OMarkPlugin %s)" % L.cpath(step["path"])
        raise ValueError(k)
    k = step["q"]
    if isinstance(obs, dict) and "panic" in obs:
        return None
    if k == "goto":
        return "Ask (QGoto %s %s %s %s)" % (L.cpath(step["path"]), L.cN(step["line"]), L.cN(step["col"]), L.coptdef(obs))
    if k == "refs":
        if obs.get("nodef"):
            return None
        return "Ask (QRefs %s %s)" % (L.cfdef(obs["def"]), L.clist([L.cusage(u) for u in obs["refs"]]))
    if k == "available":
        return "Ask (QAvailable %s %s)" % (L.cpath(step["path"]), L.clist([L.cfdef(d) for d in obs]))
    if k == "imported":
        return "Ask (QImported %s %s)" % (L.cpath(step["path"]), L.clist([L.cstr(x) for x in obs]))
    if k == "closest":
        return "Ask (QClosest %s %s %s)" % (L.cpath(step["path"]), L.cstr(step["name"]), L.coptdef(obs))
    if k == "resolve_for_file":
        return "Ask (QResolveForFile %s %s %s)" % (L.cpath(step["path"]), L.cstr(step["name"]), L.coptdef(obs))
    if k == "is_available":
        return "Ask (QIsAvailable %s %s %s)" % (L.cpath(step["path"]), L.cstr(step["name"]), L.cbool(obs))
    if k == "goto_or_def":
        return "Ask (QGotoOrDef %s %s %s %s)" % (L.cpath(step["path"]), L.cN(step["line"]), L.cN(step["col"]), L.coptdef(obs))
    if k == "name_at":
        return "Ask (QNameAt %s %s %s %s)" % (L.cpath(step["path"]), L.cN(step["line"]), L.cN(step["col"]), L.copt(obs, L.cstr))
    if k == "refsx":
        if obs.get("nodef"):
            return None
        return "Ask (QRefsX %s %s %s)" % (
            L.cfdef(obs["def"]), L.clist([L.cusage(u) for u in obs["refs"]]),
            L.clist(["(%s, %s)" % (L.cusage(g["usage"]), L.coptdef(g["ans"])) for g in obs["gotos"]]))
    if k == "agree":
        return "Ask (QAgree %s %s %s)" % (
            L.cpath(step["path"]), L.clist([L.cfdef(d) for d in obs["available"]]),
            L.clist(["(%s, %s, %s)" % (L.cstr(x["name"]), L.coptdef(x["closest"]), L.coptdef(x["rff"])) for x in obs["names"]]))
    if k in ("cycles", "cycles_in_file"):
        cs = L.clist(["(mk_cycle %s %s)" % (L.clist([L.cstr(x) for x in c["path"]]), L.cfdef(c["fixture"])) for c in obs])
        return "Ask (QCycles %s)" % cs if k == "cycles" else "Ask (QCyclesInFile %s %s)" % (L.cpath(step["path"]), cs)
    if k == "mismatches":
        return "Ask (QMismatches %s %s)" % (L.cpath(step["path"]), L.clist(
            ["(mk_mismatch %s %s)" % (L.cfdef(m["fixture"]), L.cfdef(m["dependency"])) for m in obs]))
    if k == "dump":
        return "Ask (QDump %s)" % L.cdump(obs, ids)
    raise ValueError(k)


def coq_wcase(case, obs_list, stdlib):
    """-> (Gallina term, index map coq step index -> case step index, panics)"""
    ids = text_ids(case)
    steps, idx, panics = [], [], []
    for i, (st, ob) in enumerate(zip(case["steps"], obs_list)):
        if isinstance(ob, dict) and "panic" in ob:
            panics.append((i, ob["panic"]))
        t = coq_step(st, ob, ids, stdlib)
        if t is not None:
            steps.append(t)
            idx.append(i)
    disk = "[]"
    roots = "[]"
    return "(mk_wcase %s %s %s)" % (disk, roots, L.clist(steps)), idx, panics


FACTS_IN_COQ = os.environ.get("VERIF_FACTS", "coq") == "coq"
HEADER = """From PLS Require Import Model.Analyzer.
From PLS Require Import %s.
Open Scope string_scope. Open Scope N_scope. Open Scope list_scope.
"""


def eval_in_coq(name, module, verdict_expr, terms, per_shard=None, timeout=1500):
    """terms: list of (case id (int), Gallina wcase term).  Evaluates
    `verdict_expr <term>` for every case with vm_compute, sharded over NPROC coqc
    processes.  Returns {case id: [(step, code), ...]}."""
    d = os.path.join(CACHE, "cases", name)
    shutil.rmtree(d, ignore_errors=True)
    os.makedirs(d)
    n = len(terms)
    if n == 0:
        return {}
    nshards = min(NPROC, n) if per_shard is None else max(1, (n + per_shard - 1) // per_shard)
    shards = [terms[i::nshards] for i in range(nshards)]
    paths = []
    for k, sh_terms in enumerate(shards):
        path = os.path.join(d, "shard_%d.v" % k)
        with open(path, "w", encoding="utf-8") as f:
            f.write(HEADER % module)
            for cid, term in sh_terms:
                f.write("Eval vm_compute in (CASE %d, %s %s).\n" % (cid, verdict_expr or "", term))
        paths.append((k, path))
    result = {}
    # at most NPROC coqc processes at a time (a thorough run can have hundreds of shards)
    pending, running = list(paths), []

    def start(k, path):
        return (k, subprocess.Popen(
            ["timeout", str(timeout), "coqc", "-noglob", "-Q", os.path.join(COQ, "theories"), "PLS", path],
            stdout=subprocess.PIPE, stderr=subprocess.STDOUT, text=True, errors="replace", cwd=d))
    while pending or running:
        while pending and len(running) < NPROC:
            running.append(start(*pending.pop(0)))
        k, p = running.pop(0)
        out, _ = p.communicate()
        if p.returncode != 0:
            for _, q in running:
                q.kill()
            raise TieBroken("coq-eval", "shard %d of %s failed (rc=%s): %s" % (k, name, p.returncode, out[-3000:]))
        for blk in out.split("= (CASE ")[1:]:
            m = re.match(r"\s*(\d+),", blk)
            cid = int(m.group(1))
            body = blk[m.end():]
            body = body.split(": tag *")[0]
            result[cid] = [(int(a), int(b)) for a, b in re.findall(r"\((\d+),\s*(\d+)\)", body)]
    missing = [cid for cid, _ in terms if cid not in result]
    if missing:
        raise TieBroken("coq-eval", "no verdict printed for cases %s" % missing[:5])
    return result


# ---------------------------------------------------------------- evidence / reporting
def write_json(path, obj):
    os.makedirs(os.path.dirname(path), exist_ok=True)
    tmp = path + ".tmp"
    json.dump(obj, open(tmp, "w"), indent=1, sort_keys=True)
    os.replace(tmp, path)


def load_known_findings():
    p = os.path.join(VERIF, "known_findings.json")
    if not os.path.exists(p):
        return {"findings": [], "fixed": []}
    return json.load(open(p))
