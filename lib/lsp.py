"""Minimal synchronous LSP stdio driver for pytest-language-server (stdlib only).

One message in flight at a time.  A reader thread parses server output, keeps
notifications, and answers server->client requests with a null result (the
server awaits `workspace/inlayHint/refresh` inside its didChange handler, so
unanswered requests would eventually wedge it); a second thread drains stderr.
Every wait, on the read side and on the write side, is bounded by a timeout.
"""
from __future__ import annotations

import collections
import json
import os
import select
import subprocess
import threading
import time
import urllib.parse

__all__ = ["Server", "LspError", "ServerDied", "path_to_uri", "uri_to_path"]

_MISSING = object()


class LspError(Exception):
    """JSON-RPC 'error' response (code/message/data) or a driver-level failure."""

    def __init__(self, message, code=None, data=None):
        super().__init__(message)
        self.code, self.message, self.data = code, message, data


class ServerDied(LspError):
    """The server exited / closed its pipes, or the stream became unusable."""


def path_to_uri(path: str) -> str:
    """file URI as ls-types `Uri::from_file_path` builds it on POSIX: every byte except
    ASCII alphanumerics and `-._~/` is percent-encoded (UTF-8, upper-case hex)."""
    path = os.fspath(path)
    if not path.startswith("/"):
        path = os.path.abspath(path)
    return "file://" + urllib.parse.quote(path, safe="/")


def uri_to_path(uri: str) -> str:
    """As ls-types `Uri::to_file_path`: path component only (authority, query and
    fragment dropped), percent-decoded lossily, no normalisation of `..` or `//`."""
    rest = uri.split(":", 1)[1] if ":" in uri else uri
    if rest.startswith("//"):
        slash = rest.find("/", 2)
        rest = rest[slash:] if slash >= 0 else ""
    for sep in ("#", "?"):
        rest = rest.split(sep, 1)[0]
    return urllib.parse.unquote(rest, errors="replace")


_CLIENT_CAPS = {
    "workspace": {"inlayHint": {"refreshSupport": True}, "workspaceFolders": True},
    "textDocument": {
        "publishDiagnostics": {}, "hover": {"contentFormat": ["markdown", "plaintext"]},
        "documentSymbol": {"hierarchicalDocumentSymbolSupport": True},
        "codeAction": {"codeActionLiteralSupport": {"codeActionKind": {"valueSet": ["quickfix"]}}},
        "callHierarchy": {}, "inlayHint": {}, "codeLens": {}, "completion": {}},
    "window": {"workDoneProgress": True},
}


class Server:
    def __init__(self, binary: str, root: str | None = None, init_options: dict | None = None,
                 env: dict | None = None, timeout: float = 20.0):
        self.timeout = float(timeout)
        self._proc = subprocess.Popen([binary], stdin=subprocess.PIPE, stdout=subprocess.PIPE,
                                      stderr=subprocess.PIPE, env={**os.environ, **(env or {})},
                                      bufsize=0)
        self._wfd = self._proc.stdin.fileno()
        os.set_blocking(self._wfd, False)
        self._cv = threading.Condition()     # guards everything the reader thread touches
        self._wlock = threading.Lock()       # serialises frames written to stdin
        self._call = threading.RLock()       # one client call at a time
        self._next_id = 0
        self._pending: set = set()           # request ids somebody is waiting for
        self._responses: dict = {}
        self._diags: dict = {}               # uri -> last diagnostics list
        self._diag_seq: dict = {}            # uri -> number of publishes seen
        self._notes = collections.deque(maxlen=20000)          # (method, params) notifications
        self.server_requests = collections.deque(maxlen=2000)  # (method, params) we answered
        self._stderr = collections.deque(maxlen=512)           # chunks of <= 4 KiB
        self._eof = self._closed = False
        self._broken = ""                    # reason the connection became unusable
        self._threads = [threading.Thread(target=f, daemon=True, name=n)
                         for f, n in ((self._read_loop, "lsp-stdout"), (self._err_loop, "lsp-stderr"))]
        for t in self._threads:
            t.start()
        try:
            uri = path_to_uri(root) if root is not None else None
            result = self.request("initialize", {
                "processId": os.getpid(), "clientInfo": {"name": "verif-lsp-driver"},
                "rootUri": uri, "initializationOptions": init_options,
                "workspaceFolders": [{"uri": uri, "name": os.path.basename(root) or "/"}] if uri else None,
                "capabilities": _CLIENT_CAPS}) or {}
            self.capabilities = result.get("capabilities", {})
            self.server_info = result.get("serverInfo")
            self.notify("initialized", {})
        except BaseException:
            self._kill()
            raise

    # ------------------------------------------------------------------ I/O
    def _read_loop(self):
        out, buf = self._proc.stdout, b""
        try:
            while True:
                while b"\r\n\r\n" not in buf:
                    chunk = out.read(65536)
                    if not chunk:
                        return
                    buf += chunk
                head, buf = buf.split(b"\r\n\r\n", 1)
                length = 0
                for line in head.split(b"\r\n"):
                    k, _, v = line.partition(b":")
                    if k.strip().lower() == b"content-length":
                        length = int(v.strip())
                while len(buf) < length:
                    chunk = out.read(max(65536, length - len(buf)))
                    if not chunk:
                        return
                    buf += chunk
                body, buf = buf[:length], buf[length:]
                try:
                    msg = json.loads(body.decode("utf-8", "replace"))
                except ValueError:
                    msg = {"method": "$/driver/badJson", "params": {"raw": body[:2000].decode("latin-1")}}
                self._dispatch(msg)
        except (OSError, ValueError):
            pass
        finally:
            with self._cv:
                self._eof = True
                self._cv.notify_all()

    def _dispatch(self, msg):
        if not isinstance(msg, dict):
            return
        method, mid, params = msg.get("method"), msg.get("id"), msg.get("params")
        if method is None:                                   # response to one of our requests
            with self._cv:
                if mid in self._pending:                     # late answers to timed-out calls are dropped
                    self._responses[mid] = msg
                    self._cv.notify_all()
        elif "id" in msg:                                    # server -> client request: answer null
            self.server_requests.append((method, params))
            try:
                self._send({"jsonrpc": "2.0", "id": mid, "result": None}, 5.0)
            except (LspError, TimeoutError):
                pass
        else:                                                # notification
            with self._cv:
                self._notes.append((method, params))
                if method == "textDocument/publishDiagnostics" and isinstance(params, dict):
                    uri = params.get("uri")
                    self._diags[uri] = params.get("diagnostics") or []
                    self._diag_seq[uri] = self._diag_seq.get(uri, 0) + 1
                self._cv.notify_all()

    def _err_loop(self):
        try:
            while chunk := self._proc.stderr.read(4096):
                self._stderr.append(chunk)
        except (OSError, ValueError):
            pass

    def _send(self, msg, timeout=None):
        body = json.dumps(msg, separators=(",", ":"), ensure_ascii=False).encode("utf-8")
        data = memoryview(b"Content-Length: %d\r\n\r\n" % len(body) + body)
        total = len(data)
        deadline = time.monotonic() + (self.timeout if timeout is None else timeout)
        with self._wlock:
            if self._closed or self._broken:
                raise ServerDied(self._broken or "server connection is closed")
            while data:
                left = deadline - time.monotonic()
                if left <= 0:
                    if len(data) < total:    # half a frame went out: the stream is unusable now
                        self._broken = "stdin stream desynchronised by an earlier write timeout"
                    raise TimeoutError("server does not read its stdin (%d bytes unsent)" % len(data))
                try:
                    if not select.select([], [self._wfd], [], min(left, 0.5))[1]:
                        if self._proc.poll() is not None:
                            raise ServerDied("server exited with code %s" % self._proc.returncode)
                        continue
                    data = data[os.write(self._wfd, data):]
                except BlockingIOError:
                    continue
                except (OSError, ValueError) as e:
                    raise ServerDied("write to server failed: %r" % (e,)) from None

    def _wait(self, probe, timeout, what):
        """Wait until probe() (called under the lock) returns something other than _MISSING."""
        deadline = time.monotonic() + (self.timeout if timeout is None else timeout)
        with self._cv:
            while (got := probe()) is _MISSING and not self._eof:
                left = deadline - time.monotonic()
                if left <= 0:
                    raise TimeoutError("no %s within timeout" % what)
                self._cv.wait(left)
        if got is not _MISSING:
            return got
        try:
            self._proc.wait(1.0)             # reap, so the exit code (101 = panic, <0 = signal) shows
        except subprocess.TimeoutExpired:
            pass
        raise ServerDied("server closed stdout while waiting for %s (exit code %s)"
                         % (what, self._proc.poll()))

    # ------------------------------------------------------------ JSON-RPC
    def notify(self, method: str, params=None) -> None:
        msg = {"jsonrpc": "2.0", "method": method}
        if params is not None:
            msg["params"] = params
        with self._call:
            self._send(msg)

    def request(self, method: str, params: dict | None, timeout: float | None = None) -> object:
        with self._call:
            self._next_id += 1
            rid = self._next_id
            msg = {"jsonrpc": "2.0", "id": rid, "method": method}
            if params is not None:
                msg["params"] = params
            with self._cv:
                self._pending.add(rid)
            try:
                self._send(msg, timeout)
                resp = self._wait(lambda: self._responses.pop(rid, _MISSING), timeout,
                                  "response to %s (id %d)" % (method, rid))
            finally:
                with self._cv:
                    self._pending.discard(rid)
                    self._responses.pop(rid, None)
        if resp.get("error") is not None:
            e = resp["error"]
            raise LspError(e.get("message", "error"), e.get("code"), e.get("data"))
        return resp.get("result")

    # ----------------------------------------------------------- documents
    def _sync(self, method, params, uri):
        """Send a didOpen/didChange and wait for the next publishDiagnostics for `uri`."""
        with self._call:
            with self._cv:
                before = self._diag_seq.get(uri, 0)
            self.notify(method, params)
            return self._wait(
                lambda: list(self._diags[uri]) if self._diag_seq.get(uri, 0) > before else _MISSING,
                None, "publishDiagnostics for %s after %s" % (uri, method))

    def open(self, path: str, text: str, version: int = 1) -> list:
        uri = path_to_uri(path)
        return self._sync("textDocument/didOpen", {"textDocument": {
            "uri": uri, "languageId": "python", "version": version, "text": text}}, uri)

    def change(self, path: str, text: str, version: int) -> list:
        uri = path_to_uri(path)
        return self._sync("textDocument/didChange", {
            "textDocument": {"uri": uri, "version": version}, "contentChanges": [{"text": text}]}, uri)

    def close(self, path: str) -> None:
        self.notify("textDocument/didClose", self._doc(path))

    def last_diagnostics(self, path: str) -> list | None:
        with self._cv:
            d = self._diags.get(path_to_uri(path))
            return None if d is None else list(d)

    # ------------------------------------------------------------ requests
    @staticmethod
    def _doc(path, **extra):
        return {"textDocument": {"uri": path_to_uri(path)}, **extra}

    def _at(self, method, path, line, character, **extra):
        return self.request("textDocument/" + method, self._doc(
            path, position={"line": line, "character": character}, **extra))

    def definition(self, path, line, character):
        return self._at("definition", path, line, character)
    def implementation(self, path, line, character):
        return self._at("implementation", path, line, character)
    def hover(self, path, line, character):
        return self._at("hover", path, line, character)
    def prepare_call_hierarchy(self, path, line, character):
        return self._at("prepareCallHierarchy", path, line, character)
    def references(self, path, line, character, include_declaration=True):
        return self._at("references", path, line, character,
                        context={"includeDeclaration": bool(include_declaration)})
    def completion(self, path, line, character, trigger=None):
        ctx = {"triggerKind": 1} if trigger is None else {"triggerKind": 2, "triggerCharacter": trigger}
        return self._at("completion", path, line, character, context=ctx)
    def code_action(self, path, range_dict, diagnostics, only=None):
        ctx = {"diagnostics": list(diagnostics), **({"only": list(only)} if only is not None else {})}
        return self.request("textDocument/codeAction", self._doc(path, range=range_dict, context=ctx))
    def code_lens(self, path):
        return self.request("textDocument/codeLens", self._doc(path))
    def inlay_hint(self, path, range_dict):
        return self.request("textDocument/inlayHint", self._doc(path, range=range_dict))
    def document_symbol(self, path):
        return self.request("textDocument/documentSymbol", self._doc(path))
    def workspace_symbol(self, query):
        return self.request("workspace/symbol", {"query": query})
    def incoming_calls(self, item):
        return self.request("callHierarchy/incomingCalls", {"item": item})
    def outgoing_calls(self, item):
        return self.request("callHierarchy/outgoingCalls", {"item": item})

    # --------------------------------------------------------- observation
    def notifications(self, method: str | None = None) -> list:
        """Snapshot of the (method, params) notifications received so far (bounded history)."""
        with self._cv:
            return [n for n in self._notes if method is None or n[0] == method]

    def wait_for_log(self, text: str, timeout: float | None = None) -> bool:
        """True once some window/logMessage contained `text` (after a rooted initialize:
        'Workspace scan complete'); False on timeout or server death."""
        def probe():
            return True if any(m == "window/logMessage" and text in str((p or {}).get("message"))
                               for m, p in self._notes) else _MISSING
        try:
            return self._wait(probe, timeout, "log message %r" % text)
        except (TimeoutError, ServerDied):
            return False

    def stderr_tail(self, max_bytes: int = 8192) -> str:
        return b"".join(list(self._stderr))[-max_bytes:].decode("utf-8", "replace")

    def alive(self) -> bool:
        return not (self._closed or self._broken or self._eof) and self._proc.poll() is None

    @property
    def returncode(self):
        return self._proc.poll()

    # ------------------------------------------------------------ teardown
    def _kill(self):
        self._closed = True
        try:
            if self._proc.poll() is None:
                self._proc.kill()
            self._proc.wait(5)
        except (OSError, subprocess.TimeoutExpired):
            pass
        for t in self._threads:              # both pipes hit EOF once the process is gone
            t.join(2)
        for f in (self._proc.stdin, self._proc.stdout, self._proc.stderr):
            try:
                f.close()
            except (OSError, ValueError):
                pass

    def shutdown(self) -> None:
        if self._closed:
            return
        try:
            if self.alive():
                self.request("shutdown", None, timeout=min(self.timeout, 5.0))
                self.notify("exit")
                self._proc.wait(2)           # the server force-exits ~100 ms after 'shutdown'
        except (LspError, TimeoutError, subprocess.TimeoutExpired, OSError):
            pass
        finally:
            self._kill()

    def __enter__(self):
        return self

    def __exit__(self, *exc):
        self.shutdown()

    def __del__(self):
        if not getattr(self, "_closed", True):
            self._kill()
