"""CPython ast -> Gallina literal of Model/Ast.v ([list stmt]).

The independent parser of the correspondence check: the real analyzer runs on
rustpython's tree of the same text; the Coq model (Model/Analyzer.v) runs on CPython's.
Positions are (lineno, utf-8 byte column) exactly as CPython reports them."""
import ast

from coqlit import cstr, cbool, cN, clist, copt


def cexpr(e):
    if e is None:
        raise ValueError("None expr")
    if isinstance(e, ast.Name):
        return "(EName %s %d %d %d)" % (cstr(e.id), e.lineno, e.col_offset, e.end_col_offset)
    if isinstance(e, ast.Attribute):
        return "(EAttr %s %s)" % (cexpr(e.value), cstr(e.attr))
    if isinstance(e, ast.Call):
        kws = clist(["(%s, %s)" % (copt(k.arg, cstr), cexpr(k.value)) for k in e.keywords])
        return "(ECall %s %s %s)" % (cexpr(e.func), clist([cexpr(a) for a in e.args]), kws)
    if isinstance(e, ast.Constant):
        v = e.value
        if isinstance(v, str):
            return "(EStr %s %d %d %d %d)" % (cstr(v), e.lineno, e.col_offset, e.end_lineno, e.end_col_offset)
        if isinstance(v, bool):
            return "(EBool %s)" % cbool(v)
        if v is None:
            return '(EConst "None")'
        if v is Ellipsis:
            return '(EConst "Ellipsis")'
        if isinstance(v, int):
            return "(EConst %s)" % cstr("Int(%d)" % v)
        if isinstance(v, float):
            return "(EConst %s)" % cstr("Float(%r)" % v)
        if isinstance(v, bytes):
            return '(EConst "Bytes(..)")'
        return '(EConst "Const(?)")'
    if isinstance(e, ast.List):
        return "(EList %s)" % clist([cexpr(x) for x in e.elts])
    if isinstance(e, ast.Tuple):
        return "(ETuple %s)" % clist([cexpr(x) for x in e.elts])
    if isinstance(e, ast.Dict):
        return "(EDict %s %s)" % (clist(["None" if k is None else "(Some %s)" % cexpr(k) for k in e.keys]),
                                  clist([cexpr(v) for v in e.values]))
    if isinstance(e, ast.Subscript):
        return "(ESubscript %s %s)" % (cexpr(e.value), cexpr(e.slice))
    if isinstance(e, ast.BinOp):
        return "(EBinOp %s %s %s)" % (cbool(isinstance(e.op, ast.BitOr)), cexpr(e.left), cexpr(e.right))
    if isinstance(e, ast.UnaryOp):
        return "(EUnaryOp %s)" % cexpr(e.operand)
    if isinstance(e, ast.BoolOp):
        return "(EBoolOp %s)" % clist([cexpr(x) for x in e.values])
    if isinstance(e, ast.Set):
        return "(ESet %s)" % clist([cexpr(x) for x in e.elts])
    if isinstance(e, ast.Compare):
        return "(ECompare %s %s)" % (cexpr(e.left), clist([cexpr(c) for c in e.comparators]))
    if isinstance(e, ast.Yield):
        return "(EYield %s %d)" % ("None" if e.value is None else "(Some %s)" % cexpr(e.value), e.lineno)
    if isinstance(e, ast.YieldFrom):
        return "(EYieldFrom %s %d)" % (cexpr(e.value), e.lineno)
    if isinstance(e, ast.Await):
        return "(EAwait %s)" % cexpr(e.value)
    # everything the analyzer does not look into: keep the child expressions
    kids = [c for c in ast.iter_child_nodes(e) if isinstance(c, ast.expr)]
    for c in ast.iter_child_nodes(e):
        if isinstance(c, ast.comprehension):
            kids += [c.target, c.iter] + list(c.ifs)
        elif isinstance(c, ast.keyword):
            kids.append(c.value)
    return "(EOther %s)" % clist([cexpr(k) for k in kids])


def carg(a, has_default):
    return "(mk_arg %s %d %d %s %s)" % (cstr(a.arg), a.lineno, a.col_offset, cbool(has_default), cbool(a.annotation is not None))


def cargs(args):
    pos = list(args.posonlyargs) + list(args.args)
    nd = len(args.defaults)
    out = []
    for i, a in enumerate(pos):
        out.append(carg(a, i >= len(pos) - nd))
    for a, d in zip(args.kwonlyargs, args.kw_defaults):
        out.append(carg(a, d is not None))
    return clist(out)


def cblock(b):
    return clist([cstmt(s) for s in b])


def calias(names):
    return clist(["(%s, %s)" % (cstr(a.name), copt(a.asname, cstr)) for a in names])


def cstmt(s):
    if isinstance(s, (ast.FunctionDef, ast.AsyncFunctionDef)):
        return "(SFunctionDef %s %s %s %s %s %s %d %d)" % (
            cbool(isinstance(s, ast.AsyncFunctionDef)), cstr(s.name), clist([cexpr(d) for d in s.decorator_list]),
            cargs(s.args), "None" if s.returns is None else "(Some %s)" % cexpr(s.returns), cblock(s.body),
            s.lineno, s.end_lineno)
    if isinstance(s, ast.ClassDef):
        return "(SClassDef %s %s %s)" % (cstr(s.name), clist([cexpr(d) for d in s.decorator_list]), cblock(s.body))
    if isinstance(s, ast.Assign):
        return "(SAssign %s %s %d)" % (clist([cexpr(t) for t in s.targets]), cexpr(s.value), s.lineno)
    if isinstance(s, ast.AnnAssign):
        return "(SAnnAssign %s %s %d)" % (cexpr(s.target), "None" if s.value is None else "(Some %s)" % cexpr(s.value), s.lineno)
    if isinstance(s, ast.AugAssign):
        return "(SAugAssign %s %s %d)" % (cexpr(s.target), cexpr(s.value), s.lineno)
    if isinstance(s, ast.Expr):
        return "(SExpr %s)" % cexpr(s.value)
    if isinstance(s, ast.Return):
        return "(SReturn %s)" % ("None" if s.value is None else "(Some %s)" % cexpr(s.value))
    if isinstance(s, ast.If):
        return "(SIf %s %s %s)" % (cexpr(s.test), cblock(s.body), cblock(s.orelse))
    if isinstance(s, ast.While):
        return "(SWhile %s %s %s)" % (cexpr(s.test), cblock(s.body), cblock(s.orelse))
    if isinstance(s, (ast.For, ast.AsyncFor)):
        return "(SFor %s %s %s %s %s %d)" % (cbool(isinstance(s, ast.AsyncFor)), cexpr(s.target), cexpr(s.iter),
                                             cblock(s.body), cblock(s.orelse), s.lineno)
    if isinstance(s, (ast.With, ast.AsyncWith)):
        items = clist(["(%s, %s)" % (cexpr(i.context_expr), "None" if i.optional_vars is None else "(Some %s)" % cexpr(i.optional_vars))
                       for i in s.items])
        return "(SWith %s %s %s %d)" % (cbool(isinstance(s, ast.AsyncWith)), items, cblock(s.body), s.lineno)
    if isinstance(s, ast.Try):
        return "(STry %s %s %s %s)" % (cblock(s.body), clist([cblock(h.body) for h in s.handlers]), cblock(s.orelse), cblock(s.finalbody))
    if isinstance(s, ast.Assert):
        return "(SAssert %s %s)" % (cexpr(s.test), "None" if s.msg is None else "(Some %s)" % cexpr(s.msg))
    if isinstance(s, ast.Import):
        return "(SImport %s)" % calias(s.names)
    if isinstance(s, ast.ImportFrom):
        mod = s.module.split(".") if s.module else []
        return "(SImportFrom %d %s %s)" % (s.level or 0, clist([cstr(m) for m in mod]), calias(s.names))
    # match, try*, delete, raise, global, nonlocal, pass, break, continue, type aliases ...
    exprs = [c for c in ast.iter_child_nodes(s) if isinstance(c, ast.expr)]
    blocks = []
    for name in ("body", "orelse", "finalbody"):
        b = getattr(s, name, None)
        if isinstance(b, list) and b and isinstance(b[0], ast.stmt):
            blocks.append(b)
    for h in getattr(s, "handlers", []) or []:
        blocks.append(h.body)
    for c in getattr(s, "cases", []) or []:
        blocks.append(c.body)
    return "(SOther %s %s)" % (clist([cexpr(e) for e in exprs]), clist([cblock(b) for b in blocks]))


def ctext(s):
    return "[" + "; ".join(str(ord(c)) for c in s) + "]"


def cmodule(text):
    """-> Gallina [option (list stmt)]"""
    try:
        tree = ast.parse(text)
    except (SyntaxError, ValueError, RecursionError):
        return "None"
    return "(Some %s)" % cblock(tree.body)


# ---------------------------------------------------------------- layout for Model/Completion.v
def _cdec(d):
    return "(mk_cdec %s %d %d)" % (cexpr(d), d.lineno, d.end_lineno)


def _cmark(e):
    if isinstance(e, ast.Call):
        return "(CMCall %s %d %d)" % (cexpr(e.func), e.lineno, e.end_lineno)
    if isinstance(e, (ast.List, ast.Tuple)):
        return "(CMSeq %s)" % clist([_cmark(x) for x in e.elts])
    return "CMOther"


def clayout_stmt(s):
    if isinstance(s, (ast.FunctionDef, ast.AsyncFunctionDef)):
        a = s.args
        params = [x.arg for x in list(a.posonlyargs) + list(a.args) + list(a.kwonlyargs)]
        ends = [(x.end_lineno, x.end_col_offset) for x in list(a.posonlyargs) + list(a.args) + list(a.kwonlyargs)
                + ([a.vararg] if a.vararg else []) + ([a.kwarg] if a.kwarg else [])]
        if s.returns is not None:
            ends.append((s.returns.end_lineno, s.returns.end_col_offset))
        sig_last = max(ends)[0] if ends else None
        body_first = s.body[0].lineno if s.body else None
        return "(CFun %s %s %s %s %s %d %d)" % (cstr(s.name), clist([_cdec(d) for d in s.decorator_list]), clist([cstr(p) for p in params]),
                                             copt(sig_last, str), copt(body_first, str), s.lineno, s.end_lineno)
    if isinstance(s, ast.ClassDef):
        return "(CClass %s %s)" % (clist([_cdec(d) for d in s.decorator_list]), clist([clayout_stmt(x) for x in s.body]))
    if isinstance(s, ast.Assign) and any(isinstance(t, ast.Name) and t.id == "pytestmark" for t in s.targets):
        return "(CMark (Some %s) %d %d)" % (_cmark(s.value), s.lineno, s.end_lineno)
    if isinstance(s, ast.AnnAssign) and isinstance(s.target, ast.Name) and s.target.id == "pytestmark":
        return "(CMark %s %d %d)" % ("None" if s.value is None else "(Some %s)" % _cmark(s.value), s.lineno, s.end_lineno)
    return "COther"


def clayout(text):
    """-> Gallina [option (list cstmt)]"""
    try:
        tree = ast.parse(text)
    except (SyntaxError, ValueError, RecursionError):
        return "None"
    return "(Some %s)" % clist([clayout_stmt(s) for s in tree.body])
