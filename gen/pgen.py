"""Generator family P: Python sources over the forms the properties list (C03, C15, C17, C18):
decorator spellings (bare / called / keyword arguments / aliases), sync / async, yield in
every block kind, annotation forms, docstring layouts, class nesting, parameter kinds,
marks on functions / classes / module level, body statement and expression forms, multi-line
signatures, tabs, CRLF, non-ASCII text before tokens.  Every choice comes from `rnd`."""
import random, warnings

NAMES = ["db", "client", "fx_a", "cls", "cfg", "srv", "e", "sync"]   # "e", "sync": names spelled inside "def " / "async def "
DECOS = ["@pytest.fixture", "@fixture", "@pytest_asyncio.fixture", "@pytest.fixture()", "@fixture()",
         "@pytest.fixture(scope=\"module\")", "@pytest.fixture(scope='session', autouse=True)",
         "@pytest.fixture(autouse=False)", "@pytest.fixture(name=\"%s\")", "@pytest.fixture(name='%s', scope=\"Class\")",
         "@pytest.fixture(scope=SCOPE)", "@pytest.fixture(scope=\"bogus\", autouse=1)", "@pytest.fixture(params=[1, 2])",
         "@pytest_asyncio.fixture(loop_scope=\"session\")", "@pytest_asyncio.fixture(loop_scope=\"session\", scope=\"module\")",
         "@pytest_asyncio.fixture(scope=\"module\", loop_scope=\"session\")"]
NON_FIXTURE_DECOS = ["@staticmethod", "@other.fixture", "@pytest.fixtures", "@mark.skip", "@pytest.mark.skip", "@functools.wraps(f)"]
RETURNS = [None, "int", "str", "Session", "db.Session", "list[int]", "dict[str, int]", "int | None", "Optional[Session]",
           "\"Session\"", "Generator[int, None, None]", "Iterator[Session]", "AsyncGenerator[str, None]", "Generator", "typing.Iterator[int]",
           "Callable[[int], str]", "tuple[int, str]", "None", "\"Gen[int]\""]
DOCS = [None, '"""One line."""', '"""\n    Summary.\n\n    Details line.\n      indented more.\n    """', "'''single quotes'''",
        '"plain string"', 'r"""raw\\n doc"""', '"""\n\n    padded\n\n    """', '"""first\n        second\n    third"""', '"""é 中 non-ascii"""']
EXPRS = ["{n}", "{n}.value", "{n}()", "f({n})", "f(k={n})", "{n} + 1", "-{n}", "not {n}", "{n} and other", "{n} == 1", "{n}[0]", "x[{n}]",
         "[{n}, 1]", "({n}, 2)", "{{{n}}}", "{{'k': {n}}}", "{{{n}: 1}}", "await {n}", "lambda: {n}", "[{n} for _ in y]", "f'{{{n}}}'",
         "{n} if c else d", "(yield {n})", "*{n},"]


class Gen:
    def __init__(self, rnd):
        self.rnd = rnd
        self.k = 0
        self.tags = []

    def uniq(self, base):
        self.k += 1
        return "%s_%d" % (base, self.k)

    def params(self, want, allow_special=True):
        """-> (text, [names])"""
        rnd = self.rnd
        ps, names = [], []
        if allow_special and rnd.random() < 0.3:
            ps.append("self")
        for n in want:
            form = rnd.choice(["{n}", "{n}", "{n}: int", "{n}: 'T'", "{n}=None", "{n}: int = 3", "{n} : Db"])
            if "=" in form:
                self.tags.append("param:default")
            ps.append(form.format(n=n))
            names.append(n)
        r = rnd.random()
        if r < 0.15 and ps:
            i = rnd.randint(0, len(ps))
            ps.insert(i, "/") if i > 0 else None
            self.tags.append("param:posonly")
        elif r < 0.3:
            ps.append("*")
            extra = rnd.choice(NAMES)
            ps.append(extra)
            names.append(extra)
            self.tags.append("param:kwonly")
        elif r < 0.4:
            ps.append("*args")
            ps.append("**kw")
        if rnd.random() < 0.2 and allow_special:
            ps.append("request")
        # fix "/" at position 0 or after *: keep the signature valid
        if ps and ps[0] == "/":
            ps = ps[1:]
        if "/" in ps and "*" in ps and ps.index("/") > ps.index("*"):
            ps.remove("/")
        if "/" in ps and "self" in ps and ps.index("/") == 0:
            ps.remove("/")
        return ps, names

    def signature(self, kw, name, ps, ret, ind):
        rnd = self.rnd
        r = " -> %s" % ret if ret else ""
        if ps and rnd.random() < 0.3:
            self.tags.append("sig:multiline")
            trail = "," if rnd.random() < 0.5 else ""
            inner = (",\n" + ind + "    ").join(ps)
            return "%s%s %s(\n%s    %s%s\n%s)%s:" % (ind, kw, name, ind, inner, trail, ind, r)
        sp = rnd.choice(["", "", " "])
        gap = " "
        if rnd.random() < 0.06:
            gap = rnd.choice(["\t", "  ", " \t"])       # a tab (or more blanks) behind the keyword: valid Python
            self.tags.append("sig:gap-behind-def")
        return "%s%s%s%s(%s%s)%s:" % (ind, kw, gap, name, sp, ", ".join(ps), r)

    def body_stmts(self, ind, names, gen_kind):
        """statements of a test / fixture body"""
        rnd = self.rnd
        out = []
        for _ in range(rnd.randint(0, 3)):
            n = rnd.choice(NAMES + names)
            e = rnd.choice(EXPRS).format(n=n)
            if "await" in e or "yield" in e:
                continue
            form = rnd.choice(["{e}", "x = {e}", "x += {e}", "return {e}", "assert {e}", "assert c, {e}", "if {e}:\n{i}    pass",
                               "while {e}:\n{i}    break", "for i in {e}:\n{i}    pass", "with {e} as w:\n{i}    pass",
                               "try:\n{i}    y = {e}\n{i}except E:\n{i}    pass", "{n} = 5", "y: int = {e}", "del {n}", "raise E({e})",
                               "for {n} in it:\n{i}    z = {n}", "with open(p) as {n}:\n{i}    q = {n}",
                               "while c:\n{i}    break\n{i}else:\n{i}    w = {e}", "for i in xs:\n{i}    pass\n{i}else:\n{i}    w = {e}",
                               "try:\n{i}    pass\n{i}except E:\n{i}    {n} = 1\n{i}    w = {e}", "{n} = 1\n{i}w = {e}\n{i}{n} = 2",
                               "w = {e}\n{i}{n} = 2"])
            if "return" in form and gen_kind:
                continue
            self.tags.append("body:" + form.split("{")[0].strip().split(" ")[0].split(":")[0] or "expr")
            out.append(ind + form.format(e=e, n=n, i=ind))
        return out

    def function(self, ind, kind):
        """kind: fixture | test | helper"""
        rnd = self.rnd
        lines = []
        is_async = rnd.random() < 0.2
        kw = "async def" if is_async else "def"
        want = rnd.sample(NAMES, rnd.randint(0, 3))
        if kind == "fixture":
            name = rnd.choice(NAMES) if rnd.random() < 0.6 else self.uniq("fx")
            if rnd.random() < 0.2:
                name = "test_" + name
            if rnd.random() < 0.25:
                want = [name] + [w for w in want if w != name]     # override: requests its own name
            deco = rnd.choice(DECOS)
            if "%s" in deco:
                deco = deco % rnd.choice(NAMES + ["aliased"])
                self.tags.append("deco:alias")
            for extra in rnd.sample(NON_FIXTURE_DECOS, rnd.choice([0, 0, 1])):
                lines.append(ind + extra)
            if rnd.random() < 0.3:
                lines.append(ind + "@pytest.mark.usefixtures(%s)" % ", ".join('"%s"' % n for n in rnd.sample(NAMES, rnd.randint(1, 2))))
            lines.append(ind + deco)
            self.tags.append("deco:" + deco.split("(")[0])
        elif kind == "test":
            name = self.uniq("test")
            r = rnd.random()
            if r < 0.3:
                quote = rnd.choice(['"%s"', "'%s'", 'r"%s"', '"""%s"""', '"%s" ""'])
                lines.append(ind + "@pytest.mark.usefixtures(%s)" % ", ".join(quote % n for n in rnd.sample(NAMES, rnd.randint(1, 3))))
                self.tags.append("mark:usefixtures")
            elif r < 0.5 and want:
                a = want[0]
                ind_v = rnd.choice(["True", "[\"%s\"]" % a, "False", "[\"nope\"]", "(\"%s\",)" % a])
                # the name also occurs EARLIER in the literal as a part of a longer identifier
                # (underscore-joined, prefixed, suffixed): its span is the whole-token occurrence
                names_s = rnd.choice([a, a + ", extra", " " + a + " ", a + "_session," + a, "user_" + a + ", " + a,
                                      a + "x," + a, "x" + a + "," + a, a + "_" + a + "," + a])
                if names_s.count(a) > 1 and rnd.random() < 0.8:
                    ind_v = "True"      # the argnames literal itself is where the name's span is searched
                lines.append(ind + "@pytest.mark.parametrize(\"%s\", [1, 2], indirect=%s)" % (names_s, ind_v))
                self.tags.append("mark:indirect")
            elif r < 0.6:
                lines.append(ind + "@mark.usefixtures('%s')" % rnd.choice(NAMES))
        else:
            name = self.uniq(rnd.choice(["helper", "make", "tests", "Test"]))
            for extra in rnd.sample(NON_FIXTURE_DECOS, rnd.choice([0, 1])):
                lines.append(ind + extra)
        ps, pnames = self.params(want)
        ret = rnd.choice(RETURNS) if rnd.random() < 0.6 else None
        lines.append(self.signature(kw, name, ps, ret, ind))
        bi = ind + "    "
        doc = rnd.choice(DOCS)
        body = []
        if doc is not None and rnd.random() < 0.7:
            body.append(bi + doc.replace("\n    ", "\n" + bi))
        gen_kind = None
        if kind == "fixture" and rnd.random() < 0.5:
            gen_kind = rnd.choice(["stmt", "stmt", "with", "if", "try", "for", "while", "async_with", "handler", "assign", "from", "finally", "nested_def",
                                   "handler_else", "handler_finally"])
            self.tags.append("yield:" + gen_kind)
        body += self.body_stmts(bi, pnames, gen_kind)
        if gen_kind:
            y = "yield 1"
            if gen_kind == "stmt":
                body.append(bi + y)
            elif gen_kind == "from":
                body.append(bi + "yield from other()")
            elif gen_kind == "with":
                body += [bi + "with ctx() as c:", bi + "    " + y]
            elif gen_kind == "async_with":
                body += [bi + ("async with ctx() as c:" if is_async else "with ctx() as c:"), bi + "    " + y]
            elif gen_kind == "if":
                body += [bi + "if cond:", bi + "    pass", bi + "else:", bi + "    " + y]
            elif gen_kind == "try":
                body += [bi + "try:", bi + "    " + y, bi + "finally:", bi + "    cleanup()"]
            elif gen_kind == "finally":
                body += [bi + "try:", bi + "    pass", bi + "finally:", bi + "    " + y]
            elif gen_kind == "handler":
                body += [bi + "try:", bi + "    setup()", bi + "except E:", bi + "    " + y]
            elif gen_kind == "handler_else":
                # the FIRST yield in source order is the handler's, a later one sits in the else block
                body += [bi + "try:", bi + "    setup()", bi + "except E:", bi + "    " + y, bi + "else:", bi + "    yield 2"]
            elif gen_kind == "handler_finally":
                body += [bi + "try:", bi + "    setup()", bi + "except E:", bi + "    " + y, bi + "finally:", bi + "    yield 3"]
            elif gen_kind == "for":
                body += [bi + ("async for i in xs:" if is_async and rnd.random() < 0.5 else "for i in xs:"), bi + "    " + y]
            elif gen_kind == "while":
                body += [bi + "while c:", bi + "    " + y]
            elif gen_kind == "assign":
                body.append(bi + "got = yield 1")
            elif gen_kind == "nested_def":
                body += [bi + "def inner():", bi + "    " + y, bi + "return inner"]
            body += self.body_stmts(bi, pnames, gen_kind)
        if rnd.random() < 0.15:
            body += [bi + "def test_nested(%s):" % rnd.choice(NAMES), bi + "    pass"]
            self.tags.append("nested:def")
        if not body or all(l.strip().startswith(('"', "'", "r\"")) for l in body) and rnd.random() < 0.5:
            body.append(bi + rnd.choice(["pass", "return 1", "..."]))
        return lines + body

    def module(self):
        rnd = self.rnd
        out = ["import pytest", rnd.choice(["from pytest import fixture", "import pytest_asyncio", "from .helpers import *", "import os"])]
        if rnd.random() < 0.3:
            out.append(rnd.choice(['pytestmark = pytest.mark.usefixtures("db")', 'pytestmark = [pytest.mark.usefixtures("db", "cfg"), pytest.mark.skip]',
                                   'pytestmark: list = (pytest.mark.usefixtures(\'srv\'),)', 'pytestmark = pytest.mark.skip',
                                   'pytest_plugins = ["pkg.plugin", ".rel"]', 'pytest_plugins = "one.plugin"']))
            self.tags.append("module:mark")
        if rnd.random() < 0.2:
            out.append(rnd.choice(["# é comment with def fake(db):", "X = '@pytest.fixture'", "SCOPE = 'module'"]))
        last_class = False
        for _ in range(rnd.randint(1, 5)):
            out.append("")
            r = rnd.random()
            last_class = r >= 0.9
            if r < 0.4:
                if rnd.random() < 0.12:
                    # a conditional / try-wrapped definition at module level
                    head = rnd.choice(["if COND:", "try:", "if sys.version_info >= (3, 8):", "with ctx():"])
                    out.append(head)
                    out += self.function("    ", "fixture")
                    if head == "try:":
                        out += ["except ImportError:", "    pass"]
                    self.tags.append("module:wrapped-def")
                else:
                    out += self.function("", "fixture")
            elif r < 0.7:
                out += self.function("", "test")
            elif r < 0.8:
                out += self.function("", "helper")
            elif r < 0.9:
                n = self.uniq("fx")
                out.append(rnd.choice(["{n} = pytest.fixture()(make)", "{n} = fixture(scope='module')(make)", "{n}, other = pytest.fixture()(make), 1",
                                       "{n} = {m} = pytest.fixture()(make)", "{n} = pytest.fixture(make)", "{n}: T = pytest.fixture()(make)"]).format(n=n, m=n + "b"))
                self.tags.append("assign:fixture")
            else:
                cname = rnd.choice(["TestThing", "Helper", "TestÉ"]) if rnd.random() < 0.8 else "Plain"
                if rnd.random() < 0.4:
                    out.append('@pytest.mark.usefixtures("%s")' % rnd.choice(NAMES))
                    self.tags.append("class:usefixtures")
                out.append("class %s:" % cname)
                self.tags.append("class")
                inner = []
                for _ in range(rnd.randint(1, 3)):
                    inner += self.function("    ", rnd.choice(["fixture", "test", "test", "helper"]))
                    inner.append("")
                if rnd.random() < 0.3:
                    inner += ["    class TestInner:"] + self.function("        ", "test")
                    self.tags.append("class:nested")
                    last_class = False
                out += inner
        text = "\n".join(out) + "\n"
        r = rnd.random()
        if r < 0.12:
            # the document ends WITHOUT a final newline, its last line being a one-line definition
            # (the name's span is searched on a line that no following line start delimits)
            tail_ind = "    " if last_class and rnd.random() < 0.7 else ""
            text += "\n" + tail_ind + rnd.choice(DECOS[:5]) + "\n" + tail_ind + rnd.choice(["def", "async def"]) + " " + rnd.choice(NAMES) \
                    + rnd.choice(["(): return 1", "(db): return db", "(): yield 1", "() -> int: return 2"])
            self.tags.append("tail:oneline-def-no-newline")
        elif r < 0.2:
            text = text[:-1]
            self.tags.append("tail:no-final-newline")
        r = rnd.random()
        if r < 0.1:
            text = text.replace("\n", "\r\n")
            self.tags.append("crlf")
        elif r < 0.2:
            text = text.replace("    ", "\t")
            self.tags.append("tabs")
        return text


def gen_program(rnd):
    g = Gen(rnd)
    for _ in range(20):
        text = g.module()
        try:
            with warnings.catch_warnings():
                warnings.simplefilter("ignore")
                compile(text, "p", "exec")
            return text, g.tags
        except (SyntaxError, ValueError):
            g.tags = []
            continue
    return "import pytest\n\n@pytest.fixture\ndef db():\n    return 1\n", ["fallback"]
