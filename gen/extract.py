"""CPython-ast based extraction of per-file facts, in the shape of Model/Types.v [facts].

This is glue of the correspondence check (trusted base, validated on every run by
comparing the real index dump with the model index built from these facts): it
performs the syntactic part of src/fixtures/analyzer.rs / decorators.rs /
docstring.rs / undeclared.rs on CPython's AST (byte columns, same convention as
rustpython).  Decisions that depend on the index (is a name an available fixture,
plugin / third-party flags, versions, cleanup) are NOT taken here; they are taken by
the Coq model.
"""
import ast

STDLIB_DEFAULT = None  # filled by translator tables at run time (see tables.py)


def rust_lines(text: str):
    """Rust str::lines()."""
    parts = text.split("\n")
    if parts and parts[-1] == "":
        parts.pop()
    return [p[:-1] if p.endswith("\r") else p for p in parts]


def line_index(data: bytes):
    idx = [0]
    for i, b in enumerate(data):
        if b == 10:
            idx.append(i + 1)
    return idx


class Pos:
    """CPython (lineno, col_offset in utf-8 bytes) <-> analyzer's (line, char)."""

    def __init__(self, text: str):
        self.text = text
        self.data = text.encode("utf-8")
        # CPython splits lines on \n, \r\n and lone \r?  ast positions are relative to
        # lines as the tokenizer sees them (universal newlines).  We map through byte
        # offsets computed on '\n'-separated lines; texts with lone '\r' are outside
        # the generated grammar.
        self.idx = line_index(self.data)

    def lc(self, lineno, col):
        return (lineno, col)


def is_fixture_decorator(e):
    if isinstance(e, ast.Name):
        return e.id == "fixture"
    if isinstance(e, ast.Attribute):
        return (isinstance(e.value, ast.Name) and e.value.id in ("pytest", "pytest_asyncio")
                and e.attr == "fixture")
    if isinstance(e, ast.Call):
        return is_fixture_decorator(e.func)
    return False


def const_str(e):
    return isinstance(e, ast.Constant) and isinstance(e.value, str)


def fixture_kw(e, key):
    if not isinstance(e, ast.Call) or not is_fixture_decorator(e.func):
        return []
    return [kw.value for kw in e.keywords if kw.arg == key]


def fixture_name_from_decorator(e):
    for v in fixture_kw(e, "name"):
        if const_str(v):
            return v.value
    return None


SCOPES = {"function": 0, "class": 1, "module": 2, "package": 3, "session": 4}


def fixture_scope(e):
    for v in fixture_kw(e, "scope"):
        if const_str(v):
            r = SCOPES.get(v.value.lower())
            if r is not None:
                return r
    return None


def fixture_autouse(e):
    return any(isinstance(v, ast.Constant) and v.value is True for v in fixture_kw(e, "autouse"))


def is_mark(e, marker):
    if isinstance(e, ast.Call):
        return is_mark(e.func, marker)
    if isinstance(e, ast.Attribute):
        if e.attr != marker:
            return False
        v = e.value
        if isinstance(v, ast.Attribute):
            return v.attr == "mark" and isinstance(v.value, ast.Name) and v.value.id == "pytest"
        if isinstance(v, ast.Name):
            return v.id == "mark"
    return False


def usefixtures_names(e):
    if not isinstance(e, ast.Call) or not is_mark(e.func, "usefixtures"):
        return []
    return [(a.value, a) for a in e.args if const_str(a)]


def usefixtures_from_expr(e):
    if isinstance(e, ast.Call):
        return usefixtures_names(e)
    if isinstance(e, (ast.List, ast.Tuple)):
        out = []
        for x in e.elts:
            out += usefixtures_from_expr(x)
        return out
    return []


WS = "".join(map(chr, [9, 10, 11, 12, 13, 32, 0x85, 0xA0, 0x1680] + list(range(0x2000, 0x200B)) + [0x2028, 0x2029, 0x202F, 0x205F, 0x3000]))


def rust_trim(s):
    return s.strip(WS)


def indirect_fixtures(e):
    if not isinstance(e, ast.Call) or not is_mark(e.func, "parametrize"):
        return []
    ind = None
    for kw in e.keywords:
        if kw.arg == "indirect":
            ind = kw.value
            break
    if ind is None or not e.args:
        return []
    first = e.args[0]
    if not const_str(first):
        return []
    names = [rust_trim(x) for x in first.value.split(",")]
    if isinstance(ind, ast.Constant) and ind.value is True:
        return [(n, first) for n in names]
    if isinstance(ind, ast.List):
        return [(x.value, x) for x in ind.elts if const_str(x) and x.value in names]
    return []


def all_args(a):
    return list(a.posonlyargs) + list(a.args) + list(a.kwonlyargs)


def defaulted(a):
    """names of the parameters that carry a default value (not fixture requests, fix 26e7ea3)"""
    pos = list(a.posonlyargs) + list(a.args)
    nd = len(a.defaults)
    out = set(x.arg for x in pos[len(pos) - nd:]) if nd else set()
    out |= set(x.arg for x, d in zip(a.kwonlyargs, a.kw_defaults) if d is not None)
    return out


def names_from_expr(e, out):
    if isinstance(e, ast.Name):
        out.add(e.id)
    elif isinstance(e, (ast.Tuple, ast.List)):
        for x in e.elts:
            names_from_expr(x, out)


def rust_debug_str(s):
    out = '"'
    for ch in s:
        if ch == '"':
            out += '\\"'
        elif ch == "\\":
            out += "\\\\"
        elif ch == "\n":
            out += "\\n"
        elif ch == "\r":
            out += "\\r"
        elif ch == "\t":
            out += "\\t"
        elif ch == "'":
            out += "'"
        else:
            out += ch
    return out + '"'


def expr_to_string(e):
    if isinstance(e, ast.Name):
        return e.id
    if isinstance(e, ast.Attribute):
        return expr_to_string(e.value) + "." + e.attr
    if isinstance(e, ast.Subscript):
        return expr_to_string(e.value) + "[" + expr_to_string(e.slice) + "]"
    if isinstance(e, ast.Tuple):
        return ", ".join(expr_to_string(x) for x in e.elts)
    if isinstance(e, ast.Constant):
        v = e.value
        if v is None:
            return "None"
        if isinstance(v, bool):
            return "Bool(true)" if v else "Bool(false)"
        if isinstance(v, str):
            return v          # since fix 07425d9 (forward reference names a type)
        if v is Ellipsis:
            return "Ellipsis"
        if isinstance(v, int):
            return "Int(%d)" % v
        return "Const(?)"
    if isinstance(e, ast.BinOp) and isinstance(e.op, ast.BitOr):
        return expr_to_string(e.left) + " | " + expr_to_string(e.right)
    return "Any"


def is_yield_expr_stmt(st):
    return isinstance(st, ast.Expr) and isinstance(st.value, (ast.Yield, ast.YieldFrom))


def contains_yield(body):
    for st in body:
        if is_yield_expr_stmt(st):
            return True
        if isinstance(st, ast.If):
            if contains_yield(st.body) or contains_yield(st.orelse):
                return True
        elif isinstance(st, (ast.For, ast.AsyncFor)):
            if contains_yield(st.body) or contains_yield(st.orelse):
                return True
        elif isinstance(st, ast.While):
            if contains_yield(st.body) or contains_yield(st.orelse):
                return True
        elif isinstance(st, (ast.With, ast.AsyncWith)):
            if contains_yield(st.body):
                return True
        elif isinstance(st, ast.Try):
            if contains_yield(st.body) or any(contains_yield(h.body) for h in st.handlers) \
                    or contains_yield(st.orelse) or contains_yield(st.finalbody):
                return True
    return False


def find_yield_in_stmt(st):
    if isinstance(st, ast.Expr):
        if isinstance(st.value, (ast.Yield, ast.YieldFrom)):
            return st.value.lineno
        return None
    blocks = None
    if isinstance(st, ast.If):
        blocks = [st.body, st.orelse]
    elif isinstance(st, (ast.With, ast.AsyncWith)):
        blocks = [st.body]
    elif isinstance(st, ast.Try):
        blocks = [st.body] + [h.body for h in st.handlers] + [st.orelse, st.finalbody]
    elif isinstance(st, (ast.For, ast.AsyncFor, ast.While)):
        blocks = [st.body, st.orelse]
    if blocks is None:
        return None
    for b in blocks:
        for s in b:
            r = find_yield_in_stmt(s)
            if r is not None:
                return r
    return None


def find_yield_line(body):
    for st in body:
        r = find_yield_in_stmt(st)
        if r is not None:
            return r
    return None


def format_docstring(doc: str) -> str:
    lines = rust_lines(doc)
    if not lines:
        return ""
    start, end = 0, len(lines)
    while start < len(lines) and rust_trim(lines[start]) == "":
        start += 1
    while end > start and rust_trim(lines[end - 1]) == "":
        end -= 1
    if start >= end:
        return ""
    lines = lines[start:end]
    min_indent = None
    for i, line in enumerate(lines):
        if i == 0 and rust_trim(line) != "":
            continue
        if rust_trim(line) != "":
            b = line.encode()
            indent = len(b) - len(rust_trim_start(line).encode())
            min_indent = indent if min_indent is None else min(min_indent, indent)
    if min_indent is None:
        min_indent = 0
    res = []
    for i, line in enumerate(lines):
        if i == 0:
            res.append(rust_trim(line))
        elif rust_trim(line) == "":
            res.append("")
        else:
            b = line.encode()
            if len(b) > min_indent:
                res.append(b[min_indent:].decode("utf-8"))  # raises on non-boundary = Rust panic
            else:
                res.append(rust_trim_start(line))
    return "\n".join(res)


def rust_trim_start(s):
    return s.lstrip(WS)


def find_function_name_position(lines_b, line, name_b):
    if 1 <= line <= len(lines_b):
        lc = lines_b[line - 1]
        p = lc.find(b"def ")
        if p >= 0:
            q = lc[p + 4:].find(name_b)
            if q >= 0:
                return (p + 4 + q, p + 4 + q + len(name_b))
        p = lc.find(name_b)
        if p >= 0:
            return (p, p + len(name_b))
    return (0, len(name_b))


def collect_locals(body, out):
    for st in body:
        if isinstance(st, ast.Assign):
            tmp = set()
            for t in st.targets:
                names_from_expr(t, tmp)
            for n in tmp:
                out.setdefault(n, st.lineno)
        elif isinstance(st, (ast.AnnAssign, ast.AugAssign)):
            tmp = set()
            names_from_expr(st.target, tmp)
            for n in tmp:
                out.setdefault(n, st.lineno)
        elif isinstance(st, (ast.For, ast.AsyncFor)):
            tmp = set()
            names_from_expr(st.target, tmp)
            for n in tmp:
                out.setdefault(n, st.lineno)
            collect_locals(st.body, out)
            collect_locals(st.orelse, out)
        elif isinstance(st, ast.While):
            collect_locals(st.body, out)
            collect_locals(st.orelse, out)
        elif isinstance(st, ast.If):
            collect_locals(st.body, out)
            collect_locals(st.orelse, out)
        elif isinstance(st, (ast.With, ast.AsyncWith)):
            for it in st.items:
                if it.optional_vars is not None:
                    tmp = set()
                    names_from_expr(it.optional_vars, tmp)
                    for n in tmp:
                        out.setdefault(n, st.lineno)
            collect_locals(st.body, out)
        elif isinstance(st, ast.Try):
            collect_locals(st.body, out)
            for h in st.handlers:
                collect_locals(h.body, out)
            collect_locals(st.orelse, out)
            collect_locals(st.finalbody, out)


def visit_expr_names(e, out):
    if isinstance(e, ast.Name):
        out.append({"name": e.id, "line": e.lineno, "start": e.col_offset, "end": e.end_col_offset})
    elif isinstance(e, ast.Call):
        visit_expr_names(e.func, out)
        for a in e.args:
            visit_expr_names(a, out)
        for k in e.keywords:
            visit_expr_names(k.value, out)
    elif isinstance(e, ast.BoolOp):
        for v in e.values:
            visit_expr_names(v, out)
    elif isinstance(e, ast.Set):
        for x in e.elts:
            visit_expr_names(x, out)
    elif isinstance(e, ast.Attribute):
        visit_expr_names(e.value, out)
    elif isinstance(e, ast.BinOp):
        visit_expr_names(e.left, out)
        visit_expr_names(e.right, out)
    elif isinstance(e, ast.UnaryOp):
        visit_expr_names(e.operand, out)
    elif isinstance(e, ast.Compare):
        visit_expr_names(e.left, out)
        for c in e.comparators:
            visit_expr_names(c, out)
    elif isinstance(e, ast.Subscript):
        visit_expr_names(e.value, out)
        visit_expr_names(e.slice, out)
    elif isinstance(e, (ast.List, ast.Tuple)):
        for x in e.elts:
            visit_expr_names(x, out)
    elif isinstance(e, ast.Dict):
        for k in e.keys:
            if k is not None:
                visit_expr_names(k, out)
        for v in e.values:
            visit_expr_names(v, out)
    elif isinstance(e, ast.Await):
        visit_expr_names(e.value, out)


def visit_stmt_names(st, out):
    if isinstance(st, ast.Expr):
        visit_expr_names(st.value, out)
    elif isinstance(st, (ast.Assign, ast.AugAssign)):
        visit_expr_names(st.value, out)
    elif isinstance(st, ast.AnnAssign):
        if st.value is not None:
            visit_expr_names(st.value, out)
    elif isinstance(st, ast.Return):
        if st.value is not None:
            visit_expr_names(st.value, out)
    elif isinstance(st, ast.If):
        visit_expr_names(st.test, out)
        for s in st.body:
            visit_stmt_names(s, out)
        for s in st.orelse:
            visit_stmt_names(s, out)
    elif isinstance(st, ast.While):
        visit_expr_names(st.test, out)
        for s in st.body + st.orelse:
            visit_stmt_names(s, out)
    elif isinstance(st, (ast.For, ast.AsyncFor)):
        visit_expr_names(st.iter, out)
        for s in st.body + st.orelse:
            visit_stmt_names(s, out)
    elif isinstance(st, ast.Try):
        for s in st.body:
            visit_stmt_names(s, out)
        for h in st.handlers:
            for s in h.body:
                visit_stmt_names(s, out)
        for s in st.orelse + st.finalbody:
            visit_stmt_names(s, out)
    elif isinstance(st, (ast.With, ast.AsyncWith)):
        for it in st.items:
            visit_expr_names(it.context_expr, out)
        for s in st.body:
            visit_stmt_names(s, out)
    elif isinstance(st, ast.Assert):
        visit_expr_names(st.test, out)
        if st.msg is not None:
            visit_expr_names(st.msg, out)


def body_item(body, declared, fn, fn_line):
    locs = {}
    collect_locals(body, locs)
    names = []
    for st in body:
        visit_stmt_names(st, names)
    return {"k": "body", "declared": sorted(declared), "locals": sorted(locs.items()),
            "fn": fn, "fn_line": fn_line, "names": names}


def is_ident_char(c):
    """Rust: c.is_alphanumeric() || c == '_'"""
    return c == "_" or c.isalnum()


def str_usage(name, node, raw_lines_b, saturating=False):
    """analyzer.rs string_usage_span (since fix d199d81): the occurrence of the name on the
    literal's first line, behind the opening quote, that is not part of a longer identifier;
    otherwise the literal minus one column at either end."""
    lb = raw_lines_b[node.lineno - 1]
    src_b = lb[node.col_offset:node.end_col_offset] if node.end_lineno == node.lineno else lb[node.col_offset:]
    try:
        src = src_b.decode("utf-8")
    except UnicodeDecodeError:
        src = None
    if src is not None and name:
        qs = [i for i in (src.find('"'), src.find("'")) if i >= 0]
        frm = (min(qs) + 1) if qs else 0
        while frm <= len(src):
            k = src.find(name, frm)
            if k < 0:
                break
            before_ok = k == 0 or not is_ident_char(src[k - 1])
            after = src[k + len(name):k + len(name) + 1]
            after_ok = after == "" or not is_ident_char(after)
            if before_ok and after_ok:
                start = node.col_offset + len(src[:k].encode("utf-8"))
                return {"k": "use", "name": name, "line": node.lineno, "start": start, "end": start + len(name.encode("utf-8"))}
            frm = k + len(name)
    start = node.col_offset + 1
    end = node.end_col_offset - 1
    if end < 0:
        end = 0
    return {"k": "use", "name": name, "line": node.lineno, "start": start, "end": end}


def extract(text: str, stdlib):
    """Return the facts dict of one file version."""
    lines = rust_lines(text)
    try:
        tree = ast.parse(text)
    except (SyntaxError, ValueError, RecursionError):
        return {"ok": False, "lines": lines, "modnames": [], "items": [], "edges": []}
    lines_b = [l.encode("utf-8") for l in lines]
    raw_lines_b = [l.encode("utf-8") for l in text.split("\n")]
    items = []
    modnames = set()

    def module_level_names(st):
        if isinstance(st, (ast.Import, ast.ImportFrom)):
            for a in st.names:
                modnames.add(a.asname or a.name)
        elif isinstance(st, (ast.FunctionDef, ast.AsyncFunctionDef)):
            if not any(is_fixture_decorator(d) for d in st.decorator_list):
                modnames.add(st.name)
        elif isinstance(st, ast.ClassDef):
            modnames.add(st.name)
        elif isinstance(st, ast.Assign):
            for t in st.targets:
                names_from_expr(t, modnames)
        elif isinstance(st, ast.AnnAssign):
            names_from_expr(st.target, modnames)

    def visit(st):
        if isinstance(st, ast.Assign):
            v = st.value
            if isinstance(v, ast.Call) and isinstance(v.func, ast.Call) and is_fixture_decorator(v.func.func):
                for t in st.targets:
                    if isinstance(t, ast.Name):
                        items.append({"k": "def", "name": t.id, "line": st.lineno, "end_line": st.lineno,
                                      "start": t.col_offset, "end": t.end_col_offset, "doc": None,
                                      "ret": None, "deps": [], "scope": 0, "yield": None,
                                      "autouse": False})
            if any(isinstance(t, ast.Name) and t.id == "pytestmark" for t in st.targets):
                for (n, node) in usefixtures_from_expr(st.value):
                    items.append(str_usage(n, node, raw_lines_b, True))
        if isinstance(st, ast.AnnAssign):
            if isinstance(st.target, ast.Name) and st.target.id == "pytestmark" and st.value is not None:
                for (n, node) in usefixtures_from_expr(st.value):
                    items.append(str_usage(n, node, raw_lines_b, True))
        if isinstance(st, ast.ClassDef):
            for d in st.decorator_list:
                for (n, node) in usefixtures_names(d):
                    items.append(str_usage(n, node, raw_lines_b))
            for s in st.body:
                visit(s)
            return
        if not isinstance(st, (ast.FunctionDef, ast.AsyncFunctionDef)):
            return
        fn = st.name
        for d in st.decorator_list:
            for (n, node) in usefixtures_names(d):
                items.append(str_usage(n, node, raw_lines_b))
        for d in st.decorator_list:
            for (n, node) in indirect_fixtures(d):
                items.append(str_usage(n, node, raw_lines_b))
        dec = next((d for d in st.decorator_list if is_fixture_decorator(d)), None)
        args = all_args(st.args)
        if dec is not None:
            name = fixture_name_from_decorator(dec) or fn
            scope = fixture_scope(dec)
            scope = 0 if scope is None else scope
            doc = None
            if st.body and isinstance(st.body[0], ast.Expr) and const_str(st.body[0].value):
                doc = format_docstring(st.body[0].value.value)
            ret = None
            if st.returns is not None:
                if contains_yield(st.body):
                    r = st.returns
                    if isinstance(r, ast.Subscript):
                        if isinstance(r.slice, ast.Tuple):
                            ret = expr_to_string(r.slice.elts[0]) if r.slice.elts else expr_to_string(r)
                        else:
                            ret = expr_to_string(r.slice)
                    else:
                        ret = expr_to_string(r)
                else:
                    ret = expr_to_string(st.returns)
            (sc, ec) = find_function_name_position(lines_b, st.lineno, fn.encode("utf-8"))
            declared = {"self", "request", fn}
            deps = []
            dflt = defaulted(st.args)
            for a in args:
                declared.add(a.arg)
                if a.arg not in ("self", "request") and a.arg not in dflt:
                    deps.append(a.arg)
            items.append({"k": "def", "name": name, "line": st.lineno, "end_line": st.end_lineno,
                          "start": sc, "end": ec, "doc": doc, "ret": ret, "deps": deps,
                          "scope": scope, "yield": find_yield_line(st.body),
                          "autouse": fixture_autouse(dec)})
            for a in args:
                if a.arg not in ("self", "request") and a.arg not in dflt:
                    items.append({"k": "use", "name": a.arg, "line": a.lineno, "start": a.col_offset,
                                  "end": a.col_offset + len(a.arg.encode("utf-8"))})
            items.append(body_item(st.body, declared, fn, st.lineno))
        if fn.startswith("test_") and dec is None:
            declared = {"self", "request"}
            dflt = defaulted(st.args)
            for a in args:
                declared.add(a.arg)
                if a.arg != "self" and a.arg not in dflt:
                    items.append({"k": "use", "name": a.arg, "line": a.lineno, "start": a.col_offset,
                                  "end": a.col_offset + len(a.arg.encode("utf-8"))})
            items.append(body_item(st.body, declared, fn, st.lineno))

    for st in tree.body:
        module_level_names(st)
    for st in tree.body:
        visit(st)

    edges = []
    for st in tree.body:
        if isinstance(st, ast.ImportFrom):
            mod = st.module or ""
            first = mod.split(".")[0] if st.level == 0 else ""
            if first in stdlib:
                continue
            if any(a.name == "*" for a in st.names):
                edges.append({"level": st.level, "mod": mod.split(".") if mod else [], "kind": "star"})
            else:
                names = [a.asname or a.name for a in st.names]
                if names:
                    edges.append({"level": st.level, "mod": mod.split(".") if mod else [],
                                  "kind": "names", "names": names})
    plugins = []
    for st in tree.body:
        value = None
        if isinstance(st, ast.Assign):
            if any(isinstance(t, ast.Name) and t.id == "pytest_plugins" for t in st.targets):
                value = st.value
            else:
                continue
        elif isinstance(st, ast.AnnAssign):
            if isinstance(st.target, ast.Name) and st.target.id == "pytest_plugins" and st.value is not None:
                value = st.value
            else:
                continue
        else:
            continue
        plugins = []
        if const_str(value):
            plugins.append(value.value)
        elif isinstance(value, (ast.List, ast.Tuple)):
            plugins += [x.value for x in value.elts if const_str(x)]
    for p in plugins:
        level = len(p) - len(p.lstrip("."))
        rest = p[level:]
        edges.append({"level": level, "mod": rest.split(".") if rest else [], "kind": "star"})
    return {"ok": True, "lines": lines, "modnames": sorted(modnames), "items": items, "edges": edges}
