"""Generator family W: virtual workspaces (paths that do not exist on disk) for the
index/resolution properties.  Every random choice derives from the Random passed in.

A workspace is {"files": {path: text}, "plugins": [path], "order": [path], "tags": [..]}.
"""
import random

NAMES = ["fx_a", "fx_b", "db", "client"]
SCOPE_WORDS = ["function", "class", "module", "package", "session"]
STDLIB_LIKE = ["http", "types", "json", "logging", "time", "email", "random", "socket", "enum", "io", "string", "copy"]


def fixture_src(rnd, name, params=(), scope=None, autouse=False, alias=None, body=None, doc=None,
                ret=None, gen=False, indent="", asyncdef=False, style=None, multiline=False):
    style = style or rnd.choice(["pytest.fixture", "pytest.fixture()", "fixture", "pytest_asyncio.fixture"]
                                if rnd.random() < 0.3 else ["pytest.fixture"])
    kws = []
    if scope is not None:
        kws.append('scope="%s"' % scope)
    if autouse:
        kws.append("autouse=True")
    if alias is not None:
        kws.append('name="%s"' % alias)
    if rnd.random() < 0.12:
        # keyword arguments that are NOT the fixture's scope, in front of or behind `scope=`
        extra = rnd.choice(['loop_scope="session"', 'loop_scope="module"', 'loop_scope="class"', "ids=None"])
        kws.insert(rnd.randint(0, len(kws)), extra)
        if extra.startswith("loop_scope") and style.startswith("pytest.fixture"):
            style = "pytest_asyncio.fixture"
    dec = "@" + style
    if kws:
        dec = "@" + style.replace("()", "") + "(" + ", ".join(kws) + ")"
    sig = ", ".join(params)
    rets = (" -> " + ret) if ret else ""
    stmt = ("yield " + (params[0] if params else "1")) if gen else (body or ("return " + (params[0] if params else "1")))
    if not doc and "\n" not in stmt and rnd.random() < 0.15:
        # the whole function on its last line: a one-liner, or a multi-line signature whose last
        # parameter shares its line with the body
        if multiline and params:
            lines = [indent + dec, indent + "%sdef %s(" % ("async " if asyncdef else "", name)]
            lines += [indent + "    " + p + "," for p in params[:-1]]
            lines.append(indent + "    " + params[-1] + ")%s: %s" % (rets, stmt))
        else:
            lines = [indent + dec, indent + "%sdef %s(%s)%s: %s" % ("async " if asyncdef else "", name, sig, rets, stmt)]
        return "\n".join(lines) + "\n"
    if multiline and params:
        lines = [indent + dec, indent + "%sdef %s(" % ("async " if asyncdef else "", name)]
        lines += [indent + "    " + p + "," for p in params]
        lines.append(indent + ")%s:" % rets)
    else:
        head = "%sdef %s(%s)%s:" % ("async " if asyncdef else "", name, sig, rets)
        lines = [indent + dec, indent + head]
    if doc:
        lines.append(indent + '    """' + doc + '"""')
    if gen:
        lines.append(indent + "    yield " + (params[0] if params else "1"))
    else:
        lines.append(indent + "    " + (body or ("return " + (params[0] if params else "1"))))
    return "\n".join(lines) + "\n"


def test_src(rnd, tname, params=(), usefixtures=(), indirect=None, indent="", body=None):
    lines = []
    if usefixtures:
        lines.append(indent + "@pytest.mark.usefixtures(" + ", ".join('"%s"' % u for u in usefixtures) + ")")
    if indirect:
        lines.append(indent + '@pytest.mark.parametrize("%s", [1], indirect=True)' % indirect)
    lines.append(indent + "def %s(%s):" % (tname, ", ".join(params)))
    lines.append(indent + "    " + (body or "pass"))
    return "\n".join(lines) + "\n"


def gen_workspace(rnd: random.Random, root="/vw", max_depth=3, chain_only=False):
    tags = []
    files = {}
    plugins = []
    names = rnd.sample(NAMES, rnd.randint(1, 3))
    depth = rnd.randint(0, max_depth)
    dirs = [root]
    for k in range(depth):
        dirs.append(dirs[-1] + "/" + "pkg%d" % k)
    tags.append("depth%d" % depth)
    helper_count = [0]

    def helper_module(d, defs, imports_from=None, nonfixture=()):
        helper_count[0] += 1
        mod = "helpers_%d" % helper_count[0]
        if rnd.random() < 0.3:
            # module names that collide with table entries of the implementation
            # (standard-library names are legal names for local modules)
            cand = rnd.choice(STDLIB_LIKE)
            if d + "/" + cand + ".py" not in files:
                mod = cand
                tags.append("module:stdlib-named")
        src = "import pytest\n"
        if imports_from:
            src += imports_from + "\n"
        src += "\n"
        for n in defs:
            src += fixture_src(rnd, n, scope=rnd.choice([None, None, "session", "module"]),
                               doc=rnd.choice([None, "doc of %s in %s" % (n, mod)])) + "\n"
        for n in nonfixture:
            src += "def %s():\n    return 0\n\n" % n
        files[d + "/" + mod + ".py"] = src
        return mod

    # conftest per level
    for li, d in enumerate(dirs):
        kind_choices = ["absent", "def", "override", "star", "explicit", "plugins", "none", "peer_conftest"]
        weights = [2, 4, 2, 3, 2, 1, 1, 1]
        if rnd.random() < 0.15:
            continue  # no conftest at this level
        src = "import pytest\n"
        body = ""
        for n in names:
            kind = rnd.choices(kind_choices, weights)[0]
            if chain_only:
                kind = rnd.choice(["override", "def", "absent"])
            tags.append("conftest:" + kind)
            if kind == "def":
                body += fixture_src(rnd, n, scope=rnd.choice([None, "session", "module", "class"]),
                                    ret=rnd.choice([None, "int", "str"])) + "\n"
                if rnd.random() < 0.06:
                    tags.append("conftest:redefinition")
                    body += fixture_src(rnd, n, doc="second binding") + "\n"
            elif kind == "override":
                body += fixture_src(rnd, n, params=[n]) + "\n"
            elif kind in ("star", "explicit") and li >= 1 and rnd.random() < 0.3:
                # the imported module lives `up` directories ABOVE this conftest: a relative import
                # of up+1 dots (two, three, four ...), sometimes with a same-named decoy module one
                # directory too deep that nothing imports
                up = rnd.randint(1, li)
                mod = helper_module(dirs[li - up], [n] + ([rnd.choice(NAMES)] if rnd.random() < 0.3 else []))
                if rnd.random() < 0.4 and dirs[li - up + 1] + "/" + mod + ".py" not in files:
                    files[dirs[li - up + 1] + "/" + mod + ".py"] = "import pytest\n\n" + fixture_src(rnd, n, doc="decoy: one directory too deep") + "\n"
                    tags.append("import:dots-decoy")
                src += ("from %s%s import *\n" if kind == "star" else "from %s%s import " + n + "\n") % ("." * (up + 1), mod)
                tags.append("import:dots%d" % (up + 1))
            elif kind == "star":
                sub = None
                if rnd.random() < 0.35:
                    # a chain / cycle behind the helper
                    inner = helper_module(d, [n] if rnd.random() < 0.7 else [])
                    sub = "from .%s import *" % inner
                    tags.append("import:chain")
                mod = helper_module(d, [n] if (sub is None or rnd.random() < 0.4) else [], imports_from=sub)
                if sub and rnd.random() < 0.4:
                    # close a cycle: inner imports mod back
                    inner_path = d + "/" + sub.split(".")[1].split(" ")[0] + ".py"
                    files[inner_path] = files[inner_path].replace("import pytest\n", "import pytest\nfrom .%s import *\n" % mod, 1)
                    tags.append("import:cycle")
                src += rnd.choice(["from .%s import *\n", "from %s import *\n"]) % mod
            elif kind == "explicit":
                if rnd.random() < 0.2:
                    mod = helper_module(d, [], nonfixture=[n])
                    tags.append("import:explicit-nonfixture")
                else:
                    mod = helper_module(d, [n] + ([rnd.choice(NAMES)] if rnd.random() < 0.3 else []))
                src += "from .%s import %s\n" % (mod, n)
            elif kind == "plugins":
                mod = helper_module(d, [n])
                src += 'pytest_plugins = ["%s"]\n' % mod
            elif kind == "peer_conftest":
                # the fixture lives in ANOTHER package's conftest.py (not an ancestor) and is
                # re-exported here: references of that definition reach outside its own directory
                helper_count[0] += 1
                peer = "peer_%d" % helper_count[0]
                files[d + "/" + peer + "/__init__.py"] = ""
                files[d + "/" + peer + "/conftest.py"] = "import pytest\n\n" + fixture_src(rnd, n, doc="in the peer conftest") + "\n"
                src += rnd.choice(["from .%s.conftest import %s\n" % (peer, n), "from .%s.conftest import *\n" % peer])
                tags.append("import:peer-conftest")
        files[d + "/conftest.py"] = src + "\n" + body

    # an unimported module and a sibling directory that must never be visible
    if rnd.random() < 0.6:
        n = rnd.choice(names)
        files[dirs[rnd.randrange(len(dirs))] + "/unimported_mod.py"] = "import pytest\n\n" + fixture_src(rnd, n, doc="invisible") + "\n"
        tags.append("invisible:module")
    if rnd.random() < 0.6:
        n = rnd.choice(names)
        sib = dirs[rnd.randrange(len(dirs))] + "/sibling"
        files[sib + "/conftest.py"] = "import pytest\n\n" + fixture_src(rnd, n, doc="sibling") + "\n"
        if rnd.random() < 0.5:
            files[sib + "/test_sib.py"] = "import pytest\n\n" + fixture_src(rnd, n) + "\n" + test_src(rnd, "test_s", [n])
        tags.append("invisible:sibling")

    # plugin and third-party providers
    if rnd.random() < 0.4:
        n = rnd.choice(names)
        p = root + "/plugsrc/my_plugin.py"
        files[p] = "import pytest\n\n" + fixture_src(rnd, n, params=[n] if rnd.random() < 0.3 else [], doc="plugin") + "\n"
        plugins.append(p)
        tags.append("provider:plugin")
    if rnd.random() < 0.4:
        n = rnd.choice(names)
        p = root + "/.venv/lib/python3/site-packages/pytest_thing/plugin.py"
        files[p] = "import pytest\n\n" + fixture_src(rnd, n, scope="session", doc="third party") + "\n"
        tags.append("provider:third-party")
        if rnd.random() < 0.3:
            p2 = root + "/.venv/lib/python3/site-packages/pytest_other/plugin.py"
            files[p2] = "import pytest\n\n" + fixture_src(rnd, n, doc="third party 2") + "\n"

    # test modules
    ntests = rnd.randint(1, 3)
    for k in range(ntests):
        d = dirs[rnd.randrange(len(dirs))] if k else dirs[-1]
        src = "import pytest\n"
        if rnd.random() < 0.12:
            # the using module itself imports a fixture (C14's subject)
            if d + "/conftest.py" in files and helper_count[0] > 0:
                hm = [p for p in files if p.startswith(d + "/helpers_")]
                if hm:
                    src += "from .%s import *\n" % hm[0].rsplit("/", 1)[1][:-3]
                    tags.append("testmodule:imports")
        if rnd.random() < 0.25:
            src += 'pytestmark = pytest.mark.usefixtures("%s")\n' % rnd.choice(names)
            tags.append("usage:pytestmark")
        src += "\n"
        for n in names:
            r = rnd.random()
            if r < 0.25:
                # an override in the test module, often with a return annotation of its own (differs from the parent's)
                src += fixture_src(rnd, n, params=[n] if rnd.random() < 0.5 else [], ret=rnd.choice([None, None, "dict", "float"])) + "\n"
                tags.append("testmodule:def")
                if rnd.random() < 0.25:
                    src += fixture_src(rnd, n, params=[n] if rnd.random() < 0.5 else [], doc="again") + "\n"
                    tags.append("testmodule:redefinition")
        # a fixture depending on names
        if rnd.random() < 0.5:
            src += fixture_src(rnd, "local_%d" % k, params=rnd.sample(names, rnd.randint(1, len(names)))) + "\n"
            tags.append("usage:fixture-param")
        for t in range(rnd.randint(1, 3)):
            kind = rnd.choice(["param", "param", "usefixtures", "indirect", "class", "class-pair"] if not chain_only else
                              ["param", "param", "usefixtures", "indirect", "class"])
            tags.append("usage:" + kind)
            if kind == "param":
                ps = rnd.sample(names, rnd.randint(1, len(names)))
                if rnd.random() < 0.3:
                    ps.append("unknown_fixture")
                src += test_src(rnd, "test_%d_%d" % (k, t), ps) + "\n"
            elif kind == "usefixtures":
                src += test_src(rnd, "test_%d_%d" % (k, t), [], usefixtures=rnd.sample(names, rnd.randint(1, len(names)))) + "\n"
            elif kind == "indirect":
                src += test_src(rnd, "test_%d_%d" % (k, t), [names[0]], indirect=names[0]) + "\n"
            elif kind == "class-pair":
                # two test classes that EACH define the same fixture name and use it in their methods
                # (and in a class-level fixture): every feature must name the same definition for
                # the usages inside the first class
                n = rnd.choice(names)
                for half in ("A", "B"):
                    src += "class TestP%d%s:\n" % (t, half)
                    src += fixture_src(rnd, n, params=["self"], indent="    ", doc="of class %s" % half) + "\n"
                    if rnd.random() < 0.5:
                        src += fixture_src(rnd, "repo_%d%s" % (t, half.lower()), params=["self", n], indent="    ") + "\n"
                    src += test_src(rnd, "test_m", ["self", n], indent="    ") + "\n"
                if rnd.random() < 0.3:
                    src += fixture_src(rnd, n, doc="module level, below the classes") + "\n"
            else:
                src += "class TestK%d:\n" % t
                if rnd.random() < 0.4:
                    src += fixture_src(rnd, rnd.choice(names), params=["self"], indent="    ") + "\n"
                src += test_src(rnd, "test_m", ["self"] + rnd.sample(names, 1), indent="    ") + "\n"
        files[d + "/test_mod%d.py" % k] = src
    # a request for a fixture that is defined ONCE in the whole workspace but is not visible from the requesting
    # module (another test module's local fixture): the request resolves to nothing
    locals_ = [(p, m) for p in files for m in __import__("re").findall(r"def (local_\d+)\(", files[p])]
    if locals_ and rnd.random() < 0.35:
        p0, nm = rnd.choice(locals_)
        others = [p for p in files if "/test_mod" in p and p != p0]
        if others:
            q0 = rnd.choice(others)
            files[q0] += "\ndef test_out_of_scope(%s):\n    pass\n" % nm
            tags.append("usage:out-of-scope-single")

    # two sibling packages that each import THEIR OWN module under the same absolute name (a monorepo of
    # services, each with its testing/fixtures module): an absolute name resolves from the importing file
    if not chain_only and rnd.random() < 0.18:
        n = rnd.choice(names)
        mod = rnd.choice(["svcfx", "testing_fx", "shared_fx"])
        for side in ("svc_a", "svc_b"):
            files[root + "/" + side + "/" + mod + ".py"] = "import pytest\n\n" + fixture_src(rnd, n, doc="of " + side) + "\n" \
                + fixture_src(rnd, "only_" + side, doc="only in " + side) + "\n"
            files[root + "/" + side + "/conftest.py"] = rnd.choice(["from %s import *\n" % mod, "pytest_plugins = (\"%s\",)\n" % mod,
                                                                   "import pytest\nfrom %s import %s, only_%s\n" % (mod, n, side)])
            files[root + "/" + side + "/test_svc.py"] = test_src(rnd, "test_svc", [n, "only_" + side])
        tags.append("import:twin-absolute")

    # a diamond in the star-import graph, reached from two sibling conftest.py files: whatever
    # the first query leaves in the import memo, the second conftest must see the same names
    if not chain_only and rnd.random() < 0.2:
        n = rnd.choice(names)
        files[root + "/dia_d.py"] = "import pytest\n\n" + fixture_src(rnd, n, doc="behind the diamond") + "\n"
        files[root + "/dia_c.py"] = "from dia_d import *\n"
        files[root + "/dia_a.py"] = "from dia_c import *\n"
        files[root + "/dia_b.py"] = rnd.choice(["from dia_c import *\n", "from dia_c import *\nfrom dia_a import *\n"])
        files[root + "/aside/conftest.py"] = "from dia_a import *\nfrom dia_b import *\n"
        files[root + "/zside/conftest.py"] = "from dia_b import *\n"
        files[root + "/aside/test_aside.py"] = test_src(rnd, "test_as", [n])
        files[root + "/zside/test_zside.py"] = test_src(rnd, "test_zs", [n])
        tags.append("import:diamond")

    order = sorted(files)
    rnd.shuffle(order)
    return {"files": files, "plugins": plugins, "order": order, "tags": tags, "names": names, "root": root}


def build_steps(ws):
    steps = [{"op": "mark_plugin", "path": p} for p in ws["plugins"]]
    steps += [{"op": "analyze", "path": p, "text": ws["files"][p]} for p in ws["order"]]
    return steps


def gen_chain_workspace(rnd: random.Random, root="/vc"):
    """override chains of one name over {test module, ancestor conftests, plugin, third-party}"""
    tags = []
    files = {}
    plugins = []
    name = rnd.choice(NAMES)
    depth = rnd.randint(1, 3)
    dirs = [root]
    for k in range(depth):
        dirs.append(dirs[-1] + "/" + "lvl%d" % k)
    places = ["module"] + ["conftest%d" % i for i in range(len(dirs))] + ["plugin", "third"]
    k = rnd.randint(1, min(4, len(places)))
    chosen = sorted(rnd.sample(places, k), key=places.index)
    tags.append("chain%d" % k)
    multiline_p = rnd.random() < 0.25

    def link(requests_parent, doc):
        ml = multiline_p and rnd.random() < 0.6
        if ml:
            tags.append("multiline")
        extra = ["tmp_other"] if rnd.random() < 0.2 else []
        return fixture_src(rnd, name, params=([name] if requests_parent else []) + extra, doc=doc,
                           multiline=ml, scope=rnd.choice([None, None, "session"]),
                           ret=rnd.choice([None, "int", "str", "dict"]))

    for pl in chosen:
        tags.append("link:" + ("conftest" if pl.startswith("conftest") else pl))
        req = rnd.random() < 0.85
        if pl == "module":
            continue
        if pl.startswith("conftest"):
            i = int(pl[8:])
            # conftest index 0 = nearest (deepest dir)
            d = dirs[len(dirs) - 1 - i]
            above = ""
            if rnd.random() < 0.3:
                above = fixture_src(rnd, "uses_" + name, params=[name]) + "\n"
                tags.append("user-above-override")
            if rnd.random() < 0.3:
                # the link is provided by an import: the definition lives in a module beside the conftest
                # (also modules named like standard-library modules, legal names for local modules)
                mod = rnd.choice(["chain_fx", "http", "types", "logging"])
                files[d + "/" + mod + ".py"] = "import pytest\n\n" + link(req, pl + " (imported)") + "\n"
                files[d + "/conftest.py"] = "import pytest\n" + rnd.choice(["from .%s import %s\n" % (mod, name), "from .%s import *\n" % mod]) + "\n" + above
                tags.append("link:imported" + ("-stdlib-named" if mod != "chain_fx" else ""))
            else:
                files[d + "/conftest.py"] = "import pytest\n\n" + above + link(req, pl) + "\n"
        elif pl == "plugin":
            p = root + "/plugsrc/chain_plugin.py"
            files[p] = "import pytest\n\n" + link(req, pl) + "\n"
            plugins.append(p)
        else:
            p = root + "/.venv/lib/python3/site-packages/pytest_chain/plugin.py"
            files[p] = "import pytest\n\n" + link(req and rnd.random() < 0.3, pl) + "\n"
    # using modules at every depth; the deepest may hold the innermost link
    for di, d in enumerate(dirs):
        src = "import pytest\n\n"
        if d == dirs[-1] and "module" in chosen:
            src += link(rnd.random() < 0.85, "module") + "\n"
            if rnd.random() < 0.15:
                tags.append("module:redefinition")
                src += link(True, "module again") + "\n"
        src += test_src(rnd, "test_at_%d" % di, [name]) + "\n"
        if rnd.random() < 0.4:
            src += test_src(rnd, "test_uf_%d" % di, [], usefixtures=[name]) + "\n"
        files[d + "/test_chain%d.py" % di] = src
    if rnd.random() < 0.4:
        files[dirs[0] + "/other/conftest.py"] = "import pytest\n\n" + fixture_src(rnd, name, params=[name], doc="unrelated branch") + "\n"
        tags.append("invisible:sibling")
    order = sorted(files)
    rnd.shuffle(order)
    return {"files": files, "plugins": plugins, "order": order, "tags": tags, "names": [name], "root": root}
