"""Generator family H: edit histories (sequences of full-text versions) over a small
virtual workspace.  Files are lists of blocks so that edits are structural."""
import random

import wsgen

NAMES = ["fx_a", "fx_b", "db"]


class File:
    def __init__(self, path, header, blocks):
        self.path, self.header, self.blocks, self.broken = path, header, list(blocks), False
        self.blank = None

    def text(self):
        if self.blank is not None:
            return self.blank
        t = self.header + "\n" + "\n".join(self.blocks)
        if self.broken:
            t += "\ndef broken(:\n    pass\n"
        return t


def fixture_block(rnd, name, params=()):
    return wsgen.fixture_src(rnd, name, params=list(params), scope=rnd.choice([None, None, "session"]),
                             doc=rnd.choice([None, "d"]), style="pytest.fixture")


def class_block(rnd, name, k):
    """a test class with a fixture of its own (recorded by the analyzer's second pass only) and a method using it"""
    return ("class TestH%d:\n" % k + wsgen.fixture_src(rnd, name, params=["self"], indent="    ", style="pytest.fixture",
                                                        scope=rnd.choice([None, "class"]), doc=rnd.choice([None, "in a class"]))
            + "\n    def test_m(self, %s):\n        pass\n" % name)


def test_block(rnd, k, names):
    kind = rnd.choice(["param", "param", "usefixtures", "body"])
    if kind == "param":
        return wsgen.test_src(rnd, "test_%d" % k, rnd.sample(names, rnd.randint(1, len(names))))
    if kind == "usefixtures":
        return wsgen.test_src(rnd, "test_%d" % k, [], usefixtures=rnd.sample(names, 1))
    # a body that uses a fixture without declaring it (undeclared-fixture finding)
    n = rnd.choice(names)
    return "def test_%d():\n    x = %s.value\n    return x\n" % (k, n)


def gen_history(rnd: random.Random, root="/vh"):
    tags = []
    names = rnd.sample(NAMES, rnd.randint(1, 3))
    sub = root + "/pkg"
    files = {}
    files[root + "/conftest.py"] = File(root + "/conftest.py", "import pytest\n", [fixture_block(rnd, n) for n in names if rnd.random() < 0.7])
    helper_names = [n for n in names if rnd.random() < 0.6] or [names[0]]
    files[sub + "/helpers.py"] = File(sub + "/helpers.py", "import pytest\n", [fixture_block(rnd, n) for n in helper_names])
    # a second helper module the conftest's star import can be retargeted to (same statement
    # shape, other module: the set of module-level names of the conftest does not change)
    files[sub + "/helpers2.py"] = File(sub + "/helpers2.py", "import pytest\n",
                                        [fixture_block(rnd, n) for n in names if rnd.random() < 0.6] or [fixture_block(rnd, names[-1])])
    imp = rnd.choice(["from .helpers import *\n", "from .helpers import %s\n" % helper_names[0], "", "from .helpers2 import *\n"])
    files[sub + "/conftest.py"] = File(sub + "/conftest.py", "import pytest\n" + imp,
                                       [fixture_block(rnd, n, [n]) for n in names if rnd.random() < 0.3])
    files[sub + "/test_a.py"] = File(sub + "/test_a.py", "import pytest\n", [test_block(rnd, k, names) for k in range(rnd.randint(1, 3))]
                                     + ([class_block(rnd, names[0], 50)] if rnd.random() < 0.4 else []))
    files[root + "/test_b.py"] = File(root + "/test_b.py", "import pytest\n",
                                      [fixture_block(rnd, names[0], [names[0]])] * (rnd.random() < 0.4) + [test_block(rnd, 9, names)])
    order = sorted(files)
    rnd.shuffle(order)
    versions = [(p, files[p].text()) for p in order]
    nedits = rnd.randint(3, 9)
    counter = [100]
    for _ in range(nedits):
        p = rnd.choice(order)
        f = files[p]
        kind = rnd.choice(["add_fixture", "remove", "rename", "move", "add_test", "break", "repair", "resend", "imports", "remove_all", "retarget", "blank"])
        if kind == "retarget":
            p = sub + "/conftest.py"
            f = files[p]
        if f.broken and kind not in ("repair", "resend"):
            kind = rnd.choice(["repair", kind])
        tags.append("edit:" + kind)
        f.blank = None
        if kind == "blank":
            # the whole buffer emptied (select all, delete), or only white space left
            f.blank = rnd.choice(["", "\n", "   \n\t\n", "\n\n"])
        elif kind == "add_fixture":
            n = rnd.choice(names + ["extra"])
            if rnd.random() < 0.3:
                counter[0] += 1
                f.blocks.insert(rnd.randint(0, len(f.blocks)), class_block(rnd, n, counter[0]))
                tags.append("edit:add_class_fixture")
            else:
                f.blocks.insert(rnd.randint(0, len(f.blocks)), fixture_block(rnd, n, [n] if rnd.random() < 0.3 else []))
        elif kind == "remove" and f.blocks:
            del f.blocks[rnd.randrange(len(f.blocks))]
        elif kind == "remove_all":
            f.blocks = []
        elif kind == "rename" and f.blocks:
            i = rnd.randrange(len(f.blocks))
            n = rnd.choice(names)
            f.blocks[i] = f.blocks[i].replace(n, n + "_r")
        elif kind == "move":
            f.header = f.header + "\n" * rnd.randint(1, 2)
            rnd.shuffle(f.blocks)
        elif kind == "add_test":
            counter[0] += 1
            f.blocks.append(test_block(rnd, counter[0], names))
        elif kind == "break":
            f.broken = True
        elif kind == "repair":
            f.broken = False
        elif kind == "retarget":
            if "from .helpers2 import *" in f.header:
                f.header = f.header.replace("from .helpers2 import *", "from .helpers import *")
            elif "from .helpers import *" in f.header:
                f.header = f.header.replace("from .helpers import *", "from .helpers2 import *")
            else:
                f.header = "import pytest\nfrom .helpers2 import *\n"
        elif kind == "imports":
            if "from .helpers" in f.header:
                f.header = "import pytest\n"
            elif p.endswith("conftest.py") and "/pkg/" in p:
                f.header = "import pytest\nfrom .helpers import *\n"
        versions.append((p, f.text()))
    return {"versions": versions, "names": names, "tags": tags, "nfiles": len(order)}
