"""Generator family G: fixture dependency graphs spread over files, with scopes."""
import random

import wsgen

SCOPES = [None, "function", "class", "module", "package", "session"]


def gen_graph_workspace(rnd: random.Random, root="/vg"):
    tags = []
    names = ["fa", "fb", "fc", "fd", "fe", "ff"][: rnd.randint(2, 6)]
    dirs = [root, root + "/pkg", root + "/pkg/sub"][: rnd.randint(1, 3)]
    files = {}
    blocks = {}

    def add(path, src):
        blocks.setdefault(path, []).append(src)

    # a helper module whose fixtures reach the graph through an import of the conftest beside it:
    # fixtures DEFINED in that conftest depend on fixtures it only imports
    imp_dir = rnd.choice(dirs) if rnd.random() < 0.4 else None
    imp_mod = imp_dir + "/gfx_mod.py" if imp_dir else None
    # each name gets 1-3 definitions at different places
    for n in names:
        cands = [d + "/conftest.py" for d in dirs] + [dirs[-1] + "/test_g.py", root + "/other/conftest.py"] + ([imp_mod] if imp_mod else [])
        places = rnd.sample(cands, rnd.randint(1, min(3, len(dirs) + 2)))
        for p in places:
            deps = []
            r = rnd.random()
            if r < 0.25:
                deps.append(n)               # self-named parameter (override, or a true self-loop)
                tags.append("self-param")
            for m in names:
                if m != n and rnd.random() < 0.3:
                    deps.append(m)
            if rnd.random() < 0.15:
                deps.append("unknown_dep")
            if rnd.random() < 0.2:
                deps.append("request")
            add(p, wsgen.fixture_src(rnd, n, params=deps, scope=rnd.choice(SCOPES), style="pytest.fixture"))
            if rnd.random() < 0.08:
                add(p, wsgen.fixture_src(rnd, n, params=[m for m in names if rnd.random() < 0.3], scope=rnd.choice(SCOPES), style="pytest.fixture"))
                tags.append("redefinition")
    headers = {}
    if imp_mod and imp_mod in blocks:
        cf = imp_dir + "/conftest.py"
        blocks.setdefault(cf, [])
        provided = sorted(set(n for n in names if any(("def %s(" % n) in b for b in blocks[imp_mod])))
        headers[cf] = rnd.choice(["from .gfx_mod import *\n", "from .gfx_mod import %s\n" % ", ".join(provided), "pytest_plugins = [\"gfx_mod\"]\n"])
        tags.append("imported-provider")
    for p, bs in blocks.items():
        rnd.shuffle(bs)
        files[p] = "import pytest\n" + headers.get(p, "") + "\n" + "\n".join(bs)
    files[dirs[-1] + "/test_use.py"] = "def test_u(%s):\n    pass\n" % ", ".join(rnd.sample(names, rnd.randint(1, len(names))))
    order = sorted(files)
    rnd.shuffle(order)
    tags.append("names%d" % len(names))
    tags.append("files%d" % len(files))
    return {"files": files, "plugins": [], "order": order, "tags": tags, "names": names, "root": root}
