(** * Model/Diagnostics: cycle detection and scope mismatches.
    Mirrors [compute_fixture_cycles] / [detect_fixture_cycles] (memo keyed by the
    definitions version) / [detect_fixture_cycles_in_file] /
    [detect_scope_mismatches_in_file] of src/fixtures/resolver.rs, after the
    definition-level rewrite: nodes are definitions, sorted by (file, line, name);
    each dependency is resolved from the depending fixture's file as go-to-definition
    resolves it.  The explicit-stack DFS of the code is modelled by the equivalent
    recursive DFS on explicit fuel (validated by correspondence). *)
From PLS Require Export Spec.Deps Model.Cache.

Section Diag.
  Variable dk : disk.
  Variable roots : list path.
  Variable s : index.

  (** Rust's derived ordering of PathBuf compares components root first *)
  Fixpoint list_leb (leb : string -> string -> bool) (a b : list string) : bool :=
    match a, b with
    | [], _ => true
    | _ :: _, [] => false
    | x :: a', y :: b' => if String.eqb x y then list_leb leb a' b' else String.leb x y
    end.
  Definition path_leb (p q : path) : bool := list_leb String.leb (rev p) (rev q).

  Definition node_leb (a b : fdef) : bool :=
    if path_eqb (d_file a) (d_file b) then
      if d_line a =? d_line b then String.leb (d_name a) (d_name b) else d_line a <? d_line b
    else path_leb (d_file a) (d_file b).

  Definition nodes : list fdef := isort node_leb (defs s).

  (** the code keys nodes by (file, line, name) *)
  Definition same_node (a b : fdef) : bool :=
    path_eqb (d_file a) (d_file b) && (d_line a =? d_line b) && String.eqb (d_name a) (d_name b).
  Definition node_of (d : fdef) : option fdef := find (same_node d) nodes.

  Definition node_succs (d : fdef) : list fdef :=
    flat_map (fun n => match dep_target dk roots s d n with
                       | Some t => match node_of t with Some x => [x] | None => [] end
                       | None => []
                       end) (d_deps d).

  Record dfs_state := mk_dfs { visited : list fdef; seen_keys : list (list fdef); found : list cycle }.

  Definition mem_node (d : fdef) (l : list fdef) : bool := memb fdef_eqb d l.

  Fixpoint drop_until (d : fdef) (pth : list fdef) : list fdef :=
    match pth with
    | [] => []
    | x :: r => if fdef_eqb x d then pth else drop_until d r
    end.

  Definition key_eqb (a b : list fdef) : bool := set_eqb fdef_eqb a b.

  Definition report (pth : list fdef) (closing : fdef) (st : dfs_state) : dfs_state :=
    let members := drop_until closing pth in
    if memb key_eqb members (seen_keys st) then st
    else mk_dfs (visited st) (seen_keys st ++ [members])
                (found st ++ [mk_cycle (map d_name members ++ [d_name closing]) closing]).

  (** [visit fuel rec pth d st]: d is neither visited nor on the recursion stack *)
  Fixpoint visit (fuel : nat) (rec pth : list fdef) (d : fdef) (st : dfs_state) : dfs_state :=
    match fuel with
    | O => st
    | S fuel' =>
        let rec' := d :: rec in
        let pth' := pth ++ [d] in
        let st' := fold_left (fun st dep =>
                                if mem_node dep rec' then report pth' dep st
                                else if mem_node dep (visited st) then st
                                else visit fuel' rec' pth' dep st)
                             (node_succs d) st in
        mk_dfs (d :: visited st') (seen_keys st') (found st')
    end.

  Definition cycles_cold : list cycle :=
    found (fold_left (fun st d => if mem_node d (visited st) then st
                                  else visit (S (List.length nodes)) [] [] d st)
                     nodes (mk_dfs [] [] [])).

  Definition cyc_hit : option (list cycle) :=
    match cyc_cache s with
    | Some (v, l) => if v =? version s then Some l else None
    | None => None
    end.
  Definition cycles : list cycle := match cyc_hit with Some l => l | None => cycles_cold end.

  Definition cycles_in_file (F : path) : list cycle :=
    filter (fun c => path_eqb (d_file (cy_fixture c)) F) cycles.

  (** [detect_scope_mismatches_in_file]: iterates file_definitions[F] (a HashSet:
      order is an oracle; the model uses insertion order and results are compared
      as sets) *)
  Definition mismatches (F : path) : list mismatch :=
    flat_map (fun n =>
                match max_by_key d_line (filter (fun d => path_eqb (d_file d) F) (defs_named s n)) with
                | None => []
                | Some f =>
                    flat_map (fun dn => match dep_target dk roots s f dn with
                                        | Some dep => if d_scope dep <? d_scope f then [mk_mismatch f dep] else []
                                        | None => []
                                        end) (d_deps f)
                end)
             (file_def_names s F).
End Diag.

(** what the cycle query leaves behind *)
Definition post_cycles (dk : disk) (roots : list path) (s : index) : index :=
  match cyc_hit s with
  | Some _ => s
  | None =>
      (* every dependency resolution is a cascade with its own memo effects *)
      let s1 := fold_left (fun s d =>
                             fold_left (fun s n =>
                                          if String.eqb n (d_name d)
                                          then post_closest_with dk roots s (fun x => negb (fdef_eqb x d)) (d_file d) n
                                          else post_closest_with dk roots s (fun _ => true) (d_file d) n)
                                       (d_deps d) s)
                          (nodes s) s in
      set_cyc_cache s1 (Some (version s, cycles_cold dk roots s))
  end.
