(** * Cli: what `fixtures list` / `fixtures unused` compute from the index.
    Mirrors src/fixtures/cli.rs ([compute_definition_usage_counts],
    [get_unused_fixtures], the filter of [print_tree_node]) and the exit status of
    [handle_fixtures_unused] (src/main.rs).  Text / JSON rendering is not modelled.
    Definitions only. *)
From PLS Require Export Model.Resolve.

(** [PathBuf]'s order: component-wise from the root; paths here are leaf first *)
Fixpoint lex_leb (a b : list string) : bool :=
  match a, b with
  | [], _ => true
  | _ :: _, [] => false
  | x :: a', y :: b' => if String.eqb x y then lex_leb a' b' else String.leb x y
  end.
Definition path_leb (p q : path) : bool := lex_leb (rev p) (rev q).
Definition key := (path * string)%type.
Definition key_eqb (a b : key) : bool := path_eqb (fst a) (fst b) && String.eqb (snd a) (snd b).
Definition key_leb (a b : key) : bool :=
  if path_eqb (fst a) (fst b) then String.leb (snd a) (snd b) else path_leb (fst a) (fst b).

Section Cli.
  Variable dk : disk.
  Variable roots : list path.
  Variable s : index.

  (** since fix (known_findings.json): the definition of the file whose function SPANS
      the line — the same test as [get_fixture_definition_at_line] *)
  Definition cli_def_at_line (F : path) (line : N) : option fdef := def_at_line s F line.
  (** before the fix: [fixture_def_lines[file][line]], the definition that STARTS there *)
  Definition cli_def_at_line_old (F : path) (line : N) : option fdef :=
    find (fun d => path_eqb (d_file d) F && (d_line d =? line)) (defs s).

  Definition cli_resolve_with (dal : path -> N -> option fdef) (u : usage) : option fdef :=
    match dal (u_file u) (u_line u) with
    | Some cd => if String.eqb (d_name cd) (u_name u)
                 then closest_excluding dk roots s (u_file u) (u_name u) cd
                 else closest dk roots s (u_file u) (u_name u)
    | None => closest dk roots s (u_file u) (u_name u)
    end.
  Definition cli_resolve := cli_resolve_with cli_def_at_line.

  Definition counted_with (dal : path -> N -> option fdef) (k : key) (u : usage) : bool :=
    match cli_resolve_with dal u with
    | Some d => path_eqb (d_file d) (fst k) && String.eqb (u_name u) (snd k)
    | None => false
    end.
  Definition counted := counted_with cli_def_at_line.
  Definition cli_count_with (dal : path -> N -> option fdef) (k : key) : N :=
    len (filter (counted_with dal k) (usages s)).
  Definition cli_count := cli_count_with cli_def_at_line.
  Definition cli_count_old := cli_count_with cli_def_at_line_old.

  Definition key_of (d : fdef) : key := (d_file d, d_name d).
  Definition cli_keys : list key := isort key_leb (dedup key_eqb (map key_of (defs s))).
  Definition cli_counts : list (key * N) := map (fun k => (k, cli_count k)) cli_keys.

  (** one entry per DEFINITION, sorted by (path, name) *)
  Definition cli_unused : list key :=
    isort key_leb
      (map key_of (filter (fun d => negb (d_third d) && negb (d_autouse d) && (cli_count (key_of d) =? 0)) (defs s))).

  Definition cli_exit_status : N := match cli_unused with [] => 0 | _ => 1 end.

  Definition key_autouse (k : key) : bool :=
    existsb (fun d => key_eqb (key_of d) k && d_autouse d) (defs s).

  (** the entries `fixtures list` shows under the three flag settings *)
  Definition shown (skip_unused only_unused : bool) (k : key) : bool :=
    if only_unused then (cli_count k =? 0) && negb (key_autouse k)
    else if skip_unused then (0 <? cli_count k) || key_autouse k
    else true.
  Definition cli_list (skip_unused only_unused : bool) : list (key * N) :=
    filter (fun kc => shown skip_unused only_unused (fst kc)) cli_counts.
End Cli.
