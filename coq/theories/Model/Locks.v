(** * Locks: threads as sequences of lock acquisitions and releases on the shards of the
    shared concurrent maps, under the reader-preferring read/write lock of dashmap 6.1.0
    (lock.rs: a shared acquisition succeeds iff no writer HOLDS the lock — parked writers
    do not block readers; an exclusive acquisition succeeds iff nobody holds it; a thread
    that asks for a lock it already holds in a conflicting mode blocks itself).
    A lock is (map id, shard); which keys share a shard is not assumed: the nesting
    table records MAPS only, i.e. any two keys of one map may collide.  Definitions only. *)
From Coq Require Export List Arith Bool.
Export ListNotations.

Inductive mode := R | W.
Definition mode_eqb (a b : mode) : bool := match a, b with R, R | W, W => true | _, _ => false end.
Definition lock := (nat * nat)%type.           (* map id, shard *)
Definition lock_eqb (a b : lock) : bool := Nat.eqb (fst a) (fst b) && Nat.eqb (snd a) (snd b).
Inductive act := Acq (l : lock) (m : mode) | Rel (l : lock) (m : mode).

Record thread := mk_thread { held : list (lock * mode); rest : list act }.

(** a request in mode [req] conflicts with a lock held in mode [h] unless both are reads *)
Definition conflict (req h : mode) : bool := match req, h with R, R => false | _, _ => true end.
Definition blocks (t : thread) (l : lock) (m : mode) : bool :=
  existsb (fun hm => lock_eqb (fst hm) l && conflict m (snd hm)) (held t).
Definition can_acq (c : list thread) (l : lock) (m : mode) : bool :=
  forallb (fun t => negb (blocks t l m)) c.

Fixpoint remove_one (x : lock * mode) (H : list (lock * mode)) : list (lock * mode) :=
  match H with
  | [] => []
  | y :: H' => if lock_eqb (fst x) (fst y) && mode_eqb (snd x) (snd y) then H' else y :: remove_one x H'
  end.

(** one step of one thread inside configuration [c] *)
Definition tstep (c : list thread) (t : thread) : option thread :=
  match rest t with
  | [] => None
  | Acq l m :: r => if can_acq c l m then Some (mk_thread ((l, m) :: held t) r) else None
  | Rel l m :: r => Some (mk_thread (remove_one (l, m) (held t)) r)
  end.

Fixpoint replace_nth {A} (i : nat) (x : A) (l : list A) : list A :=
  match i, l with
  | _, [] => []
  | O, _ :: l' => x :: l'
  | S i', y :: l' => y :: replace_nth i' x l'
  end.

Inductive step : list thread -> list thread -> Prop :=
| step_at i t t' c : nth_error c i = Some t -> tstep c t = Some t' -> step c (replace_nth i t' c).

(** ** the nesting table: (held map, held mode) -> (requested map, requested mode) *)
Definition mm := (nat * mode)%type.
Definition edge := (mm * mm)%type.
Definition held_map (e : edge) : nat := fst (fst e).
Definition held_mode (e : edge) : mode := snd (fst e).
Definition req_map (e : edge) : nat := fst (snd e).
Definition req_mode (e : edge) : mode := snd (snd e).

Definition edges_of (H : list (lock * mode)) (l : lock) (m : mode) : list edge :=
  map (fun h => ((fst (fst h), snd h), (fst l, m))) H.

Fixpoint nest (H : list (lock * mode)) (acts : list act) : list edge :=
  match acts with
  | [] => []
  | Acq l m :: r => edges_of H l m ++ nest ((l, m) :: H) r
  | Rel l m :: r => nest (remove_one (l, m) H) r
  end.
Fixpoint final_held (H : list (lock * mode)) (acts : list act) : list (lock * mode) :=
  match acts with
  | [] => H
  | Acq l m :: r => final_held ((l, m) :: H) r
  | Rel l m :: r => final_held (remove_one (l, m) H) r
  end.

(** the conflict relation between nestings: the request of [e] can be blocked by a
    thread that holds what [e'] holds *)
Definition G (e e' : edge) : Prop :=
  req_map e = held_map e' /\ (req_mode e = W \/ held_mode e' = W).
Definition Gb (e e' : edge) : bool :=
  Nat.eqb (req_map e) (held_map e')
  && (mode_eqb (req_mode e) W || mode_eqb (held_mode e') W).

(** ** executable acyclicity test on a finite table: repeatedly delete edges without a
    [G]-successor inside the remaining table; acyclic iff nothing is left *)
Fixpoint prune (fuel : nat) (E : list edge) : list edge :=
  match fuel with
  | O => E
  | S f => prune f (filter (fun e => existsb (Gb e) E) E)
  end.
Definition acyclicb (E : list edge) : bool :=
  match prune (length E) E with [] => true | _ => false end.
