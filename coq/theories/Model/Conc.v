(** * Conc: the shared per-name vectors ([definitions], [usage_by_fixture]) under
    concurrent analyses, at the granularity of individual DashMap operations.
    One shared multimap  key -> Vec<(file, item)>  (a key may be absent, or present with an
    empty vector — the state the code must never leave behind).  An analysis of file F is
    a thread whose pending operations are, in this order (analyzer.rs):
      - for every key of a list L it obtained beforehand ([usage_by_fixture.iter()] keys, or
        the names of [file_definitions.remove(F)]):  get_mut + retain(entries not of F),
        observing whether the vector became empty, and if so  remove_if(is_empty);
      - for every recorded item:  entry(key).or_default().push((F, item)).
    Each of these is ONE atomic step (DashMap holds the shard lock for the call); threads
    interleave arbitrarily.  The per-file maps (file_definitions, usages, imports,
    file_cache entries) are only ever touched by the thread that owns the file and are not
    part of this model.  Definitions only. *)
From Coq Require Export List Bool Arith.
Export ListNotations.

Section Conc.
  Variables (key file item : Type).
  Variable key_eqb : key -> key -> bool.
  Variable file_eqb : file -> file -> bool.

  Definition entry := (file * item)%type.
  Definition mmap := key -> option (list entry).

  Definition upd (m : mmap) (k : key) (v : option (list entry)) : mmap :=
    fun k' => if key_eqb k' k then v else m k'.

  (** entries of file F under a key, in vector order *)
  Definition of_file (F : file) (l : list entry) : list entry :=
    filter (fun e => file_eqb (fst e) F) l.
  Definition not_of_file (F : file) (l : list entry) : list entry :=
    filter (fun e => negb (file_eqb (fst e) F)) l.
  Definition slice (F : file) (m : mmap) (k : key) : list entry :=
    match m k with Some l => of_file F l | None => [] end.

  Inductive pend :=
  | PRetain (k : key)            (* get_mut(k): retain entries of other files; note emptiness *)
  | PRemoveIfEmpty (k : key)     (* remove_if(k, is_empty) *)
  | PPush (k : key) (x : item).  (* entry(k).or_default().push((F, x)) *)

  Record thr := mk_thr { t_file : file; t_pend : list pend }.

  (** one atomic step of a thread on the shared map *)
  Definition tstep (m : mmap) (t : thr) : option (mmap * thr) :=
    match t_pend t with
    | [] => None
    | PRetain k :: r =>
        match m k with
        | None => Some (m, mk_thr (t_file t) r)
        | Some l =>
            let l' := not_of_file (t_file t) l in
            Some (upd m k (Some l'),
                  mk_thr (t_file t) (match l' with [] => PRemoveIfEmpty k :: r | _ => r end))
        end
    | PRemoveIfEmpty k :: r =>
        match m k with
        | Some [] => Some (upd m k None, mk_thr (t_file t) r)
        | _ => Some (m, mk_thr (t_file t) r)
        end
    | PPush k x :: r =>
        let l := match m k with Some l => l | None => [] end in
        Some (upd m k (Some (l ++ [(t_file t, x)])), mk_thr (t_file t) r)
    end.

  Fixpoint replace_nth {A} (i : nat) (x : A) (l : list A) : list A :=
    match i, l with
    | _, [] => []
    | O, _ :: l' => x :: l'
    | S i', y :: l' => y :: replace_nth i' x l'
    end.

  (** configurations: the shared map and the threads; any thread may move next *)
  Inductive step : mmap * list thr -> mmap * list thr -> Prop :=
  | step_at m ts i t m' t' :
      nth_error ts i = Some t -> tstep m t = Some (m', t') -> step (m, ts) (m', replace_nth i t' ts).
  Inductive steps : mmap * list thr -> mmap * list thr -> Prop :=
  | steps_refl c : steps c c
  | steps_next c c' c'' : step c c' -> steps c' c'' -> steps c c''.

  Definition quiescent (ts : list thr) : Prop := forall t, In t ts -> t_pend t = [].

  (** the program of one analysis: clean the keys of [L], then record [items] *)
  Definition program (L : list key) (items : list (key * item)) : list pend :=
    map PRetain L ++ map (fun kx => PPush (fst kx) (snd kx)) items.

  Definition pushed_at (F : file) (items : list (key * item)) (k : key) : list entry :=
    map (fun kx => (F, snd kx)) (filter (fun kx => key_eqb (fst kx) k) items).
End Conc.
