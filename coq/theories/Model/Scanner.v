(** * Scanner: phase 1 of the workspace scan (file selection) over a directory tree,
    and the third-party classification of the files it selects.
    Mirrors src/fixtures/scanner.rs [scan_workspace_with_excludes] (WalkDir with
    [filter_entry], the per-path component test, the exclude patterns, the file-name
    test) and [should_skip_directory]; the tables come from Generated/Tables.v.
    Paths are LEAF FIRST (Model/Types.v).  Definitions only. *)
From PLS Require Export Model.Types Generated.Tables.
Open Scope list_scope.

Inductive tree :=
| TFile (name : string) (utf8 : bool)          (* utf8 = false: std::fs::read_to_string fails *)
| TDir (name : string) (children : list tree).

Fixpoint str_rev_app (s acc : string) : string :=
  match s with EmptyString => acc | String a s' => str_rev_app s' (String a acc) end.
Definition str_rev (s : string) : string := str_rev_app s EmptyString.
Definition suffixb (p s : string) : bool := prefixb (str_rev p) (str_rev s).

Definition should_skip_directory (n : string) : bool :=
  mem_str n skip_directories || suffixb egg_info_suffix n.

Definition is_test_file_name (n : string) : bool :=
  (test_file_conftest && String.eqb n "conftest.py")
  || (test_file_prefix && prefixb "test_" n && suffixb ".py" n)
  || (test_file_suffix && suffixb "_test.py" n).

(** every file WalkDir yields below a directory entry; a directory whose name is to be
    skipped is never descended into ([filter_entry]).  [rel] = the directory's path
    relative to the root. *)
Fixpoint walk (rel : path) (t : tree) : list (path * bool) :=
  match t with
  | TFile n u => [(n :: rel, u)]
  | TDir n cs => if should_skip_directory n then [] else flat_map (walk (n :: rel)) cs
  end.

Section Scan.
  (** [excl p]: some configured glob pattern matches the root-relative path (the real
      [glob] crate is an oracle) *)
  Variable excl : path -> bool.

  Definition keep (p : path) : bool :=
    negb (existsb should_skip_directory p) && negb (excl p)
    && match p with n :: _ => is_test_file_name n | [] => false end.

  (** since fix (see known_findings.json): the root entry itself is never filtered and
      the component test looks at the root-relative path only *)
  Definition selected (root_children : list tree) : list (path * bool) :=
    filter (fun pu => keep (fst pu)) (flat_map (walk []) root_children).

  (** before the fix: [filter_entry] also tested the root directory's own name, and the
      component test ran over the ABSOLUTE path.  [abs_root] leaf first. *)
  Definition keep_old (abs_root : path) (p : path) : bool :=
    negb (existsb should_skip_directory (p ++ abs_root)) && negb (excl p)
    && match p with n :: _ => is_test_file_name n | [] => false end.
  Definition selected_old (abs_root : path) (root_children : list tree) : list (path * bool) :=
    match abs_root with
    | rn :: _ => if should_skip_directory rn then [] else
                 filter (fun pu => keep_old abs_root (fst pu)) (flat_map (walk []) root_children)
    | [] => filter (fun pu => keep_old abs_root (fst pu)) (flat_map (walk []) root_children)
    end.

  (** phase 2: a file whose text cannot be read is skipped, alone *)
  Definition analysed (root_children : list tree) : list path :=
    map fst (filter snd (selected root_children)).
End Scan.

(** third-party classification of a workspace file, from its root-relative path *)
Definition third_party_rel (p : path) : bool := existsb (String.eqb site_packages) p.
(** before the fix: substring test over the absolute path *)
Definition third_party_old (abs_root p : path) : bool := path_contains_site_packages_old (p ++ abs_root).
