(** * Types: paths, definitions, usages, per-version file facts.
    Mirrors src/fixtures/types.rs.  Strings are Coq [string]s holding the UTF-8
    bytes; [String.compare] is bytewise and therefore equals Rust's [str] order. *)
From PLS Require Export Base.Prelude.

(** ** Paths.  A path is the list of its components, LEAF FIRST:
    [/vw/a/conftest.py] is ["conftest.py"; "a"; "vw"].  [Path::parent] is [tl],
    [Path::join] is cons, the root directory is []. *)
Definition path := list string.
Definition path_eqb (p q : path) : bool := list_eqb String.eqb p q.
Definition mem_path (p : path) (l : list path) : bool := memb path_eqb p l.

Definition conftest_py : string := "conftest.py".
Definition init_py : string := "__init__.py".
Definition site_packages : string := "site-packages".

Definition parent (p : path) : option path :=
  match p with [] => None | _ :: d => Some d end.
Definition file_name (p : path) : option string :=
  match p with [] => None | x :: _ => Some x end.
Definition is_conftest (p : path) : bool :=
  match p with x :: _ => String.eqb x conftest_py | [] => false end.

(** [dir] and all its ancestors up to and including the root — the sequence of
    [current_dir] values of the `loop { ...; current_dir = parent }` walks. *)
Fixpoint ancestors (dir : path) : list path :=
  dir :: match dir with [] => [] | _ :: d => ancestors d end.

(** [Path::starts_with]: [dir] is an ancestor-or-self of [p] (component-wise). *)
Definition starts_with (p dir : path) : bool := mem_path dir (ancestors p).

(** [is_in_site_packages] (since fix 29c6b9a): some component is named exactly
    "site-packages".  With no workspace root set (virtual workspaces of the harness) the
    whole path is examined; for a workspace file only the root-relative part
    (Model/Scanner.v [third_party_rel]). *)
Definition path_contains_site_packages (p : path) : bool :=
  existsb (String.eqb site_packages) p.
(** before that fix: substring test over the joined absolute path — the needle has no
    separator, so it occurs in the joined string iff it occurs in a component *)
Definition path_contains_site_packages_old (p : path) : bool :=
  existsb (containsb site_packages) p.

(** ** Scopes: Function=0 < Class=1 < Module=2 < Package=3 < Session=4 *)
Definition scope := N.

(** ** Definitions and usages as stored in the index *)
Record fdef := mk_fdef {
  d_name : string;  d_file : path;
  d_line : N;  d_end_line : N;  d_start : N;  d_end : N;
  d_doc : option string;  d_ret : option string;
  d_third : bool;  d_plugin : bool;
  d_deps : list string;  d_scope : scope;  d_yield : option N;  d_autouse : bool }.

Definition fdef_eqb (a b : fdef) : bool :=
  String.eqb (d_name a) (d_name b) && path_eqb (d_file a) (d_file b) &&
  N.eqb (d_line a) (d_line b) && N.eqb (d_end_line a) (d_end_line b) &&
  N.eqb (d_start a) (d_start b) && N.eqb (d_end a) (d_end b) &&
  opt_eqb String.eqb (d_doc a) (d_doc b) && opt_eqb String.eqb (d_ret a) (d_ret b) &&
  Bool.eqb (d_third a) (d_third b) && Bool.eqb (d_plugin a) (d_plugin b) &&
  list_eqb String.eqb (d_deps a) (d_deps b) && N.eqb (d_scope a) (d_scope b) &&
  opt_eqb N.eqb (d_yield a) (d_yield b) && Bool.eqb (d_autouse a) (d_autouse b).

Record usage := mk_usage {
  u_name : string;  u_file : path;  u_line : N;  u_start : N;  u_end : N }.

Definition usage_eqb (a b : usage) : bool :=
  String.eqb (u_name a) (u_name b) && path_eqb (u_file a) (u_file b) &&
  N.eqb (u_line a) (u_line b) && N.eqb (u_start a) (u_start b) && N.eqb (u_end a) (u_end b).

Record undecl := mk_undecl {
  n_name : string;  n_file : path;  n_line : N;  n_start : N;  n_end : N;
  n_fn : string;  n_fn_line : N }.

Definition undecl_eqb (a b : undecl) : bool :=
  String.eqb (n_name a) (n_name b) && path_eqb (n_file a) (n_file b) &&
  N.eqb (n_line a) (n_line b) && N.eqb (n_start a) (n_start b) && N.eqb (n_end a) (n_end b) &&
  String.eqb (n_fn a) (n_fn b) && N.eqb (n_fn_line a) (n_fn_line b).

(** ** What one version of one file says (the analyzer's input, after parsing).
    Items are in the order in which [visit_stmt] performs its side effects. *)
Record ldef := mk_ldef {   (* a definition before the analysis attaches file / flags *)
  l_name : string;  l_line : N;  l_end_line : N;  l_start : N;  l_end : N;
  l_doc : option string;  l_ret : option string;
  l_deps : list string;  l_scope : scope;  l_yield : option N;  l_autouse : bool }.

Record lusage := mk_lusage { lu_name : string; lu_line : N; lu_start : N; lu_end : N }.

(** a [Name] node visited by the body scan *)
Record bname := mk_bname { b_name : string; b_line : N; b_start : N; b_end : N }.

Record body := mk_body {
  bd_declared : list string;          (* declared_params of the enclosing function *)
  bd_locals : list (string * N);      (* local_vars as collected: name -> binding line *)
  bd_fn : string;  bd_fn_line : N;
  bd_names : list bname }.            (* visited Name nodes, in visiting order *)

Inductive item :=
| IUse (u : lusage)
| IDef (d : ldef)
| IBody (b : body).

(** an import edge: `from <dots><mod> import *|names`, or a `pytest_plugins` entry *)
Inductive ikind := Star | Names (ns : list string).
Record edge := mk_edge {
  e_level : N;               (* number of leading dots *)
  e_mod : list string;       (* dotted module path, first segment first *)
  e_kind : ikind }.

Record facts := mk_facts {
  f_ok : bool;                    (* does the text parse? *)
  f_text : N;                     (* identity of the text (stands for its content hash) *)
  f_lines : list string;          (* the text, as [str::lines] *)
  f_modnames : list string;       (* collect_module_level_names *)
  f_items : list item;
  f_edges : list edge }.          (* extract_fixture_imports ++ extract_pytest_plugins (as Star) *)
