(** * ScanModel: phases 3 and 4 of the workspace scan — plugin discovery in the virtual
    environment and the transitive scan of imported fixture modules — at the level of WHICH
    files get analysed and WHICH are marked as plugin files, plus the third-party
    classification of a file.
    Mirrors src/fixtures/scanner.rs ([scan_pytest_plugins], [discover_editable_installs],
    [find_editable_pth_source_root], [load_plugin_from_entry_point],
    [resolve_entry_point_module_to_path], [scan_plugin_directory],
    [scan_single_plugin_file], [scan_imported_fixture_modules]) and mod.rs
    ([is_in_site_packages], [is_editable_install_third_party]).
    The tree is given as the list of its Python files with what each says ([facts], as
    everywhere), plus the metadata files of the site-packages directory as data: the
    dist-info / egg-info directory names with the text of their entry_points.txt and the
    [editable] flag of direct_url.json, and the .pth files.  Directory listings and hash
    maps are iterated in an order the code does not control; here it is the order of the
    given lists (the comparison with the implementation is on SETS).  Definitions only. *)
From PLS Require Export Model.Analyzer.
From PLS Require Export Model.Resolve Model.Scanner Model.TextFns.
Open Scope string_scope.
Open Scope N_scope.
Open Scope list_scope.

Record dist := mk_dist { di_name : text; di_entry : option text; di_editable : bool }.

Definition add_path (p : path) (l : list path) : list path := if mem_path p l then l else l ++ [p].

Section ScanModel.
  Variable fd : list (path * facts).        (* the Python files on disk *)
  Variable ws : path.                       (* workspace root (a directory) *)
  Variable sp : option path.                (* the site-packages directory that was found *)
  Variable dists : list dist.               (* its *.dist-info / *.egg-info entries *)
  Variable pths : list (text * text).       (* its *.pth files: stem, content *)

  Definition dk : disk := map (fun kv => (fst kv, cached_of (snd kv))) fd.
  Definition file_exists (p : path) : bool := ahas p fd.
  Definition dir_exists (d : path) : bool := disk_dir dk d.

  (** ** entry points -> files *)
  Definition str_of (t : text) : string := utf8_encode t.
  Definition has_nul (t : text) : bool := existsb (fun c => c =? 0) t.
  (** [resolve_entry_point_module_to_path] *)
  Definition resolve_entry (base : path) (m : text) : option path :=
    let m := match split_on 58 m [] with x :: _ => x | [] => m end in        (* strip ":attr" *)
    let parts := split_on 46 m [] in
    if existsb (fun p => match p with [] => true | _ => has_nul p end) parts then None else
    match rev parts with
    | [] => None
    | last :: rinit =>
        let dir := fold_left (fun d p => str_of p :: d) (rev rinit) base in
        let py := (str_of last ++ ".py")%string :: dir in
        if file_exists py then Some py else
        let pkg := str_of last :: dir in
        if dir_exists pkg && file_exists (init_py :: pkg) then Some (init_py :: pkg) else None
    end.

  (** [scan_plugin_directory]: WalkDir with max_depth 3 *)
  Definition under_depth (dir p : path) (maxd : nat) : bool :=
    let n := (length p - length dir)%nat in
    (Nat.leb 1 n) && (Nat.leb n maxd) && path_eqb (skipn n p) dir.
  Definition contains_str (needle s : string) : bool :=
    match find (utf8_decode needle) (utf8_decode s) with Some _ => true | None => false end.
  Definition plugin_dir_files (dir : path) : list path :=
    filter (fun p => under_depth dir p 3
                     && match p with
                        | n :: _ => suffixb ".py" n && negb (prefixb "test_" n) && negb (contains_str "__pycache__" n)
                        | [] => false
                        end) (map fst fd).

  (** ** editable installs *)
  Definition lower_cp (c : cp) : cp := if (65 <=? c) && (c <=? 90) then c + 32 else c.
  Definition normalize_name (n : text) : text :=
    map (fun c => lower_cp (if (c =? 45) || (c =? 46) then 95 else c)) n.
  Definition t_editable : text := utf8_decode "__editable__.".
  Definition pth_candidates (raw norm : text) : list text :=
    [t_editable ++ norm; 95 :: norm; norm]
    ++ (if text_eqb raw norm then [] else [t_editable ++ raw; 95 :: raw; raw]).
  Definition stem_matches (stem c : text) : bool :=
    text_eqb stem c
    || match strip_prefix c stem with
       | Some (45 :: d :: _) => is_ascii_digit d
       | _ => false
       end.
  (** a path written in a .pth file *)
  Definition path_of_text (t : text) : path :=
    rev (flat_map (fun seg => match seg with [] => [] | _ => [str_of seg] end) (split_on 47 t [])).
  Definition t_import : text := utf8_decode "import ".
  Definition t_dotdot : text := [46; 46].
  Definition sp_path : path := match sp with Some p => p | None => [] end.
  Fixpoint pth_root (ls : list text) : option path :=
    match ls with
    | [] => None
    | l :: r =>
        let l := trim l in
        match l with
        | [] => pth_root r
        | c :: _ =>
            if (c =? 35) || tprefix t_import l then pth_root r
            else if has_nul l || existsb (fun b => (b <? 32) && negb (b =? 9)) l
                    || (match find t_dotdot l with Some _ => true | None => false end)
                 then pth_root r
                 else let cand := if c =? 47 then path_of_text l else path_of_text l ++ sp_path in
                      if dir_exists cand then Some cand else pth_root r
        end
    end.
  Definition editable_root (d : dist) : option path :=
    if negb (tsuffix dist_info_sfx (di_name d)) || negb (di_editable d) then None else
    match dist_info_name (di_name d) with
    | Ok (Some raw) =>
        let cands := pth_candidates raw (normalize_name raw) in
        first_some (fun kv => if existsb (stem_matches (fst kv)) cands then pth_root (lines (snd kv)) else None) pths
    | _ => None
    end.
  Definition editable_roots : list path :=
    flat_map (fun d => match editable_root d with Some r => [r] | None => [] end) dists.

  (** ** classification *)
  Definition in_site_packages (F : path) : bool :=
    let rel := if starts_with F ws then firstn (length F - length ws)%nat F else F in
    existsb (String.eqb site_packages) rel.
  Definition editable_third (F : path) : bool :=
    match List.find (fun r => starts_with F r) editable_roots with
    | Some r => negb (starts_with r ws || path_eqb r ws) && negb (starts_with ws r || path_eqb ws r)
    | None => false
    end.
  Definition third_party (F : path) : bool := in_site_packages F || editable_third F.

  (** ** the state of the scan: files analysed so far, files marked as plugin files *)
  Record sst := mk_sst { ss_cached : list path; ss_plugin : list path }.
  Definition analyse (p : path) (st : sst) : sst :=
    if file_exists p then mk_sst (add_path p (ss_cached st)) (ss_plugin st) else st.
  Definition mark (p : path) (st : sst) : sst := mk_sst (ss_cached st) (add_path p (ss_plugin st)).
  Definition scan_plugin_file (p : path) (st : sst) : sst :=
    match p with
    | n :: _ => if suffixb ".py" n then analyse p (mark p st) else st
    | [] => st
    end.
  Definition scan_plugin_dir (dir : path) (st : sst) : sst :=
    fold_left (fun st p => analyse p (mark p st)) (plugin_dir_files dir) st.

  (** [load_plugin_from_entry_point] *)
  Definition load_entries (d : dist) (st : sst) : sst :=
    match di_entry d with
    | None => st
    | Some content =>
        fold_left (fun st kv =>
                     match (match resolve_entry sp_path (snd kv) with
                            | Some p => Some p
                            | None => first_some (fun r => resolve_entry r (snd kv)) editable_roots
                            end) with
                     | Some (n :: dir) => if String.eqb n init_py then scan_plugin_dir dir st else scan_plugin_file (n :: dir) st
                     | _ => st
                     end) (parse_pytest11_entry_points content) st
    end.
  (** [scan_pytest_plugins] (phase 3) *)
  Definition venv_scan (st : sst) : sst :=
    match sp with
    | None => st
    | Some spp =>
        let st := if dir_exists ("_pytest" :: spp) then scan_plugin_dir ("_pytest" :: spp) st else st in
        fold_left (fun st d => if tsuffix dist_info_sfx (di_name d) || tsuffix egg_info_sfx (di_name d) then load_entries d st else st)
                  dists st
    end.

  (** ** phase 4: [scan_imported_fixture_modules] *)
  Definition roots : list path := (match sp with Some p => [p] | None => [] end) ++ editable_roots.
  Definition idx_of (st : sst) : Index.index :=
    set_plugin_files
      (set_file_cache empty_index
         (flat_map (fun p => match alookup p fd with Some v => [(p, cached_of v)] | None => [] end) (ss_cached st)))
      (ss_plugin st).
  (** resolved import targets of a file; the flag: the edge hands plugin status on (a star
      import or a pytest_plugins entry) *)
  Definition targets (st : sst) (F : path) : list (path * bool) :=
    match alookup F fd with
    | Some v =>
        if f_ok v
        then flat_map (fun e => match resolve_edge dk (idx_of st) roots F e with
                                | Some t => [(t, match e_kind e with Star => true | Names _ => false end)]
                                | None => []
                                end) (f_edges v)
        else []
    | None => []
    end.
  Record ist := mk_ist { i_st : sst; i_proc : list path; i_new : list path; i_re : list path; i_rev : list path }.
  (** [fixed]: since fix 92543e7 a module that is marked as a plugin file after its own
      imports were walked is walked once more ([i_rev]) *)
  Definition visit_file (fixed : bool) (x : ist) (F : path) : ist :=
    if mem_path F (i_proc x) then x else
    let proc := F :: i_proc x in
    let importer_plugin := mem_path F (ss_plugin (i_st x)) in
    fold_left (fun (x : ist) (tb : path * bool) =>
                 let '(t, hands_on) := tb in
                 let st := i_st x in
                 let do_mark := importer_plugin && hands_on && negb (mem_path t (ss_plugin st)) in
                 let st' := if do_mark then mark t st else st in
                 let re := if do_mark && mem_path t (ss_cached st) then add_path t (i_re x) else i_re x in
                 let rev := if fixed && do_mark && mem_path t (i_proc x) then add_path t (i_rev x) else i_rev x in
                 let new := if negb (mem_path t (i_proc x)) && negb (mem_path t (ss_cached st)) then add_path t (i_new x) else i_new x in
                 mk_ist st' (i_proc x) new re rev)
              (targets (i_st x) F) (mk_ist (i_st x) proc (i_new x) (i_re x) (i_rev x)).
  (** [None]: out of fuel (excluded by the theorems; Proofs/ScanImports.v shows it unreachable) *)
  Fixpoint import_rounds (fixed : bool) (fuel : nat) (st : sst) (proc to_check re : list path) : option (sst * list path) :=
    match fuel with
    | O => None
    | S f =>
        match to_check with
        | [] => Some (st, re)
        | _ =>
            let x := fold_left (visit_file fixed) to_check (mk_ist st proc [] re []) in
            match i_new x, i_rev x with
            | [], [] => Some (i_st x, i_re x)
            | new, rev => import_rounds fixed f (fold_left (fun st p => analyse p st) new (i_st x))
                                        (filter (fun p => negb (mem_path p rev)) (i_proc x)) (new ++ rev) (i_re x)
            end
        end
    end.
  Definition seed_files (st : sst) : list path :=
    filter (fun F => (match F with n :: _ => is_test_file_name n | [] => false end)
                     || (match sp with Some p => starts_with F p | None => false end)
                     || existsb (fun r => starts_with F r) editable_roots
                     || mem_path F (ss_plugin st)) (ss_cached st).
  Definition import_scan_with (fixed : bool) (st : sst) : option sst :=
    match import_rounds fixed (S (S (length fd + length fd))) st [] (seed_files st) [] with Some (st', _) => Some st' | None => None end.
  Definition import_scan_opt := import_scan_with true.
  Definition import_scan_old := import_scan_with false.
  Definition import_scan (st : sst) : sst := match import_scan_opt st with Some st' => st' | None => st end.

  (** the whole scan after phase 2; [selected] = the test / conftest files phase 1 found *)
  Definition scan (selected : list path) : sst :=
    import_scan (venv_scan (fold_left (fun st p => analyse p st) selected (mk_sst [] []))).
End ScanModel.
