(** * Resolve: module resolution, imported fixtures, the priority cascade,
    go-to-definition, references, available fixtures.
    Mirrors src/fixtures/imports.rs ([resolve_module_to_file], [find_module_file],
    [get_imported_fixtures] without its memo — the memo is Model/Cache.v) and
    src/fixtures/resolver.rs ([find_closest_definition_with_filter],
    [find_fixture_definition], [get_fixture_definition_at_line],
    [find_references_for_definition], [compute_available_fixtures],
    [resolve_fixture_for_file]) and string_utils.rs [extract_word_at_position]
    (ASCII lines). *)
From PLS Require Export Model.Index.

(** ** the disk, as far as the code looks at it: files with their (parsed) content.
    Virtual workspaces have [disk = []]. *)
Definition disk := list (path * cached).

Definition disk_file (dk : disk) (p : path) : bool := ahas p dk.
Definition disk_dir (dk : disk) (d : path) : bool :=
  existsb (fun kv => starts_with (tl (fst kv)) d) dk.

Definition content (dk : disk) (s : index) (p : path) : option cached :=
  match alookup p (file_cache s) with
  | Some c => Some c
  | None => alookup p dk
  end.

(** ** [find_module_file] *)
Fixpoint find_module_file (dk : disk) (s : index) (parts : list string) (base : path) : option path :=
  match parts with
  | [] => None
  | [part] =>
      let py := (part ++ ".py")%string :: base in
      if disk_file dk py || in_cache s py then Some py else
      let pkg := init_py :: part :: base in
      if disk_file dk pkg || in_cache s pkg then Some pkg else None
  | part :: rest =>
      let d := part :: base in
      if disk_dir dk d then find_module_file dk s rest d else None
  end.

(** relative import: the first dot stays, each further dot goes up one directory *)
Fixpoint up (n : nat) (d : path) : option path :=
  match n with
  | O => Some d
  | S n' => match d with [] => None | _ :: d' => up n' d' end
  end.

Definition resolve_relative (dk : disk) (s : index) (level : N) (mods : list string) (base : path) : option path :=
  match up (N.to_nat (level - 1)) base with
  | None => None
  | Some d =>
      match mods with
      | [] => let i := init_py :: d in if disk_file dk i then Some i else None
      | _ => find_module_file dk s mods d
      end
  end.

Fixpoint first_some {A B} (f : A -> option B) (l : list A) : option B :=
  match l with
  | [] => None
  | x :: l' => match f x with Some y => Some y | None => first_some f l' end
  end.

(** absolute import: walk up from the importing directory; then the extra roots
    (site-packages paths, editable install roots) *)
Definition resolve_absolute (dk : disk) (s : index) (roots : list path) (mods : list string) (base : path) : option path :=
  match first_some (find_module_file dk s mods) (ancestors base) with
  | Some p => Some p
  | None => first_some (find_module_file dk s mods) roots
  end.

Definition resolve_edge (dk : disk) (s : index) (roots : list path) (importing : path) (e : edge) : option path :=
  match importing with
  | [] => None
  | _ :: base =>
      if 0 <? e_level e then resolve_relative dk s (e_level e) (e_mod e) base
      else match e_mod e with
           | [] => None     (* empty module string: split gives [""], never a file *)
           | _ => resolve_absolute dk s roots (e_mod e) base
           end
  end.

(** ** [get_imported_fixtures] / [compute_imported_fixtures], without the memo.
    [visited] is the code's [&mut HashSet]; it is threaded through siblings.
    Recursion is on explicit fuel; [None] = out of fuel (Proofs/ImportsTerm.v shows
    it unreachable when fuel exceeds the number of known files). *)
Section Imported.
  Variable dk : disk.
  Variable roots : list path.
  Variable s : index.

  (** the memo [imported_fixtures_cache]: valid for the same text and the same
      definitions version *)
  Definition imp_hit (file : path) (c : cached) : option (list string) :=
    match alookup file (imp_cache s) with
    | Some (h, v, names) => if (h =? c_text c) && (v =? version s) then Some names else None
    | None => None
    end.

  Fixpoint imported_fuel (fuel : nat) (file : path) (vis : list path) : option (list string * list path) :=
    match fuel with
    | O => None
    | S fuel' =>
        if mem_path file vis then Some ([], vis) else
        let vis := file :: vis in
        match content dk s file with
        | None => Some ([], vis)
        | Some c =>
            match imp_hit file c with
            | Some names => Some (names, vis)
            | None =>
            if negb (c_ok c) then Some ([], vis) else
            fold_left
              (fun (acc : option (list string * list path)) (e : edge) =>
                 match acc with
                 | None => None
                 | Some (names, vis) =>
                     match resolve_edge dk s roots file e with
                     | None => Some (names, vis)
                     | Some tgt =>
                         match e_kind e with
                         | Star =>
                             match imported_fuel fuel' tgt vis with
                             | None => None
                             | Some (sub, vis') => Some (names ++ file_def_names s tgt ++ sub, vis')
                             end
                         | Names ns => Some (names ++ filter (has_def s) ns, vis)
                         end
                     end
                 end)
              (c_edges c) (Some ([], vis))
            end
        end
    end.

  Definition enough_fuel : nat := S (S (List.length (file_cache s) + List.length dk)).

  Definition imported (file : path) : list string :=
    match imported_fuel enough_fuel file [] with
    | Some (names, _) => names
    | None => []
    end.

  Definition is_imported (n : string) (file : path) : bool := mem_str n (imported file).

  (** ** [find_closest_definition_with_filter] *)
  (** the last binding of the name in module [m], if the filter accepts it *)
  Definition last_binding (flt : fdef -> bool) (dn : list fdef) (m : path) : option fdef :=
    match max_by_key d_line (filter (fun d => path_eqb (d_file d) m) dn) with
    | Some d => if flt d then Some d else None
    | None => None
    end.

  Definition conftest_step (flt : fdef -> bool) (dn : list fdef) (n : string) (dir : path) : option fdef :=
    let c := conftest_py :: dir in
    match last_binding flt dn c with
    | Some d => Some d
    | None =>
        if (disk_file dk c || in_cache s c) && is_imported n c
        then find flt dn
        else None
    end.

  Definition closest_with (flt : fdef -> bool) (F : path) (n : string) : option fdef :=
    let dn := defs_named s n in
    match dn with
    | [] => None
    | _ =>
      match last_binding flt dn F with
      | Some d => Some d
      | None =>
        match F with
        | [] => None
        | _ :: dir =>
          match first_some (conftest_step flt dn n) (ancestors dir) with
          | Some d => Some d
          | None =>
            match find (fun d => d_plugin d && negb (d_third d) && flt d) dn with
            | Some d => Some d
            | None => find (fun d => d_third d && flt d) dn
            end
          end
        end
      end
    end.

  (** the conftest files whose imported-fixture set the cascade looks up (each lookup
      is a top-level [get_imported_fixtures] call and leaves a memo entry) *)
  Definition known_file (c : path) : bool := disk_file dk c || in_cache s c.
  Fixpoint touched_walk (flt : fdef -> bool) (dn : list fdef) (n : string) (dirs : list path) : list path :=
    match dirs with
    | [] => []
    | dir :: r =>
        let c := conftest_py :: dir in
        match last_binding flt dn c with
        | Some _ => []
        | None =>
            if known_file c
            then c :: (if is_imported n c && is_some (find flt dn) then [] else touched_walk flt dn n r)
            else touched_walk flt dn n r
        end
    end.
  Definition touched_closest (flt : fdef -> bool) (F : path) (n : string) : list path :=
    let dn := defs_named s n in
    match dn with
    | [] => []
    | _ => match last_binding flt dn F with
           | Some _ => []
           | None => touched_walk flt dn n (ancestors (tl F))
           end
    end.

  Definition closest (F : path) (n : string) : option fdef := closest_with (fun _ => true) F n.
  Definition closest_excluding (F : path) (n : string) (ex : fdef) : option fdef :=
    closest_with (fun d => negb (fdef_eqb d ex)) F n.

  (** [get_fixture_definition_at_line]: the definition whose function spans the line;
      first hit of [definitions.iter()]; the model iterates in registration order (two
      definitions of different names spanning one line make the real answer
      iteration-order dependent: excluded class) *)
  Definition def_at_line (F : path) (line : N) : option fdef :=
    find (fun d => path_eqb (d_file d) F && (d_line d <=? line) && (line <=? d_end_line d)) (defs s).

  (** [get_definition_at_line] (by name) *)
  Definition def_at_line_named (F : path) (line : N) (n : string) : option fdef :=
    find (fun d => path_eqb (d_file d) F && N.eqb (d_line d) line) (defs_named s n).

  (** resolution of a recorded usage, with the self-reference exclusion *)
  Definition resolve_usage (F : path) (line : N) (n : string) : option fdef :=
    match def_at_line F line with
    | Some cd => if String.eqb (d_name cd) n then closest_excluding F n cd else closest F n
    | None => closest F n
    end.

  (** ** [extract_word_at_position] on an ASCII line *)
  Definition is_word (a : ascii) : bool :=
    let n := N_of_ascii a in
    ((48 <=? n) && (n <=? 57)) || ((65 <=? n) && (n <=? 90)) || ((97 <=? n) && (n <=? 122)) || (n =? 95).
  Fixpoint take_while {A} (p : A -> bool) (l : list A) : list A :=
    match l with [] => [] | x :: l' => if p x then x :: take_while p l' else [] end.
  Definition word_at (line : string) (col : N) : option string :=
    let cs := list_ascii_of_string line in
    let k := N.to_nat col in
    match nth_error cs k with
    | None => None
    | Some c =>
        if is_word c
        then Some (string_of_list_ascii
                     (rev (take_while is_word (rev (firstn k cs))) ++ take_while is_word (skipn k cs)))
        else None
    end.

  (** ** [find_fixture_definition] (line and column 0-based, as in LSP) *)
  Definition goto (F : path) (line0 col : N) : option fdef :=
    match content dk s F with
    | None => None
    | Some c =>
      match nth_error (c_lines c) (N.to_nat line0) with
      | None => None
      | Some text =>
        match word_at text col with
        | None => None
        | Some w =>
          let target := line0 + 1 in
          match find (fun u => N.eqb (u_line u) target && String.eqb (u_name u) w
                               && (u_start u <=? col) && (col <? u_end u))
                     (usages_of_file s F) with
          | None => None
          | Some u => resolve_usage F target (u_name u)
          end
        end
      end
    end.

  (** ** [find_fixture_or_definition_at_position] *)
  Definition line_text (F : path) (line0 : N) : option string :=
    match content dk s F with
    | None => None
    | Some c => nth_error (c_lines c) (N.to_nat line0)
    end.

  Definition goto_or_def (F : path) (line0 col : N) : option fdef :=
    match goto F line0 col with
    | Some d => Some d
    | None =>
      match line_text F line0 with
      | None => None
      | Some text =>
        match word_at text col with
        | None => None
        | Some w =>
            find (fun d => path_eqb (d_file d) F && N.eqb (d_line d) (line0 + 1)
                           && (d_start d <=? col) && (col <? d_end d))
                 (defs_named s w)
        end
      end
    end.

  (** ** [find_fixture_at_position] *)
  Definition name_at (F : path) (line0 col : N) : option string :=
    match line_text F line0 with
    | None => None
    | Some text =>
      let w := word_at text col in
      match find (fun u => N.eqb (u_line u) (line0 + 1) && (u_start u <=? col) && (col <? u_end u))
                 (usages_of_file s F) with
      | Some u => Some (u_name u)
      | None =>
        match find (fun d => path_eqb (d_file d) F && N.eqb (d_line d) (line0 + 1)
                             && opt_eqb String.eqb w (Some (d_name d))) (defs s) with
        | Some d => Some (d_name d)
        | None => None
        end
      end
    end.

  (** the definition the references handler works on (providers/references.rs) *)
  Definition refs_target (F : path) (line0 col : N) : option fdef :=
    match name_at F line0 col with
    | None => None
    | Some nm =>
      match goto F line0 col with
      | Some d => Some d
      | None => def_at_line_named F (line0 + 1) nm
      end
    end.

  (** ** [find_references_for_definition] *)
  Definition refs (d : fdef) : list usage :=
    filter (fun u => match resolve_usage (u_file u) (u_line u) (u_name u) with
                     | Some d' => fdef_eqb d' d
                     | None => false
                     end)
           (usage_by_name s (d_name d)).

  (** ** [compute_available_fixtures] *)
  Definition def_names : list string := dedup String.eqb (map d_name (defs s)).

  Definition add_first (p : fdef -> bool) (acc : list fdef) : list fdef :=
    fold_left (fun acc n =>
                 if existsb (fun d => String.eqb (d_name d) n) acc then acc else
                 match find p (defs_named s n) with
                 | Some d => acc ++ [d]
                 | None => acc
                 end) def_names acc.

  (** entries of one module: its last binding of every name not seen yet *)
  Definition add_last (m : path) (acc : list fdef) : list fdef :=
    fold_left (fun acc n =>
                 if existsb (fun d => String.eqb (d_name d) n) acc then acc else
                 match max_by_key d_line (filter (fun d => path_eqb (d_file d) m) (defs_named s n)) with
                 | Some d => acc ++ [d]
                 | None => acc
                 end) def_names acc.

  Definition add_imported (c : path) (acc : list fdef) : list fdef :=
    if in_cache s c then
      fold_left (fun acc n =>
                   if existsb (fun d => String.eqb (d_name d) n) acc then acc else
                   match defs_named s n with
                   | d :: _ => acc ++ [d]
                   | [] => acc
                   end) (dedup String.eqb (imported c)) acc
    else acc.

  Definition available_cold (F : path) : list fdef :=
    let acc := add_last F [] in
    let acc := match F with
               | [] => acc
               | _ :: dir =>
                   fold_left (fun acc dir =>
                                let c := conftest_py :: dir in
                                add_imported c (add_last c acc))
                             (ancestors dir) acc
               end in
    let acc := add_first (fun d => d_plugin d && negb (d_third d)) acc in
    let acc := add_first d_third acc in
    isort (fun a b => String.leb (d_name a) (d_name b)) acc.

  (** [get_available_fixtures]: memo keyed by the definitions version *)
  Definition av_hit (F : path) : option (list fdef) :=
    match alookup F (av_cache s) with
    | Some (v, l) => if v =? version s then Some l else None
    | None => None
    end.
  Definition available (F : path) : list fdef :=
    match av_hit F with Some l => l | None => available_cold F end.

  (** ** [resolve_fixture_for_file] *)
  Definition best_conftest (F : path) (dn : list fdef) : option fdef :=
    fst (fold_left
      (fun (acc : option fdef * option N) d =>
         if d_third d then acc else
         if is_conftest (d_file d) && starts_with F (tl (d_file d)) then
           let depth := len (tl (d_file d)) + 1 in  (* components incl. the root *)
           match acc with
           | (Some b, Some bd) =>
               if (bd <? depth) || ((bd =? depth) && (d_line b <? d_line d)) then (Some d, Some depth) else acc
           | _ => (Some d, Some depth)
           end
         else acc)
      dn (None, None)).

  Definition resolve_for_file (F : path) (n : string) : option fdef :=
    let dn := defs_named s n in
    match dn with
    | [] => None
    | first :: _ =>
      match max_by_key d_line (filter (fun d => path_eqb (d_file d) F) dn) with
      | Some d => Some d
      | None =>
        match best_conftest F dn with
        | Some d => Some d
        | None =>
          match find (fun d => d_plugin d && negb (d_third d)) dn with
          | Some d => Some d
          | None =>
            match find d_third dn with
            | Some d => Some d
            | None => Some first
            end
          end
        end
      end
    end.
End Imported.
