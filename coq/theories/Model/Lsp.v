(** * Lsp: what the server publishes after didOpen / didChange, and the configuration
    filter.  Mirrors src/providers/diagnostics.rs [publish_diagnostics_for_file],
    the notification handlers of src/main.rs (analyse, then publish) and
    src/config/mod.rs [from_raw] / [is_diagnostic_disabled].  Definitions only. *)
From PLS Require Export Model.Diagnostics Generated.Tables.
Open Scope list_scope.

Inductive dcode := DUndeclared | DCycle | DMismatch.
Definition dcode_eqb (a b : dcode) : bool :=
  match a, b with
  | DUndeclared, DUndeclared | DCycle, DCycle | DMismatch, DMismatch => true
  | _, _ => false
  end.
Definition code_string (c : dcode) : string :=
  match c with
  | DUndeclared => "undeclared-fixture"
  | DCycle => "circular-dependency"
  | DMismatch => "scope-mismatch"
  end.

(** a diagnostic: code, 0-based line, columns, and the strings its message is built from
    (the fixture name / the cycle path / the two scopes and names) *)
Record diag := mk_diag { dg_code : dcode; dg_line : N; dg_start : N; dg_end : N; dg_words : list string }.
Definition diag_eqb (a b : diag) : bool :=
  dcode_eqb (dg_code a) (dg_code b) && (dg_line a =? dg_line b) && (dg_start a =? dg_start b)
  && (dg_end a =? dg_end b) && list_eqb String.eqb (dg_words a) (dg_words b).

Definition scope_name (sc : scope) : string :=
  match sc with 0 => "function" | 1 => "class" | 2 => "module" | 3 => "package" | _ => "session" end.

(** ** configuration *)
Record config := mk_config { cfg_exclude : list string; cfg_disabled : list string }.
Definition default_config : config := mk_config [] [].

Section FromRaw.
  (** [glob::Pattern::new(p).is_ok()] — an oracle *)
  Variable glob_valid : string -> bool.
  Definition from_raw (raw_exclude raw_disabled : list string) : config :=
    mk_config (filter glob_valid raw_exclude)
              (filter (fun c => mem_str c valid_diagnostic_codes) raw_disabled).
End FromRaw.
Definition is_disabled (cfg : config) (c : dcode) : bool := mem_str (code_string c) (cfg_disabled cfg).

(** ** publish_diagnostics_for_file *)
Section Publish.
  Variable dk : disk.
  Variable roots : list path.
  Variable cfg : config.
  Variable s : index.

  Definition undecl_diag (u : undecl) : diag :=
    mk_diag DUndeclared (n_line u - 1) (n_start u) (n_end u) [n_name u].
  Definition cycle_diag (c : cycle) : diag :=
    let f := cy_fixture c in mk_diag DCycle (d_line f - 1) (d_start f) (d_end f) (cy_path c).
  Definition mismatch_diag (m : mismatch) : diag :=
    let f := mm_fixture m in let d := mm_dependency m in
    mk_diag DMismatch (d_line f - 1) (d_start f) (d_end f)
            [scope_name (d_scope f); d_name f; scope_name (d_scope d); d_name d].

  Definition publish (F : path) : list diag :=
    (if is_disabled cfg DUndeclared then [] else map undecl_diag (undeclared_of_file s F))
    ++ (if is_disabled cfg DCycle then [] else map cycle_diag (cycles_in_file dk roots s F))
    ++ (if is_disabled cfg DMismatch then [] else map mismatch_diag (mismatches dk roots s F)).
End Publish.

(** the findings themselves, with nothing disabled *)
Definition findings (dk : disk) (roots : list path) (s : index) (F : path) : list diag :=
  publish dk roots default_config s F.

(** ** the notification handlers: analyse, then publish; [published] is what the client
    last received per document *)
Record lsp_state := mk_lsp { ls_index : index; ls_published : list (path * list diag) }.
Definition lsp_init : lsp_state := mk_lsp empty_index [].

Definition notify (cfg : config) (F : path) (v : facts) (st : lsp_state) : lsp_state :=
  let s' := analyze true F v (ls_index st) in
  mk_lsp s' (ainsert F (publish [] [] cfg s' F) (ls_published st)).
Definition run_notifications (cfg : config) (h : list (path * facts)) : lsp_state :=
  fold_left (fun st fv => notify cfg (fst fv) (snd fv) st) h lsp_init.
