(** * Model/History: edit histories (sequences of full-text versions) and the
    canonical description of what an index must contain for given file contents.
    Definitions only. *)
From PLS Require Export Model.Resolve.

Definition hist := list (path * facts).

(** the index a server starts with: nothing but the set of plugin files *)
Definition start (plugins : list path) : index := set_plugin_files empty_index plugins.

(** every notification (didOpen / didChange) is a cleaning analysis *)
Definition run_hist (s0 : index) (h : hist) : index :=
  fold_left (fun s fv => analyze true (fst fv) (snd fv) s) h s0.

(** the latest syntactically valid version of each file, ordered by the time of that
    version's analysis *)
Definition lv_step (acc : hist) (fv : path * facts) : hist :=
  if f_ok (snd fv) then aremove (fst fv) acc ++ [fv] else acc.
Definition last_valid (h : hist) : hist := fold_left lv_step h [].

(** the latest version of each file, valid or not *)
Definition latest_step (acc : hist) (fv : path * facts) : hist := aremove (fst fv) acc ++ [fv].
Definition latest (h : hist) : hist := fold_left latest_step h [].

(** what the contents say *)
Definition item_defs (items : list item) : list ldef :=
  flat_map (fun it => match it with IDef l => [l] | _ => [] end) items.
Definition item_uses (items : list item) : list lusage :=
  flat_map (fun it => match it with IUse u => [u] | _ => [] end) items.

Definition attach_p (plugins : list path) (F : path) (l : ldef) : fdef :=
  mk_fdef (l_name l) F (l_line l) (l_end_line l) (l_start l) (l_end l) (l_doc l) (l_ret l)
          (path_contains_site_packages F) (mem_path F plugins)
          (l_deps l) (l_scope l) (l_yield l) (l_autouse l).

Definition usage_of (F : path) (u : lusage) : usage :=
  mk_usage (lu_name u) F (lu_line u) (lu_start u) (lu_end u).

Definition add_name (acc : list string) (n : string) : list string :=
  if mem_str n acc then acc else acc ++ [n].
Definition names_in_order (names : list string) : list string := fold_left add_name names [].

Definition c_defs (P : list path) (lv : hist) : list fdef :=
  flat_map (fun fv => map (attach_p P (fst fv)) (item_defs (f_items (snd fv)))) lv.
Definition c_usages (lv : hist) : list usage :=
  flat_map (fun fv => map (usage_of (fst fv)) (item_uses (f_items (snd fv)))) lv.
Definition c_file_defs (lv : hist) : list (path * string) :=
  flat_map (fun fv => map (pair (fst fv)) (names_in_order (map l_name (item_defs (f_items (snd fv)))))) lv.
Definition c_modnames (lv : hist) : list (path * list string) :=
  map (fun fv => (fst fv, f_modnames (snd fv))) lv.
Definition c_cache (lt : hist) : list (path * cached) :=
  map (fun fv => (fst fv, cached_of (snd fv))) lt.

(** the canonical index for given contents: the persistent maps as functions of the
    latest valid version of every file *)
Record persistent := mk_persistent {
  p_defs : list fdef;  p_file_defs : list (path * string);
  p_usages : list usage;  p_usage_by : list usage;
  p_modnames : list (path * list string);  p_plugins : list path }.

Definition persistent_of (s : index) : persistent :=
  mk_persistent (defs s) (file_defs s) (usages s) (usage_by s) (modnames s) (plugin_files s).

Definition canonical (P : list path) (lv : hist) : persistent :=
  mk_persistent (c_defs P lv) (c_file_defs lv) (c_usages lv) (c_usages lv) (c_modnames lv) P.
