(** * Index: the meaning-carrying fields of [FixtureDatabase] and the analysis
    transition.  Mirrors src/fixtures/mod.rs and src/fixtures/analyzer.rs
    ([analyze_file_internal], [cleanup_usages_for_file],
    [cleanup_definitions_for_file], [record_fixture_definition],
    [record_fixture_usage]) and the body-scan decision of src/fixtures/undeclared.rs.

    Representation.  [definitions : DashMap<String, Vec<FixtureDefinition>>] is held
    as ONE list of definitions in registration order; [definitions.get(n)] is the
    sub-list of entries named [n] (same relative order as the Vec, because pushes
    append and [retain] filters).  Likewise [usages] / [usage_by_fixture].  The
    remaining maps are association lists.  An entry whose Vec became empty is removed
    by the code ([remove_if]); [contains_key n] is therefore "the sub-list is
    non-empty".  The op-level, per-key model used for the concurrency properties is
    in Model/Conc.v. *)
From PLS Require Export Model.Types.

Record cached := mk_cached {
  c_text : N;  c_ok : bool;  c_lines : list string;  c_edges : list edge }.

Record cycle := mk_cycle { cy_path : list string; cy_fixture : fdef }.

Record index := mk_index {
  defs : list fdef;
  file_defs : list (path * string);           (* file_definitions, as a relation *)
  usages : list usage;                        (* usages, all files, push order *)
  usage_by : list usage;                      (* usage_by_fixture, all names, push order *)
  undeclared : list undecl;
  modnames : list (path * list string);       (* imports: module-level names per file *)
  file_cache : list (path * cached);
  plugin_files : list path;
  version : N;
  av_cache : list (path * (N * list fdef));
  cyc_cache : option (N * list cycle);
  imp_cache : list (path * (N * N * list string)) }.

Definition empty_index : index :=
  mk_index [] [] [] [] [] [] [] [] 0 [] None [].

(** ** association-list helpers *)
Definition alookup {V} (k : path) (m : list (path * V)) : option V :=
  match find (fun kv => path_eqb (fst kv) k) m with Some kv => Some (snd kv) | None => None end.
Definition aremove {V} (k : path) (m : list (path * V)) : list (path * V) :=
  filter (fun kv => negb (path_eqb (fst kv) k)) m.
Definition ainsert {V} (k : path) (v : V) (m : list (path * V)) : list (path * V) :=
  aremove k m ++ [(k, v)].
Definition ahas {V} (k : path) (m : list (path * V)) : bool :=
  existsb (fun kv => path_eqb (fst kv) k) m.

(** ** views *)
Definition defs_named (s : index) (n : string) : list fdef :=
  filter (fun d => String.eqb (d_name d) n) (defs s).
Definition has_def (s : index) (n : string) : bool :=
  existsb (fun d => String.eqb (d_name d) n) (defs s).
Definition file_def_names (s : index) (F : path) : list string :=
  map snd (filter (fun fn => path_eqb (fst fn) F) (file_defs s)).
Definition usages_of_file (s : index) (F : path) : list usage :=
  filter (fun u => path_eqb (u_file u) F) (usages s).
Definition usage_by_name (s : index) (n : string) : list usage :=
  filter (fun u => String.eqb (u_name u) n) (usage_by s).
Definition undeclared_of_file (s : index) (F : path) : list undecl :=
  filter (fun u => path_eqb (n_file u) F) (undeclared s).
Definition in_cache (s : index) (F : path) : bool := ahas F (file_cache s).

(** ** setters (records are immutable) *)
Definition set_defs s v := mk_index v (file_defs s) (usages s) (usage_by s) (undeclared s) (modnames s) (file_cache s) (plugin_files s) (version s) (av_cache s) (cyc_cache s) (imp_cache s).
Definition set_file_defs s v := mk_index (defs s) v (usages s) (usage_by s) (undeclared s) (modnames s) (file_cache s) (plugin_files s) (version s) (av_cache s) (cyc_cache s) (imp_cache s).
Definition set_usages s v := mk_index (defs s) (file_defs s) v (usage_by s) (undeclared s) (modnames s) (file_cache s) (plugin_files s) (version s) (av_cache s) (cyc_cache s) (imp_cache s).
Definition set_usage_by s v := mk_index (defs s) (file_defs s) (usages s) v (undeclared s) (modnames s) (file_cache s) (plugin_files s) (version s) (av_cache s) (cyc_cache s) (imp_cache s).
Definition set_undeclared s v := mk_index (defs s) (file_defs s) (usages s) (usage_by s) v (modnames s) (file_cache s) (plugin_files s) (version s) (av_cache s) (cyc_cache s) (imp_cache s).
Definition set_modnames s v := mk_index (defs s) (file_defs s) (usages s) (usage_by s) (undeclared s) v (file_cache s) (plugin_files s) (version s) (av_cache s) (cyc_cache s) (imp_cache s).
Definition set_file_cache s v := mk_index (defs s) (file_defs s) (usages s) (usage_by s) (undeclared s) (modnames s) v (plugin_files s) (version s) (av_cache s) (cyc_cache s) (imp_cache s).
Definition set_plugin_files s v := mk_index (defs s) (file_defs s) (usages s) (usage_by s) (undeclared s) (modnames s) (file_cache s) v (version s) (av_cache s) (cyc_cache s) (imp_cache s).
Definition set_version s v := mk_index (defs s) (file_defs s) (usages s) (usage_by s) (undeclared s) (modnames s) (file_cache s) (plugin_files s) v (av_cache s) (cyc_cache s) (imp_cache s).
Definition set_av_cache s v := mk_index (defs s) (file_defs s) (usages s) (usage_by s) (undeclared s) (modnames s) (file_cache s) (plugin_files s) (version s) v (cyc_cache s) (imp_cache s).
Definition set_cyc_cache s v := mk_index (defs s) (file_defs s) (usages s) (usage_by s) (undeclared s) (modnames s) (file_cache s) (plugin_files s) (version s) (av_cache s) v (imp_cache s).
Definition set_imp_cache s v := mk_index (defs s) (file_defs s) (usages s) (usage_by s) (undeclared s) (modnames s) (file_cache s) (plugin_files s) (version s) (av_cache s) (cyc_cache s) v.

(** ** [is_available_fixture] (undeclared.rs) *)
Definition available_def (F : path) (d : fdef) : bool :=
  path_eqb (d_file d) F
  || (is_conftest (d_file d) && starts_with F (tl (d_file d)))
  || d_third d || d_plugin d.
Definition is_available (s : index) (F : path) (n : string) : bool :=
  existsb (available_def F) (defs_named s n).

(** ** cleanup *)
Definition cleanup_usages (F : path) (s : index) : index :=
  (* cleanup_usages_for_file; usages.remove; undeclared_fixtures.remove; imports.remove *)
  let s := set_usage_by s (filter (fun u => negb (path_eqb (u_file u) F)) (usage_by s)) in
  let s := set_usages s (filter (fun u => negb (path_eqb (u_file u) F)) (usages s)) in
  let s := set_undeclared s (filter (fun u => negb (path_eqb (n_file u) F)) (undeclared s)) in
  set_modnames s (aremove F (modnames s)).

Definition cleanup_defs (F : path) (s : index) : index :=
  let names := file_def_names s F in
  let s := set_file_defs s (filter (fun fn => negb (path_eqb (fst fn) F)) (file_defs s)) in
  set_defs s (filter (fun d => negb (mem_str (d_name d) names && path_eqb (d_file d) F)) (defs s)).

(** ** recording *)
Definition attach (s : index) (F : path) (l : ldef) : fdef :=
  mk_fdef (l_name l) F (l_line l) (l_end_line l) (l_start l) (l_end l) (l_doc l) (l_ret l)
          (path_contains_site_packages F)       (* editable installs: not modelled here *)
          (mem_path F (plugin_files s))
          (l_deps l) (l_scope l) (l_yield l) (l_autouse l).

Definition record_def (F : path) (l : ldef) (s : index) : index :=
  let d := attach s F l in
  let s := set_defs s (defs s ++ [d]) in
  let s := if existsb (fun fn => path_eqb (fst fn) F && String.eqb (snd fn) (l_name l)) (file_defs s)
           then s else set_file_defs s (file_defs s ++ [(F, l_name l)]) in
  set_version s (version s + 1).

Definition record_usage (F : path) (u : lusage) (s : index) : index :=
  let x := mk_usage (lu_name u) F (lu_line u) (lu_start u) (lu_end u) in
  let s := set_usages s (usages s ++ [x]) in
  set_usage_by s (usage_by s ++ [x]).

(** body scan (undeclared.rs: the decision at each visited [Name] node) *)
Definition lookup_str {V} (k : string) (m : list (string * V)) : option V :=
  match find (fun kv => String.eqb (fst kv) k) m with Some kv => Some (snd kv) | None => None end.

Definition local_in_scope (s : index) (F : path) (b : body) (n : string) (line : N) : bool :=
  let mods := match alookup F (modnames s) with Some l => l | None => [] end in
  if mem_str n mods then 0 <? line
  else match lookup_str n (bd_locals b) with Some l => l <? line | None => false end.

Definition flagged (s : index) (F : path) (b : body) (x : bname) : bool :=
  negb (mem_str (b_name x) (bd_declared b))
  && negb (local_in_scope s F b (b_name x) (b_line x))
  && is_available s F (b_name x).

Definition scan_body (F : path) (b : body) (s : index) : index :=
  let found := filter (flagged s F b) (bd_names b) in
  set_undeclared s (undeclared s ++
    map (fun x => mk_undecl (b_name x) F (b_line x) (b_start x) (b_end x) (bd_fn b) (bd_fn_line b)) found).

Definition visit_item (F : path) (s : index) (it : item) : index :=
  match it with
  | IUse u => record_usage F u s
  | IDef l => record_def F l s
  | IBody b => scan_body F b s
  end.

(** ** the analysis of one version of one file (eviction: see [evict] below;
    under the cache limit step 12 of the analysis is a no-op) *)
Definition cached_of (v : facts) : cached :=
  mk_cached (f_text v) (f_ok v) (f_lines v) (if f_ok v then f_edges v else []).

Definition analyze (cleanup : bool) (F : path) (v : facts) (s : index) : index :=
  let s := set_file_cache s (ainsert F (cached_of v) (file_cache s)) in
  if negb (f_ok v) then set_version s (version s + 1) else
  let s := cleanup_usages F s in
  let s := if cleanup then cleanup_defs F s else s in
  let s := set_version s (version s + 1) in
  let s := set_modnames s (ainsert F (f_modnames v) (modnames s)) in
  fold_left (visit_item F) (f_items v) s.

(** [cleanup_file_cache] (didClose) *)
Definition close (F : path) (s : index) : index :=
  let s := set_file_cache s (aremove F (file_cache s)) in
  let s := set_av_cache s (aremove F (av_cache s)) in
  let s := set_imp_cache s (aremove F (imp_cache s)) in
  set_version s (version s + 1).

(** [evict_cache_if_needed]: the evicted key set is whatever the map iteration
    yields first; it is an explicit argument (oracle). *)
Definition max_file_cache_size : N := 2000.
Definition drop_cached (F : path) (s : index) : index :=
  let s := set_file_cache s (aremove F (file_cache s)) in
  let s := set_av_cache s (aremove F (av_cache s)) in
  set_imp_cache s (aremove F (imp_cache s)).
Definition evict (keys : list path) (s : index) : index :=
  if max_file_cache_size <? len (file_cache s)
  then let s := fold_left (fun s k => drop_cached k s) keys s in set_version s (version s + 1)
  else s.

Definition mark_plugin (F : path) (s : index) : index :=
  if mem_path F (plugin_files s) then s else set_plugin_files s (plugin_files s ++ [F]).
