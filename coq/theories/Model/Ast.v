(** * Ast: the fragment of the Python AST the analyzer looks at.
    Every node kind the code inspects has its own constructor; everything else is
    [EOther] / [SOther] with its children kept, so that a specification can still look
    inside.  Positions are (1-based line, byte column) pairs as both parsers report them;
    identifiers and string constants are UTF-8 byte strings.  Definitions only. *)
From PLS Require Export Base.Prelude.

Definition pos := (N * N)%type.          (* line, byte column *)

Inductive expr :=
| EName (id : string) (line col ecol : N)
| EAttr (value : expr) (attr : string)
| ECall (func : expr) (args : list expr) (kws : list (option string * expr))
| EStr (v : string) (line col eline ecol : N)         (* Constant::Str with its range *)
| EBool (b : bool)
| EConst (debug : string)                             (* any other constant; [debug] = its Rust Debug text *)
| EList (elts : list expr)
| ETuple (elts : list expr)
| EDict (keys : list (option expr)) (values : list expr)
| ESubscript (value slice : expr)
| EBinOp (bitor : bool) (l r : expr)
| EUnaryOp (operand : expr)
| EBoolOp (values : list expr)
| ESet (elts : list expr)
| ECompare (l : expr) (comparators : list expr)
| EYield (value : option expr) (line : N)
| EYieldFrom (value : expr) (line : N)
| EAwait (value : expr)
| EOther (children : list expr).                       (* Lambda, IfExp, comprehensions, f-strings, starred, ... *)

Record arg := mk_arg { ar_name : string; ar_line : N; ar_col : N; ar_default : bool; ar_annotated : bool }.

Inductive stmt :=
| SFunctionDef (is_async : bool) (name : string) (decorators : list expr) (args : list arg)
               (returns : option expr) (body : list stmt) (line eline : N)
| SClassDef (name : string) (decorators : list expr) (body : list stmt)
| SAssign (targets : list expr) (value : expr) (line : N)
| SAnnAssign (target : expr) (value : option expr) (line : N)
| SAugAssign (target value : expr) (line : N)
| SExpr (value : expr)
| SReturn (value : option expr)
| SIf (test : expr) (body orelse : list stmt)
| SWhile (test : expr) (body orelse : list stmt)
| SFor (is_async : bool) (target iter : expr) (body orelse : list stmt) (line : N)
| SWith (is_async : bool) (items : list (expr * option expr)) (body : list stmt) (line : N)
| STry (body : list stmt) (handlers : list (list stmt)) (orelse finalbody : list stmt)
| SAssert (test : expr) (msg : option expr)
| SImport (names : list (string * option string))
| SImportFrom (level : N) (module : list string) (names : list (string * option string))
| SOther (exprs : list expr) (blocks : list (list stmt)).   (* match, delete, raise, global, pass, ... *)
