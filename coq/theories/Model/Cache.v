(** * Model/Cache: the effect of queries on the memo caches.  A query's ANSWER is
    computed by the functions of Model/Resolve.v (which consult the memos of the
    current state); this file describes which memo entries the query leaves behind
    ([imported_fixtures_cache] after fix 9c7d9a3: top-level lookups only;
    [available_fixtures_cache]). *)
From PLS Require Export Model.Resolve.

Section Cache.
  Variable dk : disk.
  Variable roots : list path.

  (** a top-level [get_imported_fixtures(file)] *)
  Definition imp_store (s : index) (file : path) : index :=
    match content dk s file with
    | None => s
    | Some c =>
        match imp_hit s file c with
        | Some _ => s
        | None => set_imp_cache s (ainsert file (c_text c, version s, imported dk roots s file) (imp_cache s))
        end
    end.

  Definition touch (s : index) (files : list path) : index := fold_left imp_store files s.

  Definition post_closest_with (s : index) (flt : fdef -> bool) (F : path) (n : string) : index :=
    touch s (touched_closest dk roots s flt F n).

  Definition post_resolve_usage (s : index) (F : path) (line : N) (n : string) : index :=
    match def_at_line s F line with
    | Some cd => if String.eqb (d_name cd) n
                 then post_closest_with s (fun d => negb (fdef_eqb d cd)) F n
                 else post_closest_with s (fun _ => true) F n
    | None => post_closest_with s (fun _ => true) F n
    end.

  Definition post_goto (s : index) (F : path) (line0 col : N) : index :=
    match line_text dk s F line0 with
    | None => s
    | Some text =>
      match word_at text col with
      | None => s
      | Some w =>
        match find (fun u => N.eqb (u_line u) (line0 + 1) && String.eqb (u_name u) w
                             && (u_start u <=? col) && (col <? u_end u))
                   (usages_of_file s F) with
        | None => s
        | Some u => post_resolve_usage s F (line0 + 1) (u_name u)
        end
      end
    end.

  Definition post_refs (s : index) (d : fdef) : index :=
    fold_left (fun s u => post_resolve_usage s (u_file u) (u_line u) (u_name u)) (usage_by_name s (d_name d)) s.

  Definition post_available (s : index) (F : path) : index :=
    match av_hit s F with
    | Some _ => s
    | None =>
        let s1 := match F with
                  | [] => s
                  | _ :: dir => touch s (filter (in_cache s) (map (fun d => conftest_py :: d) (ancestors dir)))
                  end in
        set_av_cache s1 (ainsert F (version s, available_cold dk roots s F) (av_cache s1))
    end.
End Cache.
