(** * Analyzer: from the parsed module to the facts the index records.
    Mirrors, function for function, src/fixtures/analyzer.rs ([visit_stmt],
    [visit_assignment_fixture], [visit_pytestmark_assignment],
    [collect_module_level_names], [find_yield_line]), decorators.rs, docstring.rs
    ([extract_docstring], [extract_return_type], [contains_yield], [extract_yielded_type],
    [expr_to_string]), undeclared.rs ([collect_local_variables], [visit_stmt_for_names],
    [visit_expr_for_names]) and imports.rs ([extract_fixture_imports],
    [extract_pytest_plugins]).  The decisions that depend on the index (is a name an
    available fixture, plugin / third-party flags) are taken by Model/Index.v.
    Definitions only. *)
From PLS Require Export Model.Ast Model.Types Base.Utf8 Model.TextFns Generated.Tables.
Open Scope string_scope.
Open Scope N_scope.
Open Scope list_scope.

(** ** decorators.rs *)
Fixpoint is_fixture_decorator (e : expr) : bool :=
  match e with
  | EName id _ _ _ => String.eqb id "fixture"
  | EAttr (EName v _ _ _) attr =>
      (String.eqb v "pytest" || String.eqb v "pytest_asyncio") && String.eqb attr "fixture"
  | ECall f _ _ => is_fixture_decorator f
  | _ => false
  end.

Definition kw_values (kws : list (option string * expr)) (key : string) : list expr :=
  flat_map (fun kv => match kv with
                      | (Some a, v) => if String.eqb a key then [v] else []
                      | (None, _) => []
                      end) kws.
Definition fixture_kw (e : expr) (key : string) : list expr :=
  match e with
  | ECall f _ kws => if is_fixture_decorator f then kw_values kws key else []
  | _ => []
  end.

Definition find_map {A B} (f : A -> option B) : list A -> option B :=
  fix go (l : list A) : option B :=
    match l with [] => None | x :: l' => match f x with Some y => Some y | None => go l' end end.

Definition fixture_name_from_decorator (e : expr) : option string :=
  find_map (fun v => match v with EStr s _ _ _ _ => Some s | _ => None end) (fixture_kw e "name").

(** ASCII lower-casing ([str::to_lowercase] on the scope word) *)
Definition lower_ascii (a : ascii) : ascii :=
  let n := N_of_ascii a in if (65 <=? n) && (n <=? 90) then ascii_of_N (n + 32) else a.
Fixpoint lower (s : string) : string :=
  match s with EmptyString => EmptyString | String a r => String (lower_ascii a) (lower r) end.
Definition scope_of_string (s : string) : option scope :=
  match List.find (fun kv => String.eqb (fst kv) (lower s)) scope_parse with
  | Some (_, nm) => match List.find (fun kv => String.eqb (fst kv) nm) scope_rank with
                    | Some (_, r) => Some r
                    | None => None
                    end
  | None => None
  end.
Definition fixture_scope (e : expr) : option scope :=
  find_map (fun v => match v with EStr s _ _ _ _ => scope_of_string s | _ => None end) (fixture_kw e "scope").
Definition fixture_autouse (e : expr) : bool :=
  existsb (fun v => match v with EBool true => true | _ => false end) (fixture_kw e "autouse").

Fixpoint is_mark (marker : string) (e : expr) : bool :=
  match e with
  | ECall f _ _ => is_mark marker f
  | EAttr v attr =>
      String.eqb attr marker &&
      match v with
      | EAttr (EName p _ _ _) m => String.eqb m "mark" && String.eqb p "pytest"
      | EName m _ _ _ => String.eqb m "mark"
      | _ => false
      end
  | _ => false
  end.

(** a string literal used as a fixture name ([string_usage_span], since fix d199d81): the
    usage spans the occurrence of the name on the literal's FIRST line, behind the opening
    quote, that is not part of a longer identifier; when there is none (implicit
    concatenation, escapes) the literal minus one column at either end (the end column is
    then relative to the line the literal ENDS on).  [is_alphanumeric] is modelled for
    ASCII; every non-ASCII scalar value counts as alphanumeric. *)
Definition ident_char (c : cp) : bool :=
  ((48 <=? c) && (c <=? 57)) || ((65 <=? c) && (c <=? 90)) || ((97 <=? c) && (c <=? 122)) || (c =? 95) || (128 <=? c).
Definition last_cp (s : text) : option cp := match rev s with c :: _ => Some c | [] => None end.
Fixpoint find_token (fuel : nat) (name src : text) (from : N) : option N :=
  match fuel with
  | O => None
  | S f =>
      match slice_from src from with
      | None => None
      | Some rest =>
          match find name rest with
          | None => None
          | Some k =>
              let at_ := from + k in
              let before_ok := match slice_to src at_ with
                               | Some pre => match last_cp pre with Some c => negb (ident_char c) | None => true end
                               | None => true
                               end in
              let after_ok := match slice_from src (at_ + blen name) with
                              | Some (c :: _) => negb (ident_char c)
                              | _ => true
                              end in
              if before_ok && after_ok then Some at_ else find_token f name src (at_ + blen name)
          end
      end
  end.
Definition first_quote (src : text) : N :=
  match find [34] src, find [39] src with
  | Some a, Some b => N.min a b + 1
  | Some a, None => a + 1
  | None, Some b => b + 1
  | None, None => 0
  end.
Fixpoint take_line (s : text) : text :=
  match s with [] => [] | c :: r => if c =? 10 then [] else c :: take_line r end.

Section StrSpan.
  Variable content : text.

  Definition str_span (name : string) (line col eline ecol : N) : N * N :=
    let idx := build_line_index content in
    let ls := fun l => match nth_opt idx (l - 1) with Some o => o | None => 0 end in
    let lo := ls line + col in
    let hi := ls eline + ecol in
    let nm := utf8_decode name in
    match (match slice content lo hi with
           | Some src =>
               let src1 := take_line src in
               match nm with
               | [] => None
               | _ => find_token (S (length src1)) nm src1 (first_quote src1)
               end
           | None => None
           end) with
    | Some at_ => (col + at_, col + at_ + blen nm)
    | None => (col + 1, ecol - 1)
    end.
  Definition str_usage (name : string) (line col eline ecol : N) : lusage :=
    mk_lusage name line (fst (str_span name line col eline ecol)) (snd (str_span name line col eline ecol)).

  Definition usefixtures_names (e : expr) : list lusage :=
    match e with
    | ECall f args _ =>
        if is_mark "usefixtures" f
        then flat_map (fun a => match a with EStr s l c el ec => [str_usage s l c el ec] | _ => [] end) args
        else []
    | _ => []
    end.

  Fixpoint usefixtures_from_expr (e : expr) : list lusage :=
    match e with
    | ECall _ _ _ => usefixtures_names e
    | EList elts => flat_map usefixtures_from_expr elts
    | ETuple elts => flat_map usefixtures_from_expr elts
    | _ => []
    end.
End StrSpan.

(** [param_str.split(',').map(trim)] *)
Fixpoint split_on (c : cp) (s : text) (cur : text) : list text :=
  match s with
  | [] => [rev cur]
  | x :: s' => if x =? c then rev cur :: split_on c s' [] else split_on c s' (x :: cur)
  end.
Definition param_names (s : string) : list string :=
  map (fun t => utf8_encode (trim t)) (split_on 44 (utf8_decode s) []).

Definition indirect_fixtures (content : text) (e : expr) : list lusage :=
  match e with
  | ECall f args kws =>
      if is_mark "parametrize" f then
        match find_map (fun kv => match kv with
                                  | (Some a, v) => if String.eqb a "indirect" then Some v else None
                                  | _ => None
                                  end) kws, args with
        | Some ind, EStr ps l c el ec :: _ =>
            let names := param_names ps in
            match ind with
            | EBool true => map (fun n => str_usage content n l c el ec) names
            | EList elts =>
                flat_map (fun x => match x with
                                   | EStr s l' c' el' ec' => if mem_str s names then [str_usage content s l' c' el' ec'] else []
                                   | _ => []
                                   end) elts
            | _ => []
            end
        | _, _ => []
        end
      else []
  | _ => []
  end.

(** ** names bound by assignment targets *)
Fixpoint names_from_expr (e : expr) : list string :=
  match e with
  | EName id _ _ _ => [id]
  | ETuple elts => flat_map names_from_expr elts
  | EList elts => flat_map names_from_expr elts
  | _ => []
  end.

Definition is_name (n : string) (e : expr) : bool :=
  match e with EName id _ _ _ => String.eqb id n | _ => false end.

Definition module_level_names (st : stmt) : list string :=
  match st with
  | SImport names | SImportFrom _ _ names =>
      map (fun a => match snd a with Some x => x | None => fst a end) names
  | SFunctionDef _ name decs _ _ _ _ _ => if existsb is_fixture_decorator decs then [] else [name]
  | SClassDef name _ _ => [name]
  | SAssign targets _ _ => flat_map names_from_expr targets
  | SAnnAssign target _ _ => names_from_expr target
  | _ => []
  end.

(** ** docstring.rs *)
Definition rust_debug_char (a : ascii) : string :=
  let n := N_of_ascii a in
  if n =? 34 then "\""" else if n =? 92 then "\\" else if n =? 10 then "\n"
  else if n =? 13 then "\r" else if n =? 9 then "\t" else String a EmptyString.
Fixpoint rust_debug_body (s : string) : string :=
  match s with EmptyString => EmptyString | String a r => rust_debug_char a ++ rust_debug_body r end.

Fixpoint join_str (sep : string) (l : list string) : string :=
  match l with
  | [] => EmptyString
  | [x] => x
  | x :: r => x ++ sep ++ join_str sep r
  end.

Fixpoint expr_to_string (e : expr) : string :=
  match e with
  | EName id _ _ _ => id
  | EAttr v attr => expr_to_string v ++ "." ++ attr
  | ESubscript v sl => expr_to_string v ++ "[" ++ expr_to_string sl ++ "]"
  | ETuple elts => join_str ", " (map expr_to_string elts)
  | EStr s _ _ _ _ => s                     (* since fix 07425d9: a forward reference names a type *)
  | EBool true => "Bool(true)"
  | EBool false => "Bool(false)"
  | EConst d => d
  | EBinOp true l r => expr_to_string l ++ " | " ++ expr_to_string r
  | _ => "Any"
  end.
(** before fix 07425d9: the Debug form of the constant *)
Fixpoint expr_to_string_old (e : expr) : string :=
  match e with
  | EName id _ _ _ => id
  | EAttr v attr => expr_to_string_old v ++ "." ++ attr
  | ESubscript v sl => expr_to_string_old v ++ "[" ++ expr_to_string_old sl ++ "]"
  | ETuple elts => join_str ", " (map expr_to_string_old elts)
  | EStr s _ _ _ _ => "Str(""" ++ rust_debug_body s ++ """)"
  | EBool true => "Bool(true)"
  | EBool false => "Bool(false)"
  | EConst d => d
  | EBinOp true l r => expr_to_string_old l ++ " | " ++ expr_to_string_old r
  | _ => "Any"
  end.

Definition is_yield_stmt (st : stmt) : bool :=
  match st with SExpr (EYield _ _) | SExpr (EYieldFrom _ _) => true | _ => false end.

(** [contains_yield] (since fix b9f4d3c the same statement forms as [find_yield_line]):
    expression statements, and the blocks of if / for / while / with (sync and async) /
    try incl. its handlers *)
Fixpoint contains_yield_stmt (st : stmt) : bool :=
  match st with
  | SExpr (EYield _ _) | SExpr (EYieldFrom _ _) => true
  | SIf _ b o => existsb contains_yield_stmt b || existsb contains_yield_stmt o
  | SFor _ _ _ b o _ => existsb contains_yield_stmt b || existsb contains_yield_stmt o
  | SWhile _ b o => existsb contains_yield_stmt b || existsb contains_yield_stmt o
  | SWith _ _ b _ => existsb contains_yield_stmt b
  | STry b hs o f => existsb contains_yield_stmt b || existsb (existsb contains_yield_stmt) hs
                     || existsb contains_yield_stmt o || existsb contains_yield_stmt f
  | _ => false
  end.
Definition contains_yield (body : list stmt) : bool := existsb contains_yield_stmt body.
(** before fix b9f4d3c: no async for / async with / except handlers *)
Fixpoint contains_yield_stmt_old (st : stmt) : bool :=
  match st with
  | SExpr (EYield _ _) | SExpr (EYieldFrom _ _) => true
  | SIf _ b o => existsb contains_yield_stmt_old b || existsb contains_yield_stmt_old o
  | SFor false _ _ b o _ => existsb contains_yield_stmt_old b || existsb contains_yield_stmt_old o
  | SWhile _ b o => existsb contains_yield_stmt_old b || existsb contains_yield_stmt_old o
  | SWith false _ b _ => existsb contains_yield_stmt_old b
  | STry b _ o f => existsb contains_yield_stmt_old b || existsb contains_yield_stmt_old o || existsb contains_yield_stmt_old f
  | _ => false
  end.
Definition contains_yield_old (body : list stmt) : bool := existsb contains_yield_stmt_old body.

(** [find_yield_line]: also async for / async with and the except handlers *)
Fixpoint find_yield_stmt (st : stmt) : option N :=
  match st with
  | SExpr (EYield _ l) | SExpr (EYieldFrom _ l) => Some l
  | SIf _ b o => match find_map find_yield_stmt b with Some l => Some l | None => find_map find_yield_stmt o end
  | SWith _ _ b _ => find_map find_yield_stmt b
  | STry b hs o f =>
      match find_map find_yield_stmt b with
      | Some l => Some l
      | None =>
          match find_map (fun h => find_map find_yield_stmt h) hs with
          | Some l => Some l
          | None => match find_map find_yield_stmt o with Some l => Some l | None => find_map find_yield_stmt f end
          end
      end
  | SFor _ _ _ b o _ => match find_map find_yield_stmt b with Some l => Some l | None => find_map find_yield_stmt o end
  | SWhile _ b o => match find_map find_yield_stmt b with Some l => Some l | None => find_map find_yield_stmt o end
  | _ => None
  end.
Definition find_yield_line (body : list stmt) : option N := find_map find_yield_stmt body.

Definition extract_docstring (body : list stmt) : option string :=
  match body with
  | SExpr (EStr s _ _ _ _) :: _ =>
      match format_docstring (utf8_decode s) with
      | Ok t => Some (utf8_encode t)
      | _ => None          (* unreachable: Proofs/TextFns.v format_docstring_total *)
      end
  | _ => None
  end.

Definition extract_yielded_type (e : expr) : string :=
  match e with
  | ESubscript _ (ETuple (first :: _)) => expr_to_string first
  | ESubscript _ (ETuple []) => expr_to_string e
  | ESubscript _ sl => expr_to_string sl
  | _ => expr_to_string e
  end.
Definition extract_return_type (returns : option expr) (body : list stmt) : option string :=
  match returns with
  | Some r => Some (if contains_yield body then extract_yielded_type r else expr_to_string r)
  | None => None
  end.

(** ** undeclared.rs: the body scan's raw material *)
(** [collect_local_variables]: name -> line of its FIRST binding in visiting order (since
    fix: [entry().or_insert]); lookup finds the first entry of the list *)
Definition bind (names : list string) (line : N) (acc : list (string * N)) : list (string * N) :=
  fold_left (fun a n => if existsb (fun kv => String.eqb (fst kv) n) a then a else a ++ [(n, line)]) names acc.
(** before the fix: [HashMap::insert] overwrote, the LAST binding line was kept *)
Definition bind_old (names : list string) (line : N) (acc : list (string * N)) : list (string * N) :=
  map (fun n => (n, line)) names ++ acc.

Section Locals.
  Variable bindf : list string -> N -> list (string * N) -> list (string * N).
  Variable fixed : bool.     (* the fix also looks into except handlers and loop else-blocks *)
  Fixpoint locals_stmt (st : stmt) (acc : list (string * N)) : list (string * N) :=
    match st with
    | SAssign targets _ line => bindf (flat_map names_from_expr targets) line acc
    | SAnnAssign target _ line => bindf (names_from_expr target) line acc
    | SAugAssign target _ line => bindf (names_from_expr target) line acc
    | SFor _ target _ b o line =>
        let a1 := fold_left (fun a s => locals_stmt s a) b (bindf (names_from_expr target) line acc) in
        if fixed then fold_left (fun a s => locals_stmt s a) o a1 else a1
    | SWhile _ b o =>
        let a1 := fold_left (fun a s => locals_stmt s a) b acc in
        if fixed then fold_left (fun a s => locals_stmt s a) o a1 else a1
    | SIf _ b o => fold_left (fun a s => locals_stmt s a) o (fold_left (fun a s => locals_stmt s a) b acc)
    | SWith _ items b line =>
        fold_left (fun a s => locals_stmt s a) b
          (fold_left (fun a it => match snd it with Some v => bindf (names_from_expr v) line a | None => a end) items acc)
    | STry b hs o f =>
        let a1 := fold_left (fun a s => locals_stmt s a) b acc in
        let a2 := if fixed then fold_left (fun a h => fold_left (fun a s => locals_stmt s a) h a) hs a1 else a1 in
        fold_left (fun a s => locals_stmt s a) f (fold_left (fun a s => locals_stmt s a) o a2)
    | _ => acc
    end.
End Locals.
Definition collect_locals (body : list stmt) : list (string * N) :=
  fold_left (fun a s => locals_stmt bind true s a) body [].
Definition collect_locals_old (body : list stmt) : list (string * N) :=
  fold_left (fun a s => locals_stmt bind_old false s a) body [].

(** [visit_expr_for_names]: the Name nodes the scan looks at, in visiting order *)
Section Names.
  Variable fixed : bool.   (* the fix added keyword arguments, boolean operands, set elements *)
  Fixpoint names_expr (e : expr) : list bname :=
    match e with
    | EName id l c ec => [mk_bname id l c ec]
    | ECall f args kws =>
        names_expr f ++ flat_map names_expr args
        ++ (if fixed then flat_map (fun kv => match kv with (_, v) => names_expr v end) kws else [])
    | EAttr v _ => names_expr v
    | EBinOp _ l r => names_expr l ++ names_expr r
    | EUnaryOp o => names_expr o
    | EBoolOp vs => if fixed then flat_map names_expr vs else []
    | ESet vs => if fixed then flat_map names_expr vs else []
    | ECompare l cs => names_expr l ++ flat_map names_expr cs
    | ESubscript v sl => names_expr v ++ names_expr sl
    | EList elts => flat_map names_expr elts
    | ETuple elts => flat_map names_expr elts
    | EDict keys values =>
        flat_map (fun k => match k with Some k' => names_expr k' | None => [] end) keys
        ++ flat_map names_expr values
    | EAwait v => names_expr v
    | _ => []
    end.
  Definition names_opt (o : option expr) : list bname := match o with Some e => names_expr e | None => [] end.

  (** [visit_stmt_for_names]; the fix added annotated assignments, try blocks and the
      else-blocks of loops *)
  Fixpoint names_stmt (st : stmt) : list bname :=
    match st with
    | SExpr v => names_expr v
    | SAssign _ v _ => names_expr v
    | SAugAssign _ v _ => names_expr v
    | SAnnAssign _ v _ => if fixed then names_opt v else []
    | SReturn v => names_opt v
    | SIf t b o => names_expr t ++ flat_map names_stmt b ++ flat_map names_stmt o
    | SWhile t b o => names_expr t ++ flat_map names_stmt b ++ (if fixed then flat_map names_stmt o else [])
    | SFor _ _ it b o _ => names_expr it ++ flat_map names_stmt b ++ (if fixed then flat_map names_stmt o else [])
    | SWith _ items b _ => flat_map (fun it => names_expr (fst it)) items ++ flat_map names_stmt b
    | SAssert t m => names_expr t ++ names_opt m
    | STry b hs o f =>
        if fixed then flat_map names_stmt b ++ flat_map (fun h => flat_map names_stmt h) hs
                      ++ flat_map names_stmt o ++ flat_map names_stmt f
        else []
    | _ => []
    end.
End Names.

Definition body_item_with (fixed : bool) (body : list stmt) (declared : list string) (fn : string) (fn_line : N) : item :=
  IBody (mk_body declared (if fixed then collect_locals body else collect_locals_old body) fn fn_line
                 (flat_map (names_stmt fixed) body)).
Definition body_item := body_item_with true.

(** ** analyzer.rs [visit_stmt] *)
Section Visit.
  Variable content : text.       (* the file's text (for the def-line search) *)

  Definition name_span (line : N) (fn : string) : N * N :=
    match find_function_name_position content line (utf8_decode fn) with
    | Ok r => r
    | _ => (0, N.of_nat (String.length fn))    (* unreachable: find_function_name_position_total *)
    end.

  Definition strlen (s : string) : N := N.of_nat (String.length s).

  Definition param_usages (skip_request : bool) (args : list arg) : list item :=
    flat_map (fun a => if String.eqb (ar_name a) "self" || (skip_request && String.eqb (ar_name a) "request")
                          || ar_default a       (* since fix 26e7ea3: a defaulted parameter requests nothing *)
                       then []
                       else [IUse (mk_lusage (ar_name a) (ar_line a) (ar_col a) (ar_col a + strlen (ar_name a)))])
             args.

  Definition function_items (name : string) (decs : list expr) (args : list arg) (returns : option expr)
             (body : list stmt) (line eline : N) : list item :=
    flat_map (fun d => map IUse (usefixtures_names content d)) decs
    ++ flat_map (fun d => map IUse (indirect_fixtures content d)) decs
    ++ match List.find is_fixture_decorator decs with
       | Some dec =>
           let fname := match fixture_name_from_decorator dec with Some n => n | None => name end in
           let sc := match fixture_scope dec with Some s => s | None => 0 end in
           let '(s, e) := name_span line name in
           let deps := flat_map (fun a => if String.eqb (ar_name a) "self" || String.eqb (ar_name a) "request" || ar_default a
                                          then [] else [ar_name a]) args in
           IDef (mk_ldef fname line eline s e (extract_docstring body) (extract_return_type returns body)
                         deps sc (find_yield_line body) (fixture_autouse dec))
           :: param_usages true args
           ++ [body_item body ("self" :: "request" :: name :: map ar_name args) name line]
       | None =>
           if prefixb "test_" name
           then param_usages false args ++ [body_item body ("self" :: "request" :: map ar_name args) name line]
           else []
       end.

  Fixpoint visit_stmt (st : stmt) : list item :=
    match st with
    | SAssign targets value line =>
        (match value with
         | ECall (ECall f _ _) _ _ =>
             if is_fixture_decorator f
             then flat_map (fun t => match t with
                                     | EName id _ c ec => [IDef (mk_ldef id line line c ec None None [] 0 None false)]
                                     | _ => []
                                     end) targets
             else []
         | _ => []
         end)
        ++ (if existsb (is_name "pytestmark") targets then map IUse (usefixtures_from_expr content value) else [])
    | SAnnAssign target (Some value) _ =>
        if is_name "pytestmark" target then map IUse (usefixtures_from_expr content value) else []
    | SClassDef _ decs body =>
        flat_map (fun d => map IUse (usefixtures_names content d)) decs ++ flat_map visit_stmt body
    | SFunctionDef _ name decs args returns body line eline =>
        function_items name decs args returns body line eline
    | _ => []
    end.
End Visit.

(** ** imports.rs *)
Definition is_stdlib (level : N) (mod_ : list string) : bool :=
  (level =? 0) && mem_str (match mod_ with x :: _ => x | [] => "" end) stdlib_modules.

Definition import_edge (st : stmt) : list edge :=
  match st with
  | SImportFrom level mod_ names =>
      if is_stdlib level mod_ then []
      else if existsb (fun a => String.eqb (fst a) "*") names then [mk_edge level mod_ Star]
      else match names with
           | [] => []
           | _ => [mk_edge level mod_ (Names (map (fun a => match snd a with Some x => x | None => fst a end) names))]
           end
  | _ => []
  end.

(** the last assignment to [pytest_plugins] wins *)
Definition plugin_strings (value : expr) : list string :=
  match value with
  | EStr s _ _ _ _ => [s]
  | EList elts | ETuple elts => flat_map (fun x => match x with EStr s _ _ _ _ => [s] | _ => [] end) elts
  | _ => []
  end.
Definition pytest_plugins (body : list stmt) : list string :=
  fold_left (fun acc st => match st with
                           | SAssign targets v _ => if existsb (is_name "pytest_plugins") targets then plugin_strings v else acc
                           | SAnnAssign t (Some v) _ => if is_name "pytest_plugins" t then plugin_strings v else acc
                           | _ => acc
                           end) body [].

(** a plugin string "..a.b" -> (level, [a; b]) *)
Fixpoint count_dots (s : string) : N * string :=
  match s with
  | String a r => if Ascii.eqb a "."%char then let '(n, rest) := count_dots r in (n + 1, rest) else (0, s)
  | EmptyString => (0, s)
  end.
Fixpoint split_dots (s : string) (cur : string) : list string :=
  match s with
  | EmptyString => [cur]
  | String a r => if Ascii.eqb a "."%char then cur :: split_dots r EmptyString
                  else split_dots r (cur ++ String a EmptyString)
  end.
Definition plugin_edge (p : string) : edge :=
  let '(lvl, rest) := count_dots p in
  mk_edge lvl (match rest with EmptyString => [] | _ => split_dots rest EmptyString end) Star.

(** ** one version of one file *)
Definition facts_of (text_id : N) (content : text) (parsed : option (list stmt)) : facts :=
  let ls := map utf8_encode (lines content) in
  match parsed with
  | None => mk_facts false text_id ls [] [] []
  | Some body =>
      mk_facts true text_id ls
               (dedup String.eqb (flat_map module_level_names body))
               (flat_map (visit_stmt content) body)
               (flat_map import_edge body ++ map plugin_edge (pytest_plugins body))
  end.
