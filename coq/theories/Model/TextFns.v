(** * TextFns: the byte-slicing text functions of the server, operation by operation.
    Mirrors src/fixtures/string_utils.rs, the dist-info / entry-point parsing of
    src/fixtures/scanner.rs and the line conversion of src/providers/mod.rs.
    Every index, slice and unsigned subtraction of the Rust code is a PARTIAL
    operation here ([Panic]); every [while] loop runs on explicit fuel ([OutOfFuel]).
    The [_old] variants are the code before the fix: commits named beside them.
    Definitions only. *)
From PLS Require Export Base.Text.

(** ** format_docstring (string_utils.rs) *)
(** [while start < lines.len() && lines[start].trim().is_empty() { start += 1 }] *)
Fixpoint skip_front (fuel : nat) (ls : list text) (start : N) : res N :=
  match fuel with
  | O => OutOfFuel
  | S f =>
      if start <? len ls
      then idx ls start >>= fun l => if blank l then skip_front f ls (start + 1) else Ok start
      else Ok start
  end.
(** [while end > start && lines[end - 1].trim().is_empty() { end -= 1 }] *)
Fixpoint skip_back (fuel : nat) (ls : list text) (start e : N) : res N :=
  match fuel with
  | O => OutOfFuel
  | S f =>
      if start <? e
      then usub e 1 >>= fun e1 => idx ls e1 >>= fun l =>
           if blank l then skip_back f ls start e1 else Ok e
      else Ok e
  end.

(** the [min_indent] loop: the first line does not count unless it is blank (it never
    is, after [skip_front]); [indent = line.len() - line.trim_start().len()] *)
Fixpoint min_indent_loop (first : bool) (ls : list text) (m : N) : res N :=
  match ls with
  | [] => Ok m
  | l :: ls' =>
      if first && negb (blank l) then min_indent_loop false ls' m
      else if negb (blank l)
           then usub (blen l) (blen (trim_start l)) >>= fun ind => min_indent_loop false ls' (N.min m ind)
           else min_indent_loop false ls' m
  end.

Definition dedent_line (min_indent : N) (l : text) : res text :=
  if blank l then Ok []
  else Ok (match slice_from l min_indent with Some d => d | None => trim_start l end).
(** before fix 2e519a4: [if line.len() > min_indent { &line[min_indent..] } else { line.trim_start() }] *)
Definition dedent_line_old (min_indent : N) (l : text) : res text :=
  if blank l then Ok []
  else if min_indent <? blen l then of_opt (slice_from l min_indent) else Ok (trim_start l).

Fixpoint rmap {A B} (f : A -> res B) (l : list A) : res (list B) :=
  match l with
  | [] => Ok []
  | x :: l' => f x >>= fun y => rmap f l' >>= fun ys => Ok (y :: ys)
  end.

Definition format_docstring_with (dedent : N -> text -> res text) (s : text) : res text :=
  let ls := lines s in
  match ls with
  | [] => Ok []
  | _ =>
      skip_front (S (length ls)) ls 0 >>= fun start =>
      skip_back (S (length ls)) ls start (len ls) >>= fun e =>
      if e <=? start then Ok [] else
      lslice ls start e >>= fun ls' =>
      min_indent_loop true ls' u64_max >>= fun m =>
      let m := if m =? u64_max then 0 else m in
      match ls' with
      | [] => Ok []
      | l0 :: rest => rmap (dedent m) rest >>= fun ds => Ok (join_lines (trim l0 :: ds))
      end
  end.
Definition format_docstring := format_docstring_with dedent_line.
Definition format_docstring_old := format_docstring_with dedent_line_old.

(** ** extract_word_at_position: [character] indexes the CHARACTERS of the line.
    [wordc c] stands for [c.is_alphanumeric() || c == '_'] (Unicode tables: an oracle). *)
Section Word.
  Variable wordc : cp -> bool.

  Fixpoint word_start (fuel : nat) (cis : list (N * cp)) (i : N) : res N :=
    match fuel with
    | O => OutOfFuel
    | S f =>
        if 0 <? i
        then usub i 1 >>= fun j => idx cis j >>= fun pc =>
             if wordc (snd pc) then word_start f cis j else Ok i
        else Ok i
    end.
  Fixpoint word_end (fuel : nat) (cis : list (N * cp)) (i : N) : res N :=
    match fuel with
    | O => OutOfFuel
    | S f =>
        if i <? len cis
        then idx cis i >>= fun pc => if wordc (snd pc) then word_end f cis (i + 1) else Ok i
        else Ok i
    end.

  Definition extract_word_at_position (line : text) (character : N) : res (option text) :=
    let cis := char_indices line in
    if len cis <=? character then Ok None else
    idx cis character >>= fun pc =>
    if negb (wordc (snd pc)) then Ok None else
    word_start (S (length cis)) cis character >>= fun si =>
    word_end (S (length cis)) cis (character + 1) >>= fun ei =>
    idx cis si >>= fun sp =>
    (if ei <? len cis then idx cis ei >>= fun ep => Ok (fst ep) else Ok (blen line)) >>= fun eb =>
    of_opt (slice line (fst sp) eb) >>= fun w => Ok (Some w).

  (** seeded change S87: the word's first byte taken as "byte offset of the separator in front
      of it, plus one" ([rfind(non_word).map_or(0, |pos| pos + 1)]) instead of the first
      character's own offset *)
  Definition extract_word_sep_plus_one (line : text) (character : N) : res (option text) :=
    let cis := char_indices line in
    if len cis <=? character then Ok None else
    idx cis character >>= fun pc =>
    if negb (wordc (snd pc)) then Ok None else
    word_start (S (length cis)) cis character >>= fun si =>
    word_end (S (length cis)) cis (character + 1) >>= fun ei =>
    (if si =? 0 then Ok 0 else usub si 1 >>= fun j => idx cis j >>= fun p => Ok (fst p + 1)) >>= fun sb =>
    (if ei <? len cis then idx cis ei >>= fun ep => Ok (fst ep) else Ok (blen line)) >>= fun eb =>
    of_opt (slice line sb eb) >>= fun w => Ok (Some w).
End Word.

(** ** find_function_name_position(content, line, func_name) -> (start, end) in bytes *)
Definition def_sp : text := [100; 101; 102; 32].   (* "def " *)
Definition def_tab : text := [100; 101; 102; 9].   (* "def" and a tab *)
(** since fix faffab5 the keyword may be followed by a tab:
    [line.find("def ").or_else(|| line.find("def\t"))] *)
Definition find_def_kw (lc : text) : option N :=
  match find def_sp lc with Some p => Some p | None => find def_tab lc end.
Definition find_function_name_position_with (kw : text -> option N) (content : text) (line : N) (name : text) : res (N * N) :=
  match nth_opt (lines content) (line - 1) with
  | Some lc =>
      match (match kw lc with
             | Some def_pos =>
                 of_opt (slice_from lc (def_pos + 4)) >>= fun after_def =>
                 Ok (match find name after_def with
                     | Some name_pos => Some (def_pos + 4 + name_pos, def_pos + 4 + name_pos + blen name)
                     | None => None
                     end)
             | None => Ok None
             end) with
      | Ok (Some r) => Ok r
      | Ok None => match find name lc with
                   | Some pos => Ok (pos, pos + blen name)
                   | None => Ok (0, blen name)
                   end
      | Panic => Panic
      | OutOfFuel => OutOfFuel
      end
  | None => Ok (0, blen name)
  end.
Definition find_function_name_position := find_function_name_position_with find_def_kw.
(** before fix faffab5: only "def " (with a space) was looked for; a tab behind the keyword sent
    the search to the whole-line fallback, which stops at the first occurrence of the name *)
Definition find_function_name_position_old := find_function_name_position_with (find def_sp).

(** ** parameter_has_annotation(lines, line, end_char) *)
Definition colon : cp := 58.
Definition starts_with_colon (s : text) : bool :=
  match s with c :: _ => c =? colon | [] => false end.
Definition parameter_has_annotation (ls : list text) (line end_char : N) : res bool :=
  match nth_opt ls (line - 1) with
  | None => Ok false
  | Some lt =>
      match slice_from lt end_char with
      | Some (c :: r) => Ok (starts_with_colon (trim_start (c :: r)))
      | _ => Ok false
      end
  end.
(** before fix 39fd031: [if end_char < line_text.len() { &line_text[end_char..] } else { return false }] *)
Definition parameter_has_annotation_old (ls : list text) (line end_char : N) : res bool :=
  match nth_opt ls (line - 1) with
  | None => Ok false
  | Some lt =>
      if end_char <? blen lt
      then of_opt (slice_from lt end_char) >>= fun a => Ok (starts_with_colon (trim_start a))
      else Ok false
  end.

(** ** extract_package_name_from_dist_info(dir_name) -> raw name *)
Definition dist_info_sfx : text := [46; 100; 105; 115; 116; 45; 105; 110; 102; 111].  (* ".dist-info" *)
Definition egg_info_sfx : text := [46; 101; 103; 103; 45; 105; 110; 102; 111].        (* ".egg-info" *)
Definition hyphen : cp := 45.
Definition starts_with_digit (s : text) : bool :=
  match s with c :: _ => is_ascii_digit c | [] => false end.

(** [char_indices().find(|(i, c)| c == '-' && name_version[i + 1..].starts_with(digit))]
    -> (byte index, char index) of the separator *)
Fixpoint find_version_sep (nv : text) (cis : list (N * cp)) (k : N) : res (option (N * N)) :=
  match cis with
  | [] => Ok None
  | (i, c) :: cis' =>
      if c =? hyphen
      then of_opt (slice_from nv (i + 1)) >>= fun rest =>
           if starts_with_digit rest then Ok (Some (i, k)) else find_version_sep nv cis' (k + 1)
      else find_version_sep nv cis' (k + 1)
  end.
Definition dist_info_name_with (use_char_index : bool) (dir_name : text) : res (option text) :=
  match (match strip_suffix dist_info_sfx dir_name with
         | Some nv => Some nv
         | None => strip_suffix egg_info_sfx dir_name
         end) with
  | None => Ok None
  | Some nv =>
      find_version_sep nv (char_indices nv) 0 >>= fun r =>
      match r with
      | Some (bi, ci) => of_opt (slice_to nv (if use_char_index then ci else bi)) >>= fun n => Ok (Some n)
      | None => Ok (Some nv)
      end
  end.
Definition dist_info_name := dist_info_name_with false.
(** before fix 1a39220: [Iterator::position] (a CHARACTER index) used as a byte index *)
Definition dist_info_name_old := dist_info_name_with true.

(** ** parse_pytest11_entry_points(content) -> [(name, module_path)] *)
Definition lbracket : cp := 91.
Definition rbracket : cp := 93.
Definition hash : cp := 35.
Definition eq_sign : cp := 61.
Definition pytest11_hdr : text := [91; 112; 121; 116; 101; 115; 116; 49; 49; 93].   (* "[pytest11]" *)
Definition last_is (c : cp) (s : text) : bool :=
  match rev s with x :: _ => x =? c | [] => false end.
Definition first_is (c : cp) (s : text) : bool :=
  match s with x :: _ => x =? c | [] => false end.
Fixpoint entry_points_loop (ls : list text) (in_sec : bool) : list (text * text) :=
  match ls with
  | [] => []
  | l :: ls' =>
      let l := trim l in
      if first_is lbracket l && last_is rbracket l
      then entry_points_loop ls' (text_eqb l pytest11_hdr)
      else if in_sec && negb (match l with [] => true | _ => false end) && negb (first_is hash l)
           then match split_once eq_sign l with
                | Some (a, b) => (trim a, trim b) :: entry_points_loop ls' in_sec
                | None => entry_points_loop ls' in_sec
                end
           else entry_points_loop ls' in_sec
  end.
Definition parse_pytest11_entry_points (content : text) : list (text * text) :=
  entry_points_loop (lines content) false.

(** ** line conversions (providers/mod.rs, resolver.rs): the LSP line is a u32 *)
Definition lsp_line_to_internal (line : N) : res N := uadd64 line 1.
(** before fix c6f68e3: [(line + 1) as usize] — the addition was done in u32 *)
Definition lsp_line_to_internal_old (line : N) : res N := uadd32 line 1.
(** [line.saturating_sub(1) as u32] *)
Definition internal_line_to_lsp (line : N) : N := (line - 1) mod 4294967296.

(** ** build_line_index / get_line_from_offset (analyzer.rs): offsets of line starts *)
Fixpoint line_index_at (s : text) (off : N) : list N :=
  match s with
  | [] => []
  | c :: s' => if c =? 10 then (off + 1) :: line_index_at s' (off + 1)
               else line_index_at s' (off + width c)
  end.
Definition build_line_index (s : text) : list N := 0 :: line_index_at s 0.
(** [match line_index.binary_search(&offset) { Ok(l) => l + 1, Err(l) => l }] on a
    strictly increasing index = the number of line starts <= offset *)
Definition line_of_offset (index : list N) (offset : N) : N :=
  len (filter (fun st => st <=? offset) index).

(** ** string_usage_span (analyzer.rs, since fix d199d81): the search loop, slice by slice.
    [src[from..]], [src[..at]] and [src[at + name.len()..]] panic off a character boundary;
    [identc c] stands for [c.is_alphanumeric() || c == '_'] (Unicode tables: an oracle).
    [step at n] is the cursor after a rejected occurrence: the code uses [at + n]. *)
Section StrSpanRes.
  Variable identc : cp -> bool.
  Definition last_of (s : text) : option cp := match rev s with c :: _ => Some c | [] => None end.
  Fixpoint token_loop (step : N -> N -> N) (fuel : nat) (name src : text) (from : N) : res (option N) :=
    match fuel with
    | O => OutOfFuel
    | S f =>
        if blen src <? from then Ok None else
        of_opt (slice_from src from) >>= fun rest =>
        match find name rest with
        | None => Ok None
        | Some k =>
            let at_ := from + k in
            of_opt (slice_to src at_) >>= fun pre =>
            of_opt (slice_from src (at_ + blen name)) >>= fun post =>
            let before_ok := match last_of pre with Some c => negb (identc c) | None => true end in
            let after_ok := match post with c :: _ => negb (identc c) | [] => true end in
            if before_ok && after_ok then Ok (Some at_) else token_loop step f name src (step at_ (blen name))
        end
    end.
  Definition string_usage_token : nat -> text -> text -> N -> res (option N) := token_loop (fun at_ n => at_ + n).
  (** the cursor advanced by one BYTE instead (a plausible clean-up, seeded change S44) *)
  Definition string_usage_token_plus_one : nat -> text -> text -> N -> res (option N) := token_loop (fun at_ _ => at_ + 1).
End StrSpanRes.
