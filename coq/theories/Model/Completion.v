(** * Completion: where completion applies and what it offers.
    Mirrors src/fixtures/resolver.rs [get_completion_context] (AST path:
    [check_decorator_context], [cursor_inside_usefixtures_call],
    [get_function_completion_context], [find_signature_end_line], [get_func_context]; text
    fallback: [get_completion_context_from_text], [get_usefixtures_context_from_text],
    [has_fixture_decorator_above], [extract_fixture_scope_from_text]) and
    src/providers/completion.rs ([is_fixture_excluded], [fixture_sort_priority],
    [make_sort_text], [filter_and_enrich_fixtures]).
    The AST path only looks at LINE numbers of nodes, so the parsed module is given as a
    layout: every node with the lines it starts and ends on.  Definitions only. *)
From Coq Require Export ZArith.
From PLS Require Export Model.Analyzer.
Open Scope string_scope.
Open Scope N_scope.
Open Scope list_scope.

Inductive ctx :=
| CSig (fn : string) (fn_line : N) (is_fixture : bool) (declared : list string) (scope : option N)
| CBody (fn : string) (fn_line : N) (is_fixture : bool) (declared : list string) (scope : option N)
| CUse
| CParam.

(** ** the layout of a module *)
Record cdec := mk_cdec { cd_expr : expr; cd_start : N; cd_end : N }.
Inductive cmark :=
| CMCall (f : expr) (s e : N)          (* a call expression with its first and last line *)
| CMSeq (l : list cmark)               (* list / tuple *)
| CMOther.
Inductive cstmt :=
| CFun (name : string) (decs : list cdec) (params : list string)
       (sig_last : option N)           (* line on which the last parameter / the return annotation ends *)
       (body_first : option N)         (* line of the first body statement *)
       (start eline : N)
| CClass (decs : list cdec) (body : list cstmt)
| CMark (value : option cmark) (start eline : N)      (* pytestmark = ... / pytestmark: T = ... *)
| COther.

(** ** AST path *)
Definition within (l a b : N) : bool := (a <=? l) && (l <=? b).

(** a parametrize call carries an [indirect] keyword *)
Definition has_indirect (e : expr) : bool :=
  match e with
  | ECall _ _ kws => existsb (fun kv => match kv with (Some a, _) => String.eqb a "indirect" | _ => false end) kws
  | _ => false
  end.

(** since fix e3a98b7: a parametrize decorator is an argument list for fixture names only
    when it has an [indirect] keyword *)
Definition dec_ctx (l : N) (d : cdec) : option ctx :=
  if within l (cd_start d) (cd_end d)
  then if is_mark "usefixtures" (cd_expr d) then Some CUse
       else if is_mark "parametrize" (cd_expr d) && has_indirect (cd_expr d) then Some CParam else None
  else None.
(** before the fix: every parametrize decorator *)
Definition dec_ctx_old (l : N) (d : cdec) : option ctx :=
  if within l (cd_start d) (cd_end d)
  then if is_mark "usefixtures" (cd_expr d) then Some CUse
       else if is_mark "parametrize" (cd_expr d) then Some CParam else None
  else None.

Fixpoint mark_hit (l : N) (m : cmark) : bool :=
  match m with
  | CMCall f s e => is_mark "usefixtures" f && within l s e
  | CMSeq ms => existsb (mark_hit l) ms
  | CMOther => false
  end.

Fixpoint decorator_ctx (l : N) (st : cstmt) : option ctx :=
  match st with
  | CFun _ decs _ _ _ _ _ => find_map (dec_ctx l) decs
  | CClass decs body =>
      match find_map (dec_ctx l) decs with
      | Some c => Some c
      | None => find_map (decorator_ctx l) body
      end
  | CMark (Some v) s e => if within l s e && mark_hit l v then Some CUse else None
  | _ => None
  end.

(** [find_signature_end_line]; [ls] = [content.lines()] *)
Definition ends_with_colon (t : text) : bool := match rev (trim t) with 58 :: _ => true | _ => false end.
Fixpoint first_colon_line (ls : list text) (i : N) (n : nat) : option N :=
  (* among the [n] lines starting at 0-based index [i]: the first whose trimmed text ends with a colon *)
  match n with
  | O => None
  | S n' =>
      match nth_opt ls i with
      | Some t => if ends_with_colon t then Some (i + 1) else first_colon_line ls (i + 1) n'
      | None => None
      end
  end.
Definition signature_end_line_with (fixed : bool) (ls : list text) (start : N) (sig_last body_first : option N) : N :=
  let last := match sig_last with Some l => l | None => start end in
  (* since fix 7464d3b: the first body line itself is not looked at *)
  let scan_end := N.min (N.min (match body_first with
                                | Some b => if fixed then N.max (b - 1) last else b
                                | None => last + 10
                                end) (last + 10)) (len ls) in
  let scan_start := last - 1 in
  match first_colon_line ls scan_start (N.to_nat (scan_end - scan_start)) with
  | Some l => l
  | None => match body_first with
            | Some b => N.max (b - 1) start
            | None => start
            end
  end.
Definition signature_end_line := signature_end_line_with true.
Definition signature_end_line_old := signature_end_line_with false.

Definition fn_scope (decs : list cdec) : N :=
  match find_map (fun d => fixture_scope (cd_expr d)) decs with Some s => s | None => 0 end.

Fixpoint function_ctx (ls : list text) (l : N) (st : cstmt) : option ctx :=
  match st with
  | CFun name decs params sig_last body_first start eline =>
      if negb (within l start eline) then None else
      let is_fixture := existsb (fun d => is_fixture_decorator (cd_expr d)) decs in
      let is_test := prefixb "test_" name in
      if negb (is_test || is_fixture) then None else
      let sc := if is_fixture then Some (fn_scope decs) else None in
      if l <=? signature_end_line ls start sig_last body_first
      then Some (CSig name start is_fixture params sc)
      else Some (CBody name start is_fixture params sc)
  | CClass _ body => find_map (function_ctx ls l) body
  | _ => None
  end.

Definition ast_ctx (ls : list text) (m : list cstmt) (l : N) : option ctx :=
  match find_map (decorator_ctx l) m with
  | Some c => Some c
  | None => find_map (function_ctx ls l) m
  end.

(** ** text fallback *)
Definition s_at : text := [64].                                                      (* at sign *)
Definition s_pytest_fixture : text := [112; 121; 116; 101; 115; 116; 46; 102; 105; 120; 116; 117; 114; 101].   (* pytest.fixture *)
Definition s_at_fixture : text := [64; 102; 105; 120; 116; 117; 114; 101].           (* @fixture *)
Definition s_scope_dq : text := [115; 99; 111; 112; 101; 61; 34].                    (* scope= double quote *)
Definition s_scope_sq : text := [115; 99; 111; 112; 101; 61; 39].                    (* scope= single quote *)
Definition s_usefixtures : text := [117; 115; 101; 102; 105; 120; 116; 117; 114; 101; 115; 40].   (* usefixtures and open paren *)
Definition s_def : text := [100; 101; 102; 32].
Definition s_async_def : text := [97; 115; 121; 110; 99; 32; 100; 101; 102; 32].
Definition s_test : text := [116; 101; 115; 116; 95].

(** [above]: the lines above the def line, nearest first *)
(** number of [(] minus number of [)] on a line *)
Definition net_open (t : text) : Z :=
  fold_left (fun (d : Z) (c : cp) => if c =? 40 then (d + 1)%Z else if c =? 41 then (d - 1)%Z else d) t 0%Z.

(** [asy]: since fix 1e3dfbe a decorator line mentioning [pytest_asyncio.fixture] counts too (the
    analyzer has always treated it as a fixture decorator).  [ml]: since fix 8c78806 the argument lines
    of a decorator call that spans several lines are walked over ([pend] = closing parentheses met
    on the way up that have not found their opening one yet) *)
Definition s_pytest_asyncio_fixture : text :=
  [112; 121; 116; 101; 115; 116; 95; 97; 115; 121; 110; 99; 105; 111; 46; 102; 105; 120; 116; 117; 114; 101].
Fixpoint hfda (asy ml : bool) (pend : Z) (above : list text) : bool :=
  match above with
  | [] => false
  | l :: r =>
      let t := trim l in
      match t with
      | [] => hfda asy ml pend r
      | _ => let pend' := (pend - net_open t)%Z in
             if tprefix s_at t
             then (if (match find s_pytest_fixture t with Some _ => true | None => false end)
                      || (asy && match find s_pytest_asyncio_fixture t with Some _ => true | None => false end)
                      || tprefix s_at_fixture t
                   then true else hfda asy ml pend' r)
             else if ml && (0 <? pend')%Z then hfda asy ml pend' r else false
      end
  end.
Definition has_fixture_decorator_above_with (asy : bool) := hfda asy true 0%Z.
Definition has_fixture_decorator_above := hfda true true 0%Z.
Definition has_fixture_decorator_above_old := hfda false false 0%Z.
Definition has_fixture_decorator_above_one_line := hfda true false 0%Z.

(** the first occurrence of [pat] that is not the tail of a longer identifier (since fix 7721f5d:
    [scope="..."] is not looked for inside [loop_scope="..."]); [match_indices] yields the
    non-overlapping occurrences from left to right *)
Fixpoint find_kw (fuel : nat) (pat t : text) (from : N) : option N :=
  match fuel with
  | O => None
  | S f =>
      match slice_from t from with
      | None => None
      | Some rest =>
          match find pat rest with
          | None => None
          | Some k =>
              let at_ := from + k in
              match slice_to t at_ with
              | Some pre => if (match rev pre with c :: _ => ident_char c | [] => false end)
                            then find_kw f pat t (at_ + blen pat) else Some at_
              | None => None
              end
          end
      end
  end.
Definition scope_in_line_with (strict : bool) (t : text) : option (option N) :=
  (* Some r: the line decides (r = the parsed scope, possibly none); None: keep scanning *)
  let try := fun (pat : text) (q : cp) =>
    match (if strict then find_kw (S (length t)) pat t 0 else find pat t) with
    | Some pos =>
        match slice_from t (pos + blen pat) with
        | Some rest => match find [q] rest with
                       | Some e => match slice_to rest e with
                                   | Some sc => Some (scope_of_string (utf8_encode sc))
                                   | None => None
                                   end
                       | None => None
                       end
        | None => None
        end
    | None => None
    end in
  match try s_scope_dq 34 with
  | Some r => Some r
  | None => try s_scope_sq 39
  end.
Definition scope_in_line := scope_in_line_with true.
Fixpoint sft (strict ml : bool) (pend : Z) (above : list text) : option N :=
  match above with
  | [] => None
  | l :: r =>
      let t := trim l in
      match t with
      | [] => sft strict ml pend r
      | _ => let pend' := (pend - net_open t)%Z in
             if tprefix s_at t || (ml && (0 <? pend')%Z)
             then match scope_in_line_with strict t with
                  | Some res => res
                  | None => sft strict ml pend' r
                  end
             else None
      end
  end.
Definition scope_from_text_with (strict : bool) := sft strict true 0%Z.
Definition scope_from_text := sft true true 0%Z.
Definition scope_from_text_old := sft false false 0%Z.
Definition scope_from_text_one_line := sft true false 0%Z.

Definition net_parens (t : text) : Z :=
  fold_left (fun (d : Z) (c : cp) => if c =? 40 then (d + 1)%Z else if c =? 41 then (d - 1)%Z else d) t 0%Z.
Definition rfind_cp (c : cp) (s : text) : option N :=
  match find [c] (rev s) with Some k => Some (blen s - 1 - k) | None => None end.

(** counting on from the line of the call to the cursor; since fix ffc6949 the count stops
    once the call's own closing parenthesis has been seen on a line above the cursor *)
Definition count_line (st : Z * bool) (t : text) : Z * bool :=
  fold_left (fun (st : Z * bool) (c : cp) =>
               if snd st then st
               else if c =? 40 then ((fst st + 1)%Z, false)
                    else if c =? 41 then ((fst st - 1)%Z, (fst st - 1 <=? 0)%Z)
                         else st) t st.

(** [up]: the cursor line first, then the lines above it (at most 11 are looked at);
    [below]: the lines between the one looked at and the cursor, cursor included, top down.
    Result: [Some (Some CUse)] / [Some None] = the function returns; [None] = nothing found *)
Fixpoint usefixtures_scan (fixed : bool) (up : list text) (below : list text) (n : nat) : option (option ctx) :=
  match n, up with
  | S n', line :: r =>
      match (match find s_usefixtures line with
             | Some pos =>
                 match slice_from line pos with
                 | Some tail =>
                     let d0 := net_parens tail in
                     let '(depth, closed) :=
                       match below with
                       | [] => (d0, false)
                       | _ => if fixed then fold_left count_line below (d0, (d0 <=? 0)%Z)
                              else (fold_left (fun (d : Z) (t : text) => (d + net_parens t)%Z) below d0, false)
                       end in
                     if (0 <? depth)%Z && negb closed then Some (Some CUse)
                     else if (match below with [] => true | _ => false end) && (depth =? 0)%Z
                     then match rfind_cp 41 tail, find [40] tail with
                          | Some close_pos, Some open_off =>
                              if pos + close_pos =? pos + open_off + 1 then Some (Some CUse) else Some None
                          | Some close_pos, None => if pos + close_pos =? pos + 0 + 1 then Some (Some CUse) else Some None
                          | None, _ => Some (Some CUse)
                          end
                     else None
                 | None => None
                 end
             | None => None
             end) with
      | Some res => Some res
      | None => usefixtures_scan fixed r (line :: below) n'
      end
  | _, _ => None
  end.

Definition text_lines (content : text) : list text :=
  lines content ++ (match rev content with 10 :: _ => [[]] | _ => [] end).

Definition take_ident (t : text) : text :=
  (fix go (t : text) : text := match t with c :: r => if ident_char c then c :: go r else [] | [] => [] end) t.

(** the text behind the [def] keyword (after an optional [async]) of a function header line.
    Since fix aeb5786 any white space may separate the keywords and the name:
    [after_kw("def", after_kw("async", line).unwrap_or(line))] with
    [after_kw(kw, s) = s.strip_prefix(kw).filter(starts with white space).map(trim_start)] *)
Definition s_kw_def : text := [100; 101; 102].
Definition s_kw_async : text := [97; 115; 121; 110; 99].
Definition after_kw (kw t : text) : option text :=
  match strip_prefix kw t with
  | Some (c :: r) => if is_ws c then Some (trim_start (c :: r)) else None
  | _ => None
  end.
Definition after_def_keyword (t : text) : option text :=
  after_kw s_kw_def (match after_kw s_kw_async t with Some r => r | None => t end).
(** before that fix: exactly ["async def "] or ["def "], and the name expected right behind *)
Definition after_def_keyword_old (t : text) : option text :=
  match strip_prefix s_async_def t with Some r => Some r | None => strip_prefix s_def t end.

Fixpoint find_def_up (kwr : text -> option text) (up : list text) (i : N) (n : nat) : option (N * text) :=
  (* scanning upward from 0-based index [i]: the first line whose trimmed text starts a def *)
  match n, up with
  | S n', l :: r =>
      let t := trim l in
      match kwr t with Some _ => Some (i, t) | None => find_def_up kwr r (i - 1) n' end
  | _, _ => None
  end.

(** the parenthesis scan from the def line to the cursor line *)
Record pscan := mk_pscan { ps_depth : Z; ps_open : bool; ps_closed : bool }.
Definition scan_line (is_cursor : bool) (st : pscan) (t : text) : pscan :=
  fold_left (fun (st : pscan) (c : cp) =>
               if c =? 40 then mk_pscan (ps_depth st + 1) (ps_open st || (ps_depth st + 1 =? 1)%Z) (ps_closed st)
               else if c =? 41 then
                      let d := (ps_depth st - 1)%Z in
                      mk_pscan d (ps_open st) (ps_closed st || ((d =? 0)%Z && ps_open st && negb is_cursor))
                    else st) t st.
Fixpoint scan_lines (ls : list text) (st : pscan) : pscan :=
  match ls with
  | [] => st
  | [t] => scan_line true st t
  | t :: r => scan_lines r (scan_line false st t)
  end.

(** the parameter text between the first opening parenthesis and the first closing one after it *)
Record pcollect := mk_pc { pc_text : text (* reversed *); pc_open : bool; pc_close : bool }.
Definition collect_line (st : pcollect) (t : text) : pcollect :=
  let st := fold_left (fun st c =>
                         if pc_close st then st
                         else if pc_open st then (if c =? 41 then mk_pc (pc_text st) true true else mk_pc (c :: pc_text st) true false)
                              else if c =? 40 then mk_pc (pc_text st) true false else st) t st in
  if pc_open st && negb (pc_close st) then mk_pc (32 :: pc_text st) true false else st.
Definition declared_from_text (ls : list text) : list string :=
  let st := fold_left collect_line ls (mk_pc [] false false) in
  flat_map (fun p => match take_ident (trim p) with [] => [] | n => [utf8_encode n] end)
           (split_on 44 (rev (pc_text st)) []).

(** [fixed] = since fixes aedb37b / ffc6949; [parsed_ok]: the document parses, so the signature
    heuristics are skipped (since fix aedb37b) *)
Definition text_ctx_gen (kwr : text -> option text) (fixed parsed_ok : bool) (content : text) (target_line : N) : option ctx :=
  let ls := text_lines content in
  if (target_line =? 0) || (len ls <? target_line) then None else
  let cursor := target_line - 1 in
  let up := rev (firstn (N.to_nat target_line) ls) in        (* cursor line first *)
  match usefixtures_scan fixed up [] 11 with
  | Some res => res
  | None =>
      if fixed && parsed_ok then None else
      match find_def_up kwr up cursor 51 with
      | None => None
      | Some (di, dl) =>
          let remaining := match kwr dl with Some r => r | None => [] end in
          let fname := take_ident remaining in
          match fname with
          | [] => None
          | _ =>
              let above := rev (firstn (N.to_nat di) ls) in
              let is_test := tprefix s_test fname in
              let is_fixture := has_fixture_decorator_above above in
              if negb (is_test || is_fixture) then None else
              let span := firstn (N.to_nat (cursor - di + 1)) (skipn (N.to_nat di) ls) in
              let st := scan_lines span (mk_pscan 0 false false) in
              let inside := ps_open st && (0 <? ps_depth st)%Z in
              if ps_closed st && negb inside then None else
              let declared := if ps_open st then declared_from_text span else [] in
              let sc := if is_fixture then Some (match scope_from_text above with Some s => s | None => 0 end) else None in
              Some (CSig (utf8_encode fname) (di + 1) is_fixture declared sc)
          end
      end
  end.

Definition text_ctx_with := text_ctx_gen after_def_keyword.
Definition text_ctx_with_old_kw := text_ctx_gen after_def_keyword_old.

(** ** [get_completion_context]: [m] = the layout when the text parses *)
Definition completion_ctx_with (fixed : bool) (content : text) (m : option (list cstmt)) (line0 : N) : option ctx :=
  let target := line0 + 1 in
  match (match m with Some m => ast_ctx (lines content) m target | None => None end) with
  | Some c => Some c
  | None => text_ctx_with fixed (match m with Some _ => true | None => false end) content target
  end.
Definition completion_ctx := completion_ctx_with true.
Definition completion_ctx_old := completion_ctx_with false.
Definition text_ctx (parsed_ok : bool) := text_ctx_with true parsed_ok.

(** ** providers/completion.rs: what is offered *)
Definition excluded (d : fdef) (declared : option (list string)) (cur : option string) (scope : option N) : bool :=
  mem_str (d_name d) ["self"; "cls"]
  || (match cur with Some n => String.eqb (d_name d) n | None => false end)
  || (match declared with Some ps => mem_str (d_name d) ps | None => false end)
  || (match scope with Some sc => d_scope d <? sc | None => false end).
Definition priority (F : path) (d : fdef) : N :=
  if path_eqb (d_file d) F then 0 else if d_third d then 3 else if d_plugin d then 2 else 1.
Definition digit (n : N) : string :=
  match n with 0 => "0" | 1 => "1" | 2 => "2" | _ => "3" end.
Definition sort_text (F : path) (d : fdef) : string := digit (priority F d) ++ "_" ++ d_name d.

Definition ctx_filter (c : ctx) : option (list string) * option string * option N :=
  match c with
  | CSig fn _ isf declared sc | CBody fn _ isf declared sc => (Some declared, if isf then Some fn else None, sc)
  | CUse | CParam => (None, None, None)
  end.
Definition offered (avail : list fdef) (F : path) (c : ctx) : list fdef :=
  let '(declared, cur, sc) := ctx_filter c in
  filter (fun d => negb (excluded d declared cur sc)) avail.
Definition offered_items (avail : list fdef) (F : path) (c : ctx) : list (string * string) :=
  map (fun d => (d_name d, sort_text F d)) (offered avail F c).
