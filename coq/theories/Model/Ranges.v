(** * Ranges: how the providers build LSP ranges from what the index holds
    (src/providers/document_symbol.rs, call_hierarchy.rs, references.rs,
    workspace_symbol.rs, definition.rs).  Lines in the index are 1-based, LSP lines
    0-based; columns are passed through unchanged (they are BYTE columns: the known
    finding of C15).  Definitions only. *)
From PLS Require Export Spec.Positions Model.TextFns.

Definition lsp_line (line : N) : N := internal_line_to_lsp line.
Definition name_range (line s e : N) : range := mk_range (mk_pos (lsp_line line) s) (mk_pos (lsp_line line) e).
Definition point_range (line : N) : range := mk_range (mk_pos (lsp_line line) 0) (mk_pos (lsp_line line) 0).

(** document_symbol.rs (since fix 657b051): from column 0 of the definition line to the end
    of the definition's last line; [last_len] = UTF-16 length of that line *)
Definition symbol_full (line eline e last_len : N) : range :=
  let l := lsp_line line in
  let el := N.max (lsp_line eline) l in
  mk_range (mk_pos l 0) (mk_pos el (if el =? l then N.max last_len e else last_len)).
(** before the fix: [(line, 0) .. (end_line, 0)] *)
Definition symbol_full_old (line eline : N) : range :=
  mk_range (mk_pos (lsp_line line) 0) (mk_pos (lsp_line eline) 0).

(** call_hierarchy.rs (since fix c9bd7b5): the definition line up to the end of the name *)
Definition item_full (line e : N) : range := mk_range (mk_pos (lsp_line line) 0) (mk_pos (lsp_line line) e).
Definition item_full_old (line : N) : range := point_range line.
