(** * ParamEdit: where the quick fix / the body completion insert a new fixture parameter,
    at the level of the parameter list of the parsed signature (resolver.rs
    [param_insertion_info_from_ast], since fix ad2306c).  Definitions only. *)
From Coq Require Export List Bool String.
Export ListNotations.

Inductive pkind :=
| Pos        (* positional (or positional-only) without default *)
| PosD       (* positional with a default *)
| VarStar       (* *args, or the bare keyword-only marker *)
| Kw         (* keyword-only, with or without default *)
| DStar.     (* **kwargs *)
Definition param := (pkind * string)%type.

(** Python's rule for a parameter list: Pos* PosD* [VarStar Kw*] [DStar] *)
Fixpoint after_star (ps : list param) : bool :=
  match ps with
  | [] => true
  | (Kw, _) :: r => after_star r
  | [(DStar, _)] => true
  | _ => false
  end.
Fixpoint after_default (ps : list param) : bool :=
  match ps with
  | [] => true
  | (PosD, _) :: r => after_default r
  | (VarStar, _) :: r => after_star r
  | [(DStar, _)] => true
  | _ => false
  end.
Fixpoint valid_sig (ps : list param) : bool :=
  match ps with
  | [] => true
  | (Pos, _) :: r => valid_sig r
  | _ => after_default ps
  end.

(** the insertion: after the last [Pos]; with no [Pos], in front of the first parameter NODE
    — the bare keyword-only marker [*] is not a node of the parsed signature, so when the
    list starts with it the new parameter lands behind it and is keyword-only (pytest
    passes fixtures by keyword, so it is requested all the same) *)
Fixpoint ins_pos (x : string) (ps : list param) : list param :=
  match ps with
  | (Pos, n) :: r => (Pos, n) :: ins_pos x r
  | _ => (Pos, x) :: ps
  end.
Definition insert_after_last_pos (x : string) (ps : list param) : list param :=
  match ps with
  | (VarStar, EmptyString) :: r => (VarStar, EmptyString) :: (Kw, x) :: r
  | _ => ins_pos x ps
  end.
(** before fix ad2306c: appended at the end of the list *)
Definition insert_at_end (x : string) (ps : list param) : list param := ps ++ [(Pos, x)].
