(** * ParamEdit: where the quick fix / the body completion insert a new fixture parameter,
    at the level of the parameter list of the parsed signature (resolver.rs
    [param_insertion_info_from_ast], since fix ad2306c).  Definitions only. *)
From Coq Require Export List Bool String.
Export ListNotations.

Inductive pkind :=
| Pos        (* positional (or positional-only) without default *)
| PosD       (* positional with a default *)
| VarStar       (* *args, or the bare keyword-only marker *)
| Kw         (* keyword-only, with or without default *)
| DStar.     (* **kwargs *)
Definition param := (pkind * string)%type.

(** Python's rule for a parameter list: Pos* PosD* [VarStar Kw*] [DStar] *)
Fixpoint after_star (ps : list param) : bool :=
  match ps with
  | [] => true
  | (Kw, _) :: r => after_star r
  | [(DStar, _)] => true
  | _ => false
  end.
Fixpoint after_default (ps : list param) : bool :=
  match ps with
  | [] => true
  | (PosD, _) :: r => after_default r
  | (VarStar, _) :: r => after_star r
  | [(DStar, _)] => true
  | _ => false
  end.
Fixpoint valid_sig (ps : list param) : bool :=
  match ps with
  | [] => true
  | (Pos, _) :: r => valid_sig r
  | _ => after_default ps
  end.

(** the insertion: after the last [Pos]; with no [Pos], in front of the first parameter NODE
    — the bare keyword-only marker [*] is not a node of the parsed signature, so when the
    list starts with it the new parameter lands behind it and is keyword-only (pytest
    passes fixtures by keyword, so it is requested all the same) *)
Fixpoint ins_pos (x : string) (ps : list param) : list param :=
  match ps with
  | (Pos, n) :: r => (Pos, n) :: ins_pos x r
  | _ => (Pos, x) :: ps
  end.
Definition insert_after_last_pos (x : string) (ps : list param) : list param :=
  match ps with
  | (VarStar, EmptyString) :: r => (VarStar, EmptyString) :: (Kw, x) :: r
  | _ => ins_pos x ps
  end.
(** before fix ad2306c: appended at the end of the list *)
Definition insert_at_end (x : string) (ps : list param) : list param := ps ++ [(Pos, x)].

(** ** the text level: where, in the document's bytes, the new name goes when the first
    parameter is a starred one ([*args] / [**kwargs]).  The parsed node starts at the NAME;
    the code steps back from there to the first star (resolver.rs
    [param_insertion_info_from_ast]).  [bytes] is the document, [o] a byte offset. *)
From Coq Require Import NArith.
Definition star_b : N := 42%N.
Definition ws_b (b : N) : bool :=        (* u8::is_ascii_whitespace: space, \t, \n, \x0C, \r *)
  orb (N.eqb b 32) (orb (N.eqb b 9) (orb (N.eqb b 10) (orb (N.eqb b 12) (N.eqb b 13)))).

(** [while o > 0 && p(bytes[o - 1]) { o -= 1 }] *)
Fixpoint back_while (p : N -> bool) (bytes : list N) (o : nat) : nat :=
  match o with
  | O => O
  | S o' => match nth_error bytes o' with
            | Some b => if p b then back_while p bytes o' else o
            | None => o
            end
  end.
(** [while o < len && p(bytes[o]) { o += 1 }], on explicit fuel *)
Fixpoint fwd_while (p : N -> bool) (fuel : nat) (bytes : list N) (o : nat) : nat :=
  match fuel with
  | O => o
  | S f => match nth_error bytes o with
           | Some b => if p b then fwd_while p f bytes (S o) else o
           | None => o
           end
  end.

(** since the fix: back over the blanks between the star(s) and the name, then over the stars *)
Definition star_start (bytes : list N) (name_start : nat) : nat :=
  back_while (N.eqb star_b) bytes (back_while ws_b bytes name_start).
(** before the fix: back over stars and SPACES in any mixture, forward over spaces *)
Definition star_start_old (bytes : list N) (name_start : nat) : nat :=
  let p := fun b => orb (N.eqb b star_b) (N.eqb b 32) in
  fwd_while (N.eqb 32) (List.length bytes) bytes (back_while p bytes name_start).
(** seeded change S89: [content[..name_start].rfind('*')] *)
Fixpoint rfind_star (bytes : list N) (o : nat) : nat :=
  match o with
  | O => O
  | S o' => match nth_error bytes o' with
            | Some b => if N.eqb b star_b then o' else rfind_star bytes o'
            | None => rfind_star bytes o'
            end
  end.
(** seeded change S102: back over stars and ANY ascii whitespace, forward over space / tab *)
Definition star_start_s102 (bytes : list N) (name_start : nat) : nat :=
  let p := fun b => orb (N.eqb b star_b) (ws_b b) in
  fwd_while (fun b => orb (N.eqb b 32) (N.eqb b 9)) (List.length bytes) bytes (back_while p bytes name_start).
