(** * C03 — what the index records for a file is what the file says.  Statements only. *)
From PLS Require Import Spec.Extract Model.History Proofs.Basics Proofs.Extract.
From PLS Require Proofs.Invariants Proofs.Scan.

(** For EVERY module of the AST fragment — any nesting of classes, any decorators, any
    parameter lists, any bodies — the definitions the analyzer records are exactly those
    the documented rules declare, one for one and in source order, each with the right
    name (honouring name=), line span, cleaned docstring, return-type text, ordered
    dependency list, scope, yield line and autouse flag — provided the two hand-written
    yield walkers agree with the rule "a yield anywhere in the body, outside nested
    scopes" on every fixture of the module ([fixtures_ok]; the programs where they do not
    are known finding C03-yield-expression). *)
Theorem C03_definitions_exact :
  forall content m,
    Forall fixtures_ok (flat_map collected m) ->
    map ldef_core (item_defs (flat_map (visit_stmt content) m)) = map sdef_core (spec_defs m).
Proof. exact definitions_exact. Qed.
Print Assumptions C03_definitions_exact.

(** The usages recorded are exactly: the usefixtures strings on functions, classes and
    pytestmark; the indirect-parametrize names; and the parameters of fixtures and tests
    that carry no default (minus self, and request for fixtures) — for every module, with
    no hypothesis.  (Directly parametrized argnames are NOT excluded by the analyzer:
    known finding C03-direct-parametrize; [spec_requests] here is the non-strict form.) *)
Theorem C03_requests_exact :
  forall content m,
    map use_key (item_uses (flat_map (visit_stmt content) m)) = spec_requests true m.
Proof. exact requests_exact. Qed.
Print Assumptions C03_requests_exact.

(** Nothing else in the file produces an entry. *)
Theorem C03_inert_statements_record_nothing :
  forall content st, inert st = true -> visit_stmt content st = [].
Proof. exact inert_statements_record_nothing. Qed.
Theorem C03_helpers_record_nothing :
  forall content a name args returns body line eline decs,
    existsb fixture_spelling decs = false -> prefixb "test_" name = false ->
    (forall d, In d decs -> usefixtures_names content d = [] /\ indirect_fixtures content d = []) ->
    visit_stmt content (SFunctionDef a name decs args returns body line eline) = [].
Proof. exact helpers_record_nothing. Qed.
Theorem C03_body_only_feeds_the_scan :
  forall content name decs args returns body1 body2 line eline,
    extract_docstring body1 = extract_docstring body2 ->
    extract_return_type returns body1 = extract_return_type returns body2 ->
    find_yield_line body1 = find_yield_line body2 ->
    filter (fun it => match it with IBody _ => false | _ => true end)
           (function_items content name decs args returns body1 line eline)
    = filter (fun it => match it with IBody _ => false | _ => true end)
             (function_items content name decs args returns body2 line eline).
Proof. exact body_only_feeds_the_scan. Qed.
Print Assumptions C03_helpers_record_nothing.

(** The hand-written recognisers are the documented spellings. *)
Theorem C03_fixture_decorator_spellings : forall e, is_fixture_decorator e = fixture_spelling e.
Proof. exact is_fixture_decorator_spelling. Qed.
Theorem C03_mark_spellings : forall marker e, is_mark marker e = mark_spelling marker e.
Proof. exact is_mark_spelling. Qed.

(** From the analyzer's items to the index: after (re-)analysing the file, in ANY reachable
    state, the definitions the index holds for the file are those items with the file
    attached (C10's slice theorem). *)
Theorem C03_index_holds_the_items :
  forall ops F tid content m,
    Scan.defs_of_file (analyze true F (facts_of tid content (Some m)) (Invariants.run_ops ops)) F
    = map (attach_p (plugin_files (Invariants.run_ops ops)) F) (item_defs (flat_map (visit_stmt content) m)).
Proof.
  intros ops F tid content m.
  pose proof (Scan.one_change_restores_slice F (facts_of tid content (Some m)) (Invariants.run_ops ops)
                (Invariants.covered_reachable ops) eq_refl) as H.
  apply (f_equal Scan.sl_defs) in H. exact H.
Qed.
Print Assumptions C03_index_holds_the_items.

(** ** what the faithful model still gets wrong (known finding C03-yield-expression):
    a yield that is not an expression statement of its own *)
Definition gen_assign : list stmt :=
  [SAssign [EName "got" 5 4 7] (EYield (Some (EConst "Int(1)")) 5) 5].
Lemma C03_refuted_yield_expression :
  spec_is_generator gen_assign = true /\ spec_yield_line gen_assign = Some 5%N
  /\ contains_yield gen_assign = false /\ find_yield_line gen_assign = None.
Proof. repeat split; vm_compute; reflexivity. Qed.

(** ** what the three repairs changed *)
Definition gen_async_with : list stmt := [SWith true [(EName "ctx" 5 15 18, None)] [SExpr (EYield None 6)] 5].
Lemma C03_old_contains_yield_refuted :
  contains_yield_old gen_async_with = false /\ contains_yield gen_async_with = true
  /\ spec_is_generator gen_async_with = true.
Proof. repeat split; vm_compute; reflexivity. Qed.
Lemma C03_old_forward_reference_refuted :
  expr_to_string_old (EStr "Session" 4 12 4 21) = "Str(""Session"")"
  /\ expr_to_string (EStr "Session" 4 12 4 21) = "Session".
Proof. split; vm_compute; reflexivity. Qed.

(** non-vacuity: a module with a class-nested aliased generator fixture, an
    assignment-style fixture, a helper and a test *)
Definition ex_module : list stmt :=
  [SClassDef "TestA" []
     [SFunctionDef false "make_db" [ECall (EAttr (EName "pytest" 3 5 11) "fixture") [] [(Some "name", EStr "db" 3 25 3 29); (Some "scope", EStr "Module" 3 37 3 45)]]
        [mk_arg "self" 4 16 false false; mk_arg "cfg" 4 22 false false; mk_arg "opt" 4 27 true false]
        (Some (ESubscript (EName "Iterator" 4 40 48) (EName "Db" 4 49 51)))
        [SExpr (EYield None 5)] 4 5];
   SAssign [EName "fx" 7 0 2] (ECall (ECall (EName "fixture" 7 5 12) [] []) [EName "make" 7 15 19] []) 7;
   SFunctionDef false "helper" [] [mk_arg "db" 9 11 false false] None [SReturn None] 9 10;
   SFunctionDef false "test_x" [] [mk_arg "db" 12 11 false false] None [SReturn None] 12 13].
Example C03_example :
  Forall fixtures_ok (flat_map collected ex_module)
  /\ map (fun sd => (sd_name sd, sd_deps sd, sd_scope sd, sd_yield sd, sd_ret sd)) (spec_defs ex_module)
     = [("db", ["cfg"], 2%N, Some 5%N, Some "Db"); ("fx", [], 0%N, None, None)]
  /\ spec_requests true ex_module = [("cfg", 4%N); ("db", 12%N)].
Proof.
  split; [|split; vm_compute; reflexivity].
  repeat constructor; cbn; intros; try exact I; split; vm_compute; reflexivity.
Qed.

Check C03_definitions_exact :
  forall content m,
    Forall fixtures_ok (flat_map collected m) ->
    map ldef_core (item_defs (flat_map (visit_stmt content) m)) = map sdef_core (spec_defs m).
