(** * C14 — imported and plugin fixtures are discovered transitively and classified.
    Statements only. *)
From PLS Require Import Spec.ImportsSpec Proofs.Basics Proofs.ScanImports.

(** ** transitive discovery *)
(** On ANY tree and ANY import graph — chains, diamonds, cycles; star imports, explicit
    imports, pytest_plugins entries; relative or absolute, modules or packages, resolved
    upward, in site-packages or in editable roots — the import scan analyses exactly the
    files it started from and everything reachable from them.
    (The hypotheses hold after phases 2 and 3: they only analyse existing files that are
    test / conftest files, lie below site-packages or an editable root, or are marked as
    plugin files; and every file they mark they also analyse.) *)
Theorem C14_import_scan_reaches_closure :
  forall fd sp dists pths st st',
    (forall q, In q (ss_cached st) -> file_exists fd q = true) ->
    (forall q, In q (ss_cached st) -> In q (seed_files fd sp dists pths st)) ->
    (forall q, In q (ss_plugin st) -> In q (ss_cached st)) ->
    import_scan_opt fd sp dists pths st = Some st' ->
    forall q, In q (ss_cached st') <-> reach fd sp dists pths (seed_files fd sp dists pths st) q.
Proof. exact import_scan_reaches_closure. Qed.
Print Assumptions C14_import_scan_reaches_closure.

(** ... and the scan always converges: every round that goes on analyses a file that was not
    analysed, or walks again a file that was not a plugin file before; the fuel of the model
    (two more than twice the number of files) is never exhausted. *)
Theorem C14_import_scan_converges :
  forall fd sp dists pths st, import_scan_opt fd sp dists pths st <> None.
Proof. exact import_scan_converges. Qed.
Print Assumptions C14_import_scan_converges.

(** Plugin status: the scan marks EXACTLY the plugin files it started from and everything
    reachable from them through star imports and pytest_plugins entries (an explicit import
    never hands it on) — in whatever order the files of a round are visited. *)
Theorem C14_plugin_marks_exact :
  forall fd sp dists pths st st',
    (forall q, In q (ss_cached st) -> file_exists fd q = true) ->
    (forall q, In q (ss_cached st) -> In q (seed_files fd sp dists pths st)) ->
    (forall q, In q (ss_plugin st) -> In q (ss_cached st)) ->
    import_scan_opt fd sp dists pths st = Some st' ->
    forall q, In q (ss_plugin st') <-> plugin_reach fd sp dists pths (ss_plugin st) q.
Proof. exact import_scan_plugin_closure. Qed.
Print Assumptions C14_plugin_marks_exact.

(** End to end, with NO hypothesis about the intermediate state: for whatever files phase 1
    selected (test / conftest names), phases 2 to 4 terminate, analyse exactly what is
    reachable from the selected files and the entry-point plugin files, and mark as plugin
    files exactly the entry-point plugin files and their hand-on closure. *)
Theorem C14_scan_end_to_end :
  forall fd sp dists pths selected,
    (forall p, In p selected -> (match p with n :: _ => is_test_file_name n | [] => false end) = true) ->
    let st3 := venv_scan fd sp dists pths (fold_left (fun st p => analyse fd p st) selected (mk_sst [] [])) in
    exists st', import_scan_opt fd sp dists pths st3 = Some st'
                /\ (forall q, In q (ss_cached st') <-> reach fd sp dists pths (seed_files fd sp dists pths st3) q)
                /\ (forall q, In q (ss_plugin st') <-> plugin_reach fd sp dists pths (ss_plugin st3) q).
Proof. exact scan_end_to_end. Qed.
Print Assumptions C14_scan_end_to_end.

(** Resolution of an import only looks at the tree (so the three walkers — scanner,
    resolver, completion — see the same graph), and only ever names files that exist. *)
Theorem C14_resolution_is_state_independent :
  forall fd sp dists pths st F, targets fd sp dists pths st F = targets fd sp dists pths (all_cached fd) F.
Proof. exact targets_indep_full. Qed.
Theorem C14_resolved_targets_exist :
  forall fd sp dists pths F T, In T (succ fd sp dists pths F) -> file_exists fd T = true.
Proof. exact succ_exists. Qed.

(** ** classification *)
(** third-party = below a site-packages directory (seen from the workspace root) or below
    an editable root that neither lies in the workspace nor contains it *)
Theorem C14_third_party_table :
  forall fd ws sp dists pths F,
    third_party fd ws sp dists pths F
    = (in_site_packages ws F
       || match List.find (fun r => starts_with F r) (editable_roots fd sp dists pths) with
          | Some r => negb (starts_with r ws || path_eqb r ws) && negb (starts_with ws r || path_eqb ws r)
          | None => false
          end).
Proof. exact third_party_table. Qed.
Theorem C14_workspace_file_not_third :
  forall fd ws sp dists pths F,
    starts_with F ws = true ->
    existsb (String.eqb site_packages) (firstn (length F - length ws) F) = false ->
    (forall r, In r (editable_roots fd sp dists pths) -> starts_with F r = true ->
               starts_with r ws = true \/ r = ws \/ starts_with ws r = true) ->
    third_party fd ws sp dists pths F = false.
Proof. exact workspace_file_not_third. Qed.
Print Assumptions C14_workspace_file_not_third.

(** ** the metadata read on the way *)
(** entry_points.txt: exactly the [k = v] lines of the pytest11 section *)
Theorem C14_entry_points_in_section :
  forall body tail,
    forallb (fun l => negb (is_header l)) body = true ->
    entry_points_loop (body ++ tail) true = flat_map entry_of_line body ++ entry_points_loop tail true.
Proof. exact entry_points_in_section. Qed.
Theorem C14_entry_points_outside_section :
  forall body tail,
    forallb (fun l => negb (is_header l)) body = true ->
    entry_points_loop (body ++ tail) false = entry_points_loop tail false.
Proof. exact entry_points_outside_section. Qed.
(** the last assignment to pytest_plugins wins *)
Theorem C14_last_pytest_plugins_wins :
  forall before targets v line after,
    existsb (is_name "pytest_plugins") targets = true ->
    forallb (fun st => negb (assigns_plugins st)) after = true ->
    pytest_plugins (before ++ SAssign targets v line :: after) = plugin_strings v.
Proof. exact last_pytest_plugins_wins. Qed.
Print Assumptions C14_last_pytest_plugins_wins.

(** non-vacuity: a conftest star-imports a helper that star-imports a third module which
    imports the first back (a cycle); the scan analyses all three and converges *)
Definition ex_facts (edges : list edge) : facts := mk_facts true 1 [] [] [] edges.
Definition ex_fd : list (path * facts) :=
  [(["conftest.py"; "ws"], ex_facts [mk_edge 1 ["h1"] Star]);
   (["h1.py"; "ws"], ex_facts [mk_edge 1 ["h2"] Star]);
   (["h2.py"; "ws"], ex_facts [mk_edge 1 ["h1"] Star; mk_edge 1 ["h3"] (Names ["x"])]);
   (["h3.py"; "ws"], ex_facts []);
   (["unrelated.py"; "ws"], ex_facts [])].
Example C14_example :
  option_map (@ss_cached) (import_scan_opt ex_fd None [] [] (mk_sst [["conftest.py"; "ws"]] []))
  = Some [["conftest.py"; "ws"]; ["h1.py"; "ws"]; ["h2.py"; "ws"]; ["h3.py"; "ws"]].
Proof. vm_compute. reflexivity. Qed.

(** what repair 92543e7 changed: a library a conftest imports directly and a plugin imports
    through a longer chain used to be walked before it was marked, so what IT star-imports
    never became a plugin file (in this visiting order; in another it did) *)
Definition old_fd : list (path * facts) :=
  [(["conftest.py"; "t"], ex_facts [mk_edge 0 ["lib"] Star]);
   (["plugin.py"; "t"], ex_facts [mk_edge 1 ["l1"] Star]);
   (["l1.py"; "t"], ex_facts [mk_edge 1 ["lib"] Star]);
   (["lib.py"; "t"], ex_facts [mk_edge 1 ["lib2"] Star]);
   (["lib2.py"; "t"], ex_facts [])].
Definition old_st : sst := mk_sst [["conftest.py"; "t"]; ["plugin.py"; "t"]] [["plugin.py"; "t"]].
Lemma C14_old_plugin_marks_refuted :
  option_map (@ss_plugin) (import_scan_old old_fd None [] [] old_st)
  = Some [["plugin.py"; "t"]; ["l1.py"; "t"]; ["lib.py"; "t"]]
  /\ option_map (@ss_plugin) (import_scan_opt old_fd None [] [] old_st)
     = Some [["plugin.py"; "t"]; ["l1.py"; "t"]; ["lib.py"; "t"]; ["lib2.py"; "t"]].
Proof. split; vm_compute; reflexivity. Qed.

Check C14_import_scan_reaches_closure :
  forall fd sp dists pths st st',
    (forall q, In q (ss_cached st) -> file_exists fd q = true) ->
    (forall q, In q (ss_cached st) -> In q (seed_files fd sp dists pths st)) ->
    (forall q, In q (ss_plugin st) -> In q (ss_cached st)) ->
    import_scan_opt fd sp dists pths st = Some st' ->
    forall q, In q (ss_cached st') <-> reach fd sp dists pths (seed_files fd sp dists pths st) q.
