(** * C19 — published diagnostics track the latest content and the configuration.
    Statements only. *)
From PLS Require Import Check.C19 Model.History Proofs.Lsp.

(** after every open / change — any history of any documents, valid or not — what the
    client last received for the notified document is the publish function of the
    post-analysis index *)
Theorem C19_published_is_latest :
  forall cfg h F v,
    alookup F (ls_published (run_notifications cfg (h ++ [(F, v)])))
    = Some (publish [] [] cfg (ls_index (run_notifications cfg (h ++ [(F, v)]))) F).
Proof. exact published_is_latest. Qed.
Print Assumptions C19_published_is_latest.

(** the published set is exactly the findings (undeclared, cycles, scope mismatches, in
    that order) minus the disabled codes: nothing disabled is published, nothing
    enabled is lost *)
Theorem C19_published_is_filtered_findings :
  forall dk roots s F cfg,
    publish dk roots cfg s F
    = filter (fun d => negb (is_disabled cfg (dg_code d))) (findings dk roots s F).
Proof. exact publish_is_filtered_findings. Qed.
Theorem C19_nothing_disabled_is_published :
  forall dk roots s F cfg d, In d (publish dk roots cfg s F) -> is_disabled cfg (dg_code d) = false.
Proof. exact nothing_disabled_is_published. Qed.
Print Assumptions C19_published_is_filtered_findings.

(** the undeclared-fixture findings of the notified document are those of a server
    started fresh on the latest valid contents — a removed cause cannot leave a stale
    warning behind (from C06) *)
Theorem C19_undeclared_equals_fresh :
  forall cfg h F v, f_ok v = true ->
    undeclared_of_file (ls_index (run_notifications cfg (h ++ [(F, v)]))) F
    = undeclared_of_file (run_hist (start []) (last_valid (h ++ [(F, v)]))) F.
Proof. exact published_undeclared_equals_fresh. Qed.
Print Assumptions C19_undeclared_equals_fresh.

(** the cycle list published after a notification is always recomputed: the memo of
    detect_fixture_cycles can never serve the previous content's list *)
Theorem C19_cycles_recomputed_after_every_notification :
  forall dk roots c F v s, cyc_bounded s ->
    cycles dk roots (analyze c F v s) = cycles_cold dk roots (analyze c F v s).
Proof. exact cycles_after_notification_are_recomputed. Qed.
Theorem C19_cycle_memo_stays_bounded :
  forall dk roots c F v s, cyc_bounded s ->
    cyc_bounded (analyze c F v s) /\ cyc_bounded (post_cycles dk roots s).
Proof. intros. split; [now apply cyc_bounded_analyze|now apply cyc_bounded_post_cycles]. Qed.
Print Assumptions C19_cycles_recomputed_after_every_notification.

(** configuration: unknown codes and invalid patterns are ignored one by one, valid
    elements are kept in order, a code is disabled iff it is listed *)
Theorem C19_unknown_code_ignored :
  forall glob_valid ex a bad b, mem_str bad valid_diagnostic_codes = false ->
    from_raw glob_valid ex (a ++ bad :: b) = from_raw glob_valid ex (a ++ b).
Proof. exact unknown_code_ignored. Qed.
Theorem C19_invalid_pattern_ignored :
  forall glob_valid dis a bad b, glob_valid bad = false ->
    from_raw glob_valid (a ++ bad :: b) dis = from_raw glob_valid (a ++ b) dis.
Proof. exact invalid_pattern_ignored. Qed.
Theorem C19_valid_config_kept :
  forall glob_valid ex dis,
    (forall p, In p ex -> glob_valid p = true) ->
    (forall c, In c dis -> mem_str c valid_diagnostic_codes = true) ->
    from_raw glob_valid ex dis = mk_config ex dis.
Proof. exact valid_config_kept. Qed.
Theorem C19_disabled_iff_listed :
  forall glob_valid ex dis c, is_disabled (from_raw glob_valid ex dis) c = mem_str (code_string c) dis.
Proof. exact disabled_iff_listed. Qed.
Theorem C19_default_config_disables_nothing : forall c, is_disabled default_config c = false.
Proof. reflexivity. Qed.
Print Assumptions C19_unknown_code_ignored.
Print Assumptions C19_disabled_iff_listed.

(** non-vacuity: a test that uses a conftest fixture without declaring it is warned
    about; with the code disabled nothing is published; an unknown code changes nothing *)
Definition cft := ["conftest.py"; "w"].
Definition tst := ["test_x.py"; "w"].
Definition v_cft := mk_facts true 1 [] [] [IDef (mk_ldef "db" 4 5 4 6 None None [] 0 None false)] [].
Definition v_tst := mk_facts true 2 [] []
  [IBody (mk_body [] [] "test_x" 3 [mk_bname "db" 4 8 10])] [].
Example C19_example :
  map dg_code (findings [] [] (ls_index (run_notifications default_config [(cft, v_cft); (tst, v_tst)])) tst) = [DUndeclared]
  /\ alookup tst (ls_published (run_notifications (from_raw (fun _ => true) [] ["undeclared-fixture"]) [(cft, v_cft); (tst, v_tst)])) = Some []
  /\ from_raw (fun _ => true) [] ["bogus"; "scope-mismatch"] = from_raw (fun _ => true) [] ["scope-mismatch"].
Proof. repeat split; vm_compute; reflexivity. Qed.

Check C19_published_is_latest :
  forall cfg h F v,
    alookup F (ls_published (run_notifications cfg (h ++ [(F, v)])))
    = Some (publish [] [] cfg (ls_index (run_notifications cfg (h ++ [(F, v)]))) F).
