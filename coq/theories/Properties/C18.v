(** * C18 — completion offers exactly the usable fixtures, only where they can be requested.
    Statements only. *)
From PLS Require Import Spec.CompletionSpec Proofs.Basics Proofs.Completion.
Open Scope N_scope.

(** ** what is offered *)
(** Exactly the available fixtures that the context does not exclude. *)
Theorem C18_offered_exact :
  forall avail F c d,
    In d (offered avail F c) <->
    In d avail /\ (let '(declared, cur, sc) := ctx_filter c in excluded d declared cur sc = false).
Proof. exact offered_exact. Qed.
(** Never a declared parameter, self / cls, the fixture being edited, or — inside a fixture —
    a fixture of narrower scope. *)
Theorem C18_offered_respects_context :
  forall avail F fn line isf declared sc d,
    In d (offered avail F (CSig fn line isf declared sc)) \/ In d (offered avail F (CBody fn line isf declared sc)) ->
    mem_str (d_name d) declared = false
    /\ d_name d <> "self" /\ d_name d <> "cls"
    /\ (isf = true -> d_name d <> fn)
    /\ (forall s, sc = Some s -> s <= d_scope d).
Proof. exact offered_respects_context. Qed.
(** Every name once, in every index state (with C05: one entry per visible name). *)
Theorem C18_offered_one_entry_per_name :
  forall dk roots s F c, NoDup (map d_name (offered (available_cold dk roots s F) F c)).
Proof. exact offered_from_index_one_entry_per_name. Qed.
Print Assumptions C18_offered_one_entry_per_name.
(** Sort keys: same file < conftest / project < plugin < third party, by name inside a group. *)
Theorem C18_sort_priority_monotone :
  forall F a b, priority F a < priority F b -> String.ltb (sort_text F a) (sort_text F b) = true.
Proof. exact sort_priority_monotone. Qed.
Theorem C18_sort_same_group_by_name :
  forall F a b, priority F a = priority F b ->
                String.compare (sort_text F a) (sort_text F b) = String.compare (d_name a) (d_name b).
Proof. exact sort_same_group_by_name. Qed.
Print Assumptions C18_sort_priority_monotone.

(** ** where it is offered *)
(** For every line of every well-formed layout — any nesting of classes, any decorators,
    multi-line signatures, any text — the AST path answers with a classification the
    documented rule accepts: nothing outside collected test / fixture functions and mark
    argument lists; the spanning function, as signature or body where the boundary allows;
    a usefixtures list; or a parametrize mark that has an [indirect] keyword. *)
Theorem C18_ast_context_meets_spec :
  forall ls m l,
    Forall wf_stmt (flat_map ccollected m) ->
    existsb (expect_eqb (expect_of (ast_ctx ls m l))) (spec_expect m l) = true.
Proof. exact ast_ctx_meets_spec. Qed.
Print Assumptions C18_ast_context_meets_spec.

(** The text fallback (partial: its kinds, not its exact answer): it only ever answers with a
    usefixtures context or — and only when the document does NOT parse — with the signature
    of a def on or above the cursor line. *)
Theorem C18_text_fallback_kinds_partial :
  forall fixed parsed_ok content l c,
    text_ctx_with fixed parsed_ok content l = Some c ->
    c = CUse \/ (fixed && parsed_ok = false /\ exists fn line isf ps sc, c = CSig fn line isf ps sc /\ line <= l).
Proof. exact text_ctx_kinds. Qed.

(** While `def test_x(a, b` is being typed on the last line of a document that does not parse —
    any whitespace indentation, ANY non-empty run of white space behind the keyword (one blank,
    several, a tab: since fix aeb5786), any identifier starting with test_, any parameter text
    without parentheses, anything above that does not mention usefixtures( — the fallback
    answers with EXACTLY the signature context of that function: name, line, whether a
    fixture decorator stands above, the parameters typed so far, the decorator's scope. *)
Theorem C18_typed_signature_context :
  forall (content : text) (above : list text) (indent gap name ptext line : text),
    line = indent ++ s_kw_def ++ gap ++ name ++ 40 :: ptext ->
    text_lines content = above ++ [line] ->
    (forall ln, In ln (above ++ [line]) -> Text.find s_usefixtures ln = None) ->
    forallb is_ws indent = true ->
    gap <> [] -> forallb is_ws gap = true ->
    name <> [] -> forallb ident_char name = true -> tprefix s_test name = true ->
    no_parens indent = true -> no_parens gap = true -> no_parens ptext = true ->
    text_ctx_with true false content (len above + 1)
    = Some (CSig (utf8_encode name) (len above + 1)
                 (has_fixture_decorator_above (rev above))
                 (declared_from_text [line])
                 (if has_fixture_decorator_above (rev above)
                  then Some (match scope_from_text (rev above) with Some s => s | None => 0 end) else None)).
Proof. exact typed_signature_context. Qed.
Print Assumptions C18_typed_signature_context.
(** before that fix the keyword had to be followed by exactly one space and the name at once:
    two blanks (or a tab) behind [def] gave no context at all *)
Lemma C18_def_gap_old_refuted :
  text_ctx_with_old_kw true false (utf8_decode "def  test_new(db, ") 1 = None /\
  text_ctx_with true false (utf8_decode "def  test_new(db, ") 1 = Some (CSig "test_new" 1 false ["db"] None).
Proof. split; vm_compute; reflexivity. Qed.

(** a [pytest_asyncio.fixture] decorator above the header counts as a fixture decorator (since fix
    1e3dfbe; the analyzer has always recognised it): the signature of such a fixture gets its context
    while it is being typed *)
Lemma C18_asyncio_decorator_old_refuted :
  has_fixture_decorator_above_old [utf8_decode "@pytest_asyncio.fixture"] = false /\
  has_fixture_decorator_above [utf8_decode "@pytest_asyncio.fixture"] = true /\
  text_ctx_with true false (utf8_decode "@pytest_asyncio.fixture(scope=""module"")
async def fx_new(db, ") 2 = Some (CSig "fx_new" 2 true ["db"] (Some 2)).
Proof. repeat split; vm_compute; reflexivity. Qed.

(** the scope read from the decorator text is that of the [scope=] keyword itself, not of a
    longer keyword ending in it (since fix 7721f5d): pytest-asyncio's [loop_scope="session"] leaves
    the fixture function-scoped *)
Lemma C18_loop_scope_old_refuted :
  scope_from_text_old [utf8_decode "@pytest_asyncio.fixture(loop_scope=""session"")"] = Some 4 /\
  scope_from_text [utf8_decode "@pytest_asyncio.fixture(loop_scope=""session"")"] = None /\
  scope_from_text [utf8_decode "@pytest_asyncio.fixture(loop_scope=""session"", scope=""module"")"] = Some 2.
Proof. repeat split; vm_compute; reflexivity. Qed.

Theorem C18_scope_keyword_not_inside_identifier :
  forall pat t fuel from p,
    find_kw fuel pat t from = Some p ->
    exists pre, slice_to t p = Some pre /\ match rev pre with c :: _ => ident_char c = false | [] => True end.
Proof. exact find_kw_not_inside_identifier. Qed.
Print Assumptions C18_scope_keyword_not_inside_identifier.

(** a decorator call spanning several lines above the header (since fix 8c78806): its argument
    lines are walked over, the decorator and its scope are found *)
Lemma C18_multi_line_decorator_old_refuted :
  let above := [utf8_decode ")"; utf8_decode "    scope=""module"","; utf8_decode "@pytest.fixture("; utf8_decode "import pytest"] in
  has_fixture_decorator_above_one_line above = false /\
  has_fixture_decorator_above above = true /\
  scope_from_text_one_line above = None /\
  scope_from_text above = Some 2.
Proof. repeat split; vm_compute; reflexivity. Qed.

(** the parameters typed so far, on an instance *)
Example C18_declared_from_text_example :
  declared_from_text [utf8_decode "    def test_x(db, client: int = 3, *, cfg"] = ["db"; "client"; "cfg"].
Proof. vm_compute. reflexivity. Qed.

(** ** witnesses *)
Definition txt (s : string) : text := utf8_decode s.
Definition nl : string := String (Ascii.ascii_of_nat 10) EmptyString.

(** typing a signature: what the fallback returns on the line being typed *)
Example C18_typing_signature :
  completion_ctx (txt ("import pytest" ++ nl ++ nl ++ "@pytest.fixture(scope=""module"")" ++ nl ++ "def fx_new(db, client: int, ")) None 3
  = Some (CSig "fx_new" 4 true ["db"; "client"] (Some 2)).
Proof. vm_compute. reflexivity. Qed.

(** fix ffc6949: a closed usefixtures call above no longer captures the signature being typed *)
Definition doc_B : text :=
  txt ("@pytest.mark.usefixtures('cfg', 'db')" ++ nl ++ "def test_9(cfg):" ++ nl ++ "    pass" ++ nl ++ nl ++ "def test_new(").
Lemma C18_usefixtures_above_old_refuted :
  completion_ctx_old doc_B None 4 = Some CUse
  /\ completion_ctx doc_B None 4 = Some (CSig "test_new" 5 false [] None).
Proof. split; vm_compute; reflexivity. Qed.

(** fix aedb37b: in a document that parses, a test_* function nested in a plain function gets
    no context (the old fallback answered with a signature) *)
Definition doc_A : text := txt ("def helper(x):" ++ nl ++ "    def test_inner(q):" ++ nl ++ "        return q" ++ nl).
Definition lay_A : list cstmt := [CFun "helper" [] ["x"] (Some 1) (Some 2) 1 3].
Lemma C18_fallback_on_valid_old_refuted :
  completion_ctx_old doc_A (Some lay_A) 1 = Some (CSig "test_inner" 2 false ["q"] None)
  /\ completion_ctx doc_A (Some lay_A) 1 = None
  /\ spec_expect lay_A 2 = [ENone].
Proof. repeat split; vm_compute; reflexivity. Qed.

(** fix 7464d3b: a comment behind the def's colon and a first body statement ending with a colon *)
Definition doc_C : list text := lines (txt ("def test_cm(db):  # why" ++ nl ++ "    if db:" ++ nl ++ "        pass" ++ nl)).
Lemma C18_signature_end_old_refuted :
  signature_end_line_old doc_C 1 (Some 1) (Some 2) = 2 /\ signature_end_line doc_C 1 (Some 1) (Some 2) = 1.
Proof. split; vm_compute; reflexivity. Qed.

(** fix e3a98b7: a parametrize mark without [indirect] no longer yields a context (the old
    decorator test answered on every parametrize decorator) *)
Definition dec_P : cdec :=
  mk_cdec (ECall (EAttr (EAttr (EName "pytest" 1 1 7) "mark") "parametrize") [EStr "db" 1 25 1 29] []) 1 1.
Definition lay_P : list cstmt := [CFun "test_plain" [dec_P] ["db"] (Some 2) (Some 3) 2 3].
Lemma C18_parametrize_plain_old_refuted :
  dec_ctx_old 1 dec_P = Some CParam /\ dec_ctx 1 dec_P = None
  /\ ast_ctx [] lay_P 1 = None /\ spec_expect lay_P 1 = [ENone].
Proof. repeat split; vm_compute; reflexivity. Qed.

(** non-vacuity: a fixture of module scope edits its parameters; what it is offered *)
Example C18_example :
  let d := fun n sc f third => mk_fdef n f 1 2 4 6 None None third false [] sc None false in
  let F := ["test_a.py"; "t"] in
  let avail := [d "db" 4 ["conftest.py"; "t"] false; d "fn_scoped" 0 ["conftest.py"; "t"] false;
                d "mine" 2 F false; d "other" 2 F false; d "ext" 4 ["p.py"; "site-packages"] true] in
  offered_items avail F (CSig "mine" 3 true ["other"] (Some 2))
  = [("db", "1_db"); ("ext", "3_ext")].
Proof. vm_compute. reflexivity. Qed.

Check C18_ast_context_meets_spec :
  forall ls m l, Forall wf_stmt (flat_map ccollected m) ->
                 existsb (expect_eqb (expect_of (ast_ctx ls m l))) (spec_expect m l) = true.
