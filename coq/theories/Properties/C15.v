(** * C15 — reported positions identify exactly the right tokens.  Statements only. *)
From PLS Require Import Model.Ranges Model.Analyzer Proofs.TextFns Proofs.Positions Proofs.LineIndex.
Open Scope N_scope.

(** ** what "covers exactly the token, in UTF-16 columns" means, and when byte columns do *)
(** The UTF-16 columns of a token standing alone mark it (the specification is satisfiable
    by every token of every line) ... *)
Theorem C15_exact_token_is_marked :
  forall pre tok post,
    ends_ident pre = false -> starts_ident post = false ->
    marks_on_line (pre ++ tok ++ post) (len16 pre) (len16 pre + len16 tok) tok = true.
Proof. exact marks_exact_token. Qed.
(** ... and so do its BYTE columns — which is what the server sends — on every line whose
    text up to the end of the token is ASCII, whatever follows. *)
Theorem C15_byte_columns_mark_ascii :
  forall pre tok post,
    ascii (pre ++ tok) = true -> ends_ident pre = false -> starts_ident post = false ->
    marks_on_line (pre ++ tok ++ post) (blen pre) (blen pre + blen tok) tok = true.
Proof. exact byte_columns_mark_ascii. Qed.
Print Assumptions C15_byte_columns_mark_ascii.
(** Known finding C15-byte-columns: with a non-ASCII character before the token the byte
    columns select something else. *)
Lemma C15_byte_columns_refuted :
  let line := [115; 32; 61; 32; 34; 233; 34; 59; 32; 100; 98] in
  marks_on_line line 9 11 [100; 98] = true /\ blen (firstn 9 line) = 10 /\ marks_on_line line 10 12 [100; 98] = false.
Proof. exact byte_columns_refuted. Qed.

(** ** name spans placed by textual search *)
(** Definition lines: for EVERY line of the shape  lead "def " spaces name rest  whose lead
    (indentation, "async ", decorators on the same line ... anything without a 'd') and
    spaces do not show the first character searched for, the span recorded for the
    definition is exactly the name's. *)
Theorem C15_def_name_span_exact :
  forall content line lead sp c0 p rest,
    nth_opt (lines content) (line - 1) = Some (lead ++ def_sp ++ sp ++ (c0 :: p) ++ rest) ->
    forallb (fun c => negb (100 =? c)) lead = true ->
    forallb (fun c => negb (c0 =? c)) sp = true ->
    find_function_name_position content line (c0 :: p)
    = Ok (blen lead + 4 + blen sp, blen lead + 4 + blen sp + blen (c0 :: p)).
Proof. exact def_name_span_exact. Qed.
Print Assumptions C15_def_name_span_exact.

(** the same for a TAB behind the keyword (since fix faffab5), on a line showing no "def " *)
Theorem C15_def_name_span_exact_tab :
  forall content line lead sp c0 p rest,
    nth_opt (lines content) (line - 1) = Some (lead ++ def_tab ++ sp ++ (c0 :: p) ++ rest) ->
    find def_sp (lead ++ def_tab ++ sp ++ (c0 :: p) ++ rest) = None ->
    forallb (fun c => negb (100 =? c)) lead = true ->
    forallb (fun c => negb (c0 =? c)) sp = true ->
    find_function_name_position content line (c0 :: p)
    = Ok (blen lead + 4 + blen sp, blen lead + 4 + blen sp + blen (c0 :: p)).
Proof. exact def_name_span_exact_tab. Qed.
Print Assumptions C15_def_name_span_exact_tab.

(** before that fix: [def<TAB>e():] marks the [e] of the keyword *)
Lemma C15_def_tab_old_refuted :
  let content := [100; 101; 102; 9; 101; 40; 41; 58] in
  find_function_name_position_old content 1 [101] = Ok (1, 2)
  /\ find_function_name_position content 1 [101] = Ok (4, 5)
  /\ marks_on_line content 4 5 [101] = true.
Proof. exact def_tab_old_refuted. Qed.

(** String usages (usefixtures / parametrize-indirect): whatever span [string_usage_span]
    finds inside a literal — any prefix, quote style, comma-separated list — is the name
    as a whole token, in the literal's own columns and, shifted by the literal's column,
    on its line (ASCII up to the end of the name). *)
Theorem C15_string_usage_token :
  forall nm fuel src from at_,
    find_token fuel nm src from = Some at_ ->
    exists pre post, src = pre ++ nm ++ post /\ blen pre = at_ /\ from <= at_
                     /\ ends_ident pre = false /\ starts_ident post = false.
Proof. exact find_token_sound. Qed.
Theorem C15_string_usage_marks :
  forall nm fuel src from at_ linepre rest,
    find_token fuel nm src from = Some at_ -> 0 < from ->
    ascii (linepre ++ src) = true ->
    (forall pre post, src = pre ++ nm ++ post -> blen pre = at_ -> post <> []) ->
    marks_on_line (linepre ++ src ++ rest) (blen linepre + at_) (blen linepre + at_ + blen nm) nm = true.
Proof. exact string_usage_marks. Qed.
Print Assumptions C15_string_usage_marks.

(** ** structural rules *)
(** Document symbols and call-hierarchy items: both ranges are well formed and the
    selection range lies inside the full range — for every definition span, single-line
    or not. *)
Theorem C15_symbol_ranges_nested :
  forall line eline s e last_len,
    s <= e ->
    well_formed (name_range line s e) = true
    /\ well_formed (symbol_full line eline e last_len) = true
    /\ inside (name_range line s e) (symbol_full line eline e last_len) = true.
Proof. exact symbol_ranges_nested. Qed.
Theorem C15_item_ranges_nested :
  forall line s e,
    s <= e -> well_formed (item_full line e) = true /\ inside (name_range line s e) (item_full line e) = true.
Proof. exact item_ranges_nested. Qed.
Print Assumptions C15_symbol_ranges_nested.

(** The line reported for a parser offset is the line the offset is on: one more than the
    number of newlines before it, for every text and every offset on a character boundary. *)
Theorem C15_line_of_offset_correct :
  forall a b, line_of_offset (build_line_index (a ++ b)) (blen a) = 1 + count_nl a.
Proof. exact line_of_offset_correct. Qed.
Print Assumptions C15_line_of_offset_correct.

(** ... and the column is the number of bytes since that line began: for every text split as
    [pre ++ cur ++ rest] with [pre] empty or ending in a line feed and [cur] free of line
    feeds, the offset at the end of [cur] is reported on line 1 + (line feeds in [pre]), the
    line start looked up for it is [blen pre], so the column is [blen cur] - any character
    widths, CR LF line ends (the CR stays on its line), with or without a final line feed *)
Theorem C15_offset_to_position_exact :
  forall pre cur rest,
    ends_with_lf pre -> count_lf cur = 0 ->
    let index := build_line_index (pre ++ cur ++ rest) in
    let line := line_of_offset index (blen pre + blen cur) in
    line = 1 + count_lf pre /\
    (usub line 1 >>= idx index) = Ok (blen pre) /\
    (blen pre + blen cur) - blen pre = blen cur.
Proof. exact offset_to_position_exact. Qed.
Print Assumptions C15_offset_to_position_exact.

(** ** what the four repairs changed, and what seeded change S14 would do *)
Lemma C15_string_span_old_refuted :
  let content := [64; 117; 40; 114; 34; 100; 98; 34; 41; 10] in
  str_span content "db" 1 3 1 8 = (5, 7)
  /\ marks_on_line [64; 117; 40; 114; 34; 100; 98; 34; 41] 5 7 [100; 98] = true
  /\ marks_on_line [64; 117; 40; 114; 34; 100; 98; 34; 41] 4 7 [100; 98] = false.
Proof. exact string_span_old_refuted. Qed.
Lemma C15_symbol_ranges_old_refuted :
  inside (name_range 21 4 11) (symbol_full_old 21 21) = false
  /\ inside (name_range 21 4 11) (item_full_old 21) = false
  /\ inside (name_range 21 4 11) (symbol_full 21 21 11 22) = true.
Proof. exact symbol_ranges_old_refuted. Qed.
Lemma C15_def_name_span_alias_refuted :
  let content := [100; 101; 102; 32; 109; 97; 107; 101; 95; 100; 98; 40; 41; 58] in
  find_function_name_position content 1 [109; 97; 107; 101; 95; 100; 98] = Ok (4, 11)
  /\ marks_on_line content 4 11 [109; 97; 107; 101; 95; 100; 98] = true
  /\ find_function_name_position content 1 [100; 98] = Ok (9, 11)
  /\ marks_on_line content 9 11 [100; 98] = false.
Proof. exact def_name_span_alias_refuted. Qed.

Lemma C15_def_name_search_from_keyword_refuted :
  let content := [100; 101; 102; 32; 101; 40; 102; 41; 58] in
  find_function_name_position content 1 [101] = Ok (4, 5) /\ find [101] content = Some 1.
Proof. exact def_name_search_from_keyword_refuted. Qed.

(** non-vacuity: an indented async definition line *)
Example C15_example :
  let lc := [32; 32; 32; 32] ++ [97; 115; 121; 110; 99; 32] ++ def_sp ++ [32] ++ [105; 110; 110; 101; 114] ++ [40; 41; 58] in   (*     async def  inner(): *)
  find_function_name_position lc 1 [105; 110; 110; 101; 114] = Ok (15, 20)
  /\ marks_on_line lc 15 20 [105; 110; 110; 101; 114] = true.
Proof. split; vm_compute; reflexivity. Qed.

Check C15_byte_columns_mark_ascii :
  forall pre tok post, ascii (pre ++ tok) = true -> ends_ident pre = false -> starts_ident post = false ->
                       marks_on_line (pre ++ tok ++ post) (blen pre) (blen pre + blen tok) tok = true.
