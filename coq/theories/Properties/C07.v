(** * C07 — caching, closing documents and cache eviction are invisible.  Statements only. *)
From PLS Require Import Check.C07 Proofs.Basics Proofs.CacheValid Proofs.ImportClosure Proofs.WarmCold Proofs.WarmCycles.

(** (1)+(2) no memo entry survives a state change: after ANY analysis (clean or fresh,
    parsable or not) and after a close, every entry of the available-fixtures and
    imported-fixtures memos carries an older version.  [bounded] (every entry's version
    <= the current one) is preserved by operations and by queries. *)
Theorem C07_no_entry_survives_an_analysis :
  forall c F v s, bounded s -> no_current (analyze c F v s) /\ bounded (analyze c F v s).
Proof. exact stale_after_analyze. Qed.
Theorem C07_no_entry_survives_a_close :
  forall F s, bounded s -> no_current (close F s) /\ bounded (close F s).
Proof. exact stale_after_close. Qed.
Theorem C07_queries_keep_entries_bounded :
  forall dk roots s F, bounded s ->
    bounded (post_available dk roots s F) /\ bounded (imp_store dk roots s F) /\
    forall files, bounded (touch dk roots s files).
Proof.
  intros dk roots s F H. split; [now apply post_available_bounded|]. split; [now apply imp_store_bounded|].
  intros files. now apply touch_bounded.
Qed.
Print Assumptions C07_no_entry_survives_an_analysis.
Print Assumptions C07_no_entry_survives_a_close.
Print Assumptions C07_queries_keep_entries_bounded.

(** (3) without a current entry every query answers exactly as with all memos
    cleared: resolution (with any filter), the imported-fixture set, the per-file view *)
Theorem C07_warm_equals_cold_after_a_state_change :
  forall dk roots s, no_current s ->
    (forall flt F n, closest_with dk roots s flt F n = closest_with dk roots (cold s) flt F n) /\
    (forall file, imported dk roots s file = imported dk roots (cold s) file) /\
    (forall F, available dk roots s F = available_cold dk roots (cold s) F).
Proof.
  intros dk roots s H. split; [intros; now apply closest_with_cold|].
  split; [intros; now apply imported_cold|intros; now apply available_cold_cold].
Qed.
Print Assumptions C07_warm_equals_cold_after_a_state_change.

(** (4) a memo hit returns the value the missing query computed in the same state *)
Theorem C07_hit_returns_what_the_miss_computed :
  forall dk roots s F, available dk roots (post_available dk roots s F) F = available dk roots s F.
Proof. exact available_hit_same. Qed.
Print Assumptions C07_hit_returns_what_the_miss_computed.

(** (5) what [get_imported_fixtures] computes, with or without memo entries: exactly the
    names supplied along the closure of the resolved star-import graph (any graph: cycles,
    diamonds, self imports), provided every current memo entry holds such a closure *)
Theorem C07_imported_fixtures_are_the_import_closure :
  forall dk roots s, memo_ok dk roots s ->
    forall file n, In n (imported dk roots s file) <-> Cl dk roots s file n.
Proof. exact imported_is_closure. Qed.
Print Assumptions C07_imported_fixtures_are_the_import_closure.

(** (6) Full-strength first sentence: in EVERY state reached from the empty index by analyses
    (clean or scan-style, parsable or not), closes and queries (go-to-definition, resolution,
    per-file view, imported names, references) in ANY interleaving — whatever memo entries
    the earlier queries left behind, for nested modules too — resolution with any filter and
    the import test answer exactly as with all memos cleared, and the per-file view IS the
    cold view (the same list: a list sorted by name with one entry per name is determined by
    what each name denotes) *)
Theorem C07_every_answer_equals_the_cold_answer :
  forall dk roots s, reached dk roots s ->
    (forall flt F n, closest_with dk roots s flt F n = closest_with dk roots (cold s) flt F n) /\
    (forall n file, is_imported dk roots s n file = is_imported dk roots (cold s) n file) /\
    (forall F, available dk roots s F = available_cold dk roots (cold s) F).
Proof. exact warm_equals_cold_everywhere. Qed.
Print Assumptions C07_every_answer_equals_the_cold_answer.

(** (7) the cycle memo as well: in every state reached by analyses, closes, the queries above
    AND cycle-detection queries (each leaving its memo entry and the import-memo entries of the
    resolutions it performs), in any interleaving, all four memoised queries answer as with
    every memo cleared *)
Theorem C07_every_answer_equals_the_cold_answer_with_cycle_queries :
  forall dk roots s, reached2 dk roots s ->
    (forall flt F n, closest_with dk roots s flt F n = closest_with dk roots (cold s) flt F n) /\
    (forall n file, is_imported dk roots s n file = is_imported dk roots (cold s) n file) /\
    (forall F, available dk roots s F = available_cold dk roots (cold s) F) /\
    cycles dk roots s = cycles_cold dk roots (cold s).
Proof. exact warm_equals_cold_everywhere2. Qed.
Print Assumptions C07_every_answer_equals_the_cold_answer_with_cycle_queries.

(** not covered by (6), (7): [mark_plugin]
    (it changes no answer by itself; the plugin flag is read at analysis time).

    Second sentence of the property (closing an unmodified document never changes answers) is FALSE of
    the faithful model: *)
Definition hp := ["helpers.py"; "vq"].
Definition cf := ["conftest.py"; "vq"].
Definition tm := ["test_m.py"; "vq"].
Definition v_hp := mk_facts true 1 [] [] [IDef (mk_ldef "db" 4 5 4 6 None None [] 0 None false)] [].
Definition v_cf := mk_facts true 2 [] [] [] [mk_edge 1 ["helpers"] Star].
Definition v_tm := mk_facts true 3 ["def test_m(db):"; "    pass"] [] [IUse (mk_lusage "db" 1 11 13)] [].
Definition on_disk : disk := [(hp, cached_of v_hp); (cf, cached_of v_cf); (tm, cached_of v_tm)].
Definition scanned := analyze true tm v_tm (analyze true cf v_cf (analyze true hp v_hp empty_index)).
Definition reopened_closed := close cf (analyze true cf v_cf scanned).

Lemma C07_refuted_close_changes_the_view :
  map d_name (available on_disk [] scanned tm) = ["db"] /\
  available on_disk [] reopened_closed tm = [] /\
  K_closed_file reopened_closed [cf] = true /\
  (* while go-to-definition still follows the import (it reads the conftest from disk) *)
  closest on_disk [] reopened_closed tm "db" <> None.
Proof. split; [vm_compute; reflexivity|]. split; [vm_compute; reflexivity|]. split; [vm_compute; reflexivity|vm_compute; discriminate]. Qed.
Print Assumptions C07_refuted_close_changes_the_view.

Example C07_hypotheses_satisfiable : bounded scanned /\ no_current scanned.
Proof. split; split; intros; cbn in *; contradiction. Qed.

(** non-vacuity of (6): a reached state in which both memos hold CURRENT entries (the
    per-file view of the test module was asked once after the scan) *)
Definition warm_state := post_aq7 on_disk [] scanned (AQAvail tm).
Example C07_reached_state_with_current_entries :
  reached on_disk [] warm_state /\ av_hit warm_state tm <> None /\
  (exists c names, content on_disk warm_state cf = Some c /\ imp_hit warm_state cf c = Some names /\ names = ["db"]).
Proof.
  split; [apply r_query; repeat apply r_analyze; apply r_init|].
  split; [vm_compute; discriminate|]. eexists. eexists. split; [vm_compute; reflexivity|]. split; vm_compute; reflexivity.
Qed.

(** non-vacuity of (7): a reached state whose cycle memo holds a CURRENT entry, asked again *)
Definition cyc_state := post_cycles on_disk [] warm_state.
Example C07_reached_state_with_current_cycle_entry :
  reached2 on_disk [] cyc_state /\ cyc_hit cyc_state <> None /\ reached2 on_disk [] (post_cycles on_disk [] cyc_state).
Proof.
  assert (R : reached2 on_disk [] cyc_state).
  { apply r2_cycles. apply r2_query. repeat apply r2_analyze. apply r2_init. }
  split; [exact R|]. split; [vm_compute; discriminate|]. now apply r2_cycles.
Qed.

Check C07_every_answer_equals_the_cold_answer_with_cycle_queries :
  forall dk roots s, reached2 dk roots s ->
    (forall flt F n, closest_with dk roots s flt F n = closest_with dk roots (cold s) flt F n) /\
    (forall n file, is_imported dk roots s n file = is_imported dk roots (cold s) n file) /\
    (forall F, available dk roots s F = available_cold dk roots (cold s) F) /\
    cycles dk roots s = cycles_cold dk roots (cold s).

Check C07_every_answer_equals_the_cold_answer :
  forall dk roots s, reached dk roots s ->
    (forall flt F n, closest_with dk roots s flt F n = closest_with dk roots (cold s) flt F n) /\
    (forall n file, is_imported dk roots s n file = is_imported dk roots (cold s) n file) /\
    (forall F, available dk roots s F = available_cold dk roots (cold s) F).
