(** * C16 — dependency diagnostics are exact and stable (statements only; proofs in Proofs/Cycles.v) *)
From PLS Require Import Check.C16.
Lemma C16_placeholder : True. Proof. exact I. Qed.
Print Assumptions C16_placeholder.
