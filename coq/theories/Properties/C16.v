(** * C16 — dependency diagnostics (cycles, scope mismatches) are exact and stable.
    Statements only. *)
From PLS Require Import Check.C16 Proofs.Basics Proofs.Cycles Proofs.CyclesComplete Proofs.DepsSpec Proofs.SortUnique.

(** a scope-mismatch warning on fixture F about dependency D is issued only if D is the
    definition resolution selects for F's file and is narrower than F ... *)
Theorem C16_scope_mismatch_sound :
  forall dk roots s F m,
    In m (mismatches dk roots s F) ->
    d_file (mm_fixture m) = F /\ In (mm_fixture m) (defs s) /\
    own_last s F (d_name (mm_fixture m)) = Some (mm_fixture m) /\
    expected_mismatch dk roots s (mm_fixture m) (mm_dependency m) = true.
Proof. exact mismatches_sound. Qed.
Print Assumptions C16_scope_mismatch_sound.

(** ... and whenever that is the case *)
Theorem C16_scope_mismatch_complete :
  forall dk roots s F f dn dep,
    In (d_name f) (file_def_names s F) -> own_last s F (d_name f) = Some f ->
    In dn (d_deps f) -> dep_target dk roots s f dn = Some dep -> d_scope dep < d_scope f ->
    In (mk_mismatch f dep) (mismatches dk roots s F).
Proof. exact mismatches_complete. Qed.
Print Assumptions C16_scope_mismatch_complete.

(** the scope order is pytest's: function < class < module < package < session
    (regenerated from src/fixtures/types.rs on every run) *)
From PLS Require Import Generated.Tables.
Theorem C16_scope_order_is_pytests :
  scope_rank = [("Function", 0); ("Class", 1); ("Module", 2); ("Package", 3); ("Session", 4)]%N /\
  map fst scope_parse = ["function"; "class"; "module"; "package"; "session"] /\
  map snd scope_parse = map fst scope_rank.
Proof. repeat split; vm_compute; reflexivity. Qed.
Print Assumptions C16_scope_order_is_pytests.

(** ** cycles: reachable witnesses (the unbounded soundness/completeness statements are
    evaluated per case by [cycles_ok]; see DESIGN §7 C16 for what is proved) *)
Definition top := ["conftest.py"; "vgc"].
Definition subc := ["conftest.py"; "sub"; "vgc"].
Definition w_top := mk_facts true 1 [] [] [IDef (mk_ldef "cli" 4 5 4 7 None None [] 4 None false)] [].
Definition w_sub := mk_facts true 2 [] []
  [IDef (mk_ldef "cli" 4 5 4 7 None None ["cli"] 0 None false); IUse (mk_lusage "cli" 4 8 11)] [].
Definition override_sub_first := analyze true top w_top (analyze true subc w_sub empty_index).
Definition override_top_first := analyze true subc w_sub (analyze true top w_top empty_index).
Definition lonely_self := analyze true subc w_sub empty_index.

(** overriding a fixture while requesting its same-named parent is not a cycle, in
    either registration order; requesting one's own name without a parent is one *)
Example C16_override_is_not_a_cycle :
  cycles_cold [] [] override_sub_first = [] /\ cycles_cold [] [] override_top_first = [] /\
  map cy_path (cycles_cold [] [] lonely_self) = [["cli"; "cli"]] /\
  cycles_ok [] [] lonely_self (cycles_cold [] [] lonely_self) = true.
Proof. repeat split; vm_compute; reflexivity. Qed.
Print Assumptions C16_override_is_not_a_cycle.

(** every reported cycle is a real closed dependency chain over the definition-level
    graph — each step resolved as go-to-definition resolves it from the depending
    fixture's file — for EVERY index in which no two definitions share
    (file, line, name), any number of definitions, any graph shape *)
Theorem C16_cycles_sound :
  forall dk roots s, keys_unique s ->
    Forall (fun c => cycle_sound dk roots s c = true) (cycles_cold dk roots s).
Proof. exact cycles_cold_sound. Qed.
Print Assumptions C16_cycles_sound.

(** every definition that lies on a dependency cycle — it requests a name whose selected
    definition [y] leads, through any number of selected dependencies, back to it — has a
    reported cycle whose fixture lies in its strongly connected component: each one
    reaches the other.  Same generality as above: any index with unique (file, line,
    name) keys, any number of definitions, any graph shape, no bound on depth. *)
Theorem C16_cycles_complete :
  forall dk roots s, keys_unique s ->
    forall d y, dep_edge dk roots s d y -> dep_reach dk roots s y d ->
      exists c, In c (cycles_cold dk roots s) /\
                dep_reach dk roots s d (cy_fixture c) /\ dep_reach dk roots s (cy_fixture c) d.
Proof. exact cycles_cold_complete_spec. Qed.
Print Assumptions C16_cycles_complete.

(** the premises are met by a concrete state: the self-requesting fixture without a parent *)
Definition lonely_defs : list fdef := Eval vm_compute in defs lonely_self.
Example C16_cycles_complete_nonvacuous :
  exists d, dep_edge [] [] lonely_self d d /\ keys_unique lonely_self.
Proof.
  assert (E : defs lonely_self = lonely_defs) by (vm_compute; reflexivity).
  exists (hd (mk_fdef "" [] 0 0 0 0 None None false false [] 0 None false) lonely_defs). split.
  - split; [rewrite E; now left|]. exists "cli". split; [now left|vm_compute; reflexivity].
  - intros a b Ha Hb _. rewrite E in Ha, Hb. destruct Ha as [<-|[]]. destruct Hb as [<-|[]]. reflexivity.
Qed.

(** the executable notions evaluated on the implementation's answers decide the relational
    ones used above: [reachable] is reachability in at least one step (fuel proved
    sufficient), [same_scc] is mutual reachability *)
Theorem C16_spec_reachable_exact :
  forall dk roots s d y, In d (defs s) ->
    (In y (reachable dk roots s d) <-> exists w, dep_edge dk roots s d w /\ dep_reach dk roots s w y).
Proof. exact reachable_iff. Qed.
Print Assumptions C16_spec_reachable_exact.

Theorem C16_spec_same_scc_exact :
  forall dk roots s d d', In d (defs s) -> In d' (defs s) ->
    (same_scc dk roots s d d' = true <-> (dep_reach dk roots s d d' /\ dep_reach dk roots s d' d)).
Proof. exact same_scc_iff. Qed.
Print Assumptions C16_spec_same_scc_exact.

(** so the detector's model passes, on EVERY index with unique keys, the very predicate
    the check applies to the implementation's answers case by case *)
Theorem C16_model_meets_executable_spec :
  forall dk roots s, keys_unique s -> cycles_ok dk roots s (cycles_cold dk roots s) = true.
Proof. exact cycles_cold_meets_spec. Qed.
Print Assumptions C16_model_meets_executable_spec.

(** which cycles are reported, in which order and on which fixture, does not depend on the
    order in which the definitions were registered: two indexes whose definition lists are
    permutations of each other and which resolve every dependency alike produce the same
    report list (the traversal order is the sorted order of the definitions, and sorting
    under a total order is unique) *)
From Coq Require Import Permutation.
Theorem C16_reports_do_not_depend_on_registration_order :
  forall dk roots s1 s2,
    keys_unique s1 -> Permutation (defs s1) (defs s2) ->
    (forall d n, dep_target dk roots s1 d n = dep_target dk roots s2 d n) ->
    cycles_cold dk roots s1 = cycles_cold dk roots s2.
Proof. exact cycles_registration_order_independent. Qed.
Print Assumptions C16_reports_do_not_depend_on_registration_order.

(** non-vacuity: the two registration orders of the override workspace are such a pair *)
Example C16_order_pair :
  Permutation (defs override_sub_first) (defs override_top_first) /\
  defs override_sub_first <> defs override_top_first /\
  cycles_cold [] [] override_sub_first = cycles_cold [] [] override_top_first.
Proof.
  split; [vm_compute; apply perm_swap|]. split; [vm_compute; discriminate|vm_compute; reflexivity].
Qed.

Check C16_cycles_sound :
  forall dk roots s, keys_unique s -> Forall (fun c => cycle_sound dk roots s c = true) (cycles_cold dk roots s).
Check C16_cycles_complete :
  forall dk roots s, keys_unique s ->
    forall d y, dep_edge dk roots s d y -> dep_reach dk roots s y d ->
      exists c, In c (cycles_cold dk roots s) /\
                dep_reach dk roots s d (cy_fixture c) /\ dep_reach dk roots s (cy_fixture c) d.
Check C16_model_meets_executable_spec :
  forall dk roots s, keys_unique s -> cycles_ok dk roots s (cycles_cold dk roots s) = true.
