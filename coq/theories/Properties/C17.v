(** * C17 — undeclared-fixture warnings are precise and their quick fix works.  Statements only. *)
From PLS Require Import Model.ParamEdit.
From PLS Require Import Spec.Undeclared Proofs.Basics Proofs.Undeclared.
From PLS Require Proofs.ParamEdit.

(** ** warnings *)
(** Whatever the scan flags in a body was not a declared parameter of the function, was not
    in scope as a module-level / imported name or as a local bound on an earlier line, and
    names an available fixture — for every index state and every body. *)
Theorem C17_flag_sound :
  forall s F b x,
    In x (filter (flagged s F b) (bd_names b)) ->
    mem_str (b_name x) (bd_declared b) = false
    /\ local_in_scope s F b (b_name x) (b_line x) = false
    /\ is_available s F (b_name x) = true.
Proof. exact flag_sound. Qed.
Print Assumptions C17_flag_sound.

Theorem C17_module_name_in_scope :
  forall s F b n line mods,
    alookup F (modnames s) = Some mods -> mem_str n mods = true -> 0 < line ->
    local_in_scope s F b n line = true.
Proof. exact module_name_in_scope. Qed.
Theorem C17_earlier_local_in_scope :
  forall s F b n line l,
    (match alookup F (modnames s) with Some m => mem_str n m | None => false end) = false ->
    lookup_str n (bd_locals b) = Some l -> l < line ->
    local_in_scope s F b n line = true.
Proof. exact earlier_local_in_scope. Qed.

(** A local the scan treats as bound on an earlier line IS bound on an earlier line: every
    entry the collector keeps comes from a binding statement of the function (any nesting of
    blocks), so a warning is only ever suppressed by a real earlier binding. *)
Theorem C17_local_suppression_justified :
  forall body n l line,
    lookup_str n (collect_locals body) = Some l -> l < line -> bound_earlier body n line = true.
Proof. exact local_suppression_justified. Qed.
Print Assumptions C17_local_suppression_justified.

(** An available fixture is one that pytest's rules make visible from the file (so no
    warning names a fixture invisible from it): for every index state. *)
Theorem C17_available_implies_visible :
  forall dk roots s F n,
    (forall d, In d (defs s) -> d_file d <> conftest_py :: F) ->
    is_available s F n = true ->
    exists d, In d (defs_named s n) /\ visible dk roots s F n d = true.
Proof. exact available_implies_visible. Qed.
Print Assumptions C17_available_implies_visible.

(** The Name nodes the hand-written scan looks at are EXACTLY the covered positions of the
    documented rule (Spec/Undeclared.v, by generic traversal), in the same order — for
    every expression and every statement, whatever the nesting. *)
Theorem C17_scan_visits_covered_expr : forall e, covered_in e = names_expr true e.
Proof. exact scan_visits_covered_expr. Qed.
Theorem C17_scan_visits_covered_stmt : forall st, cov_stmt st = names_stmt true st.
Proof. exact scan_visits_covered_stmt. Qed.
Print Assumptions C17_scan_visits_covered_stmt.
Theorem C17_body_names_are_covered :
  forall body declared fn line,
    match body_item body declared fn line with
    | IBody b => bd_names b = flat_map cov_stmt body /\ bd_declared b = declared
    | _ => False
    end.
Proof. exact body_names_are_covered. Qed.

(** ... and every covered position that is undeclared, not in scope and available IS flagged. *)
Theorem C17_flag_complete :
  forall s F b x,
    In x (bd_names b) ->
    mem_str (b_name x) (bd_declared b) = false ->
    local_in_scope s F b (b_name x) (b_line x) = false ->
    is_available s F (b_name x) = true ->
    In x (filter (flagged s F b) (bd_names b)).
Proof. exact flag_complete. Qed.
Print Assumptions C17_flag_complete.

(** what repair 42ff33a changed: the old scan missed keyword arguments (and more) *)
Lemma C17_old_scan_refuted :
  covered_in (ECall (EName "f" 3 4 5) [] [(Some "k", EName "db" 3 8 10)]) = [mk_bname "f" 3 4 5; mk_bname "db" 3 8 10]
  /\ names_expr false (ECall (EName "f" 3 4 5) [] [(Some "k", EName "db" 3 8 10)]) = [mk_bname "f" 3 4 5].
Proof. exact old_scan_refuted. Qed.

(** ** the parameter edit (quick fix and body completion), on the parsed parameter list *)
(** Inserting the fixture where the server does keeps ANY valid parameter list valid
    (positional, defaulted, *args / bare *, keyword-only, **kwargs in Python's order), makes
    it a parameter (positional; keyword-only only behind a leading bare [*]), and leaves the other parameters as they were, in order. *)
Theorem C17_insert_keeps_valid :
  forall x ps, valid_sig ps = true -> valid_sig (insert_after_last_pos x ps) = true.
Proof. exact Proofs.ParamEdit.insert_keeps_valid. Qed.
Theorem C17_insert_adds_parameter :
  forall x ps, In (Pos, x) (insert_after_last_pos x ps) \/ In (Kw, x) (insert_after_last_pos x ps).
Proof. exact Proofs.ParamEdit.insert_adds_parameter. Qed.
Theorem C17_insert_adds_positional :
  forall x ps, Proofs.ParamEdit.bare_star_led ps = false -> In (Pos, x) (insert_after_last_pos x ps).
Proof. exact Proofs.ParamEdit.insert_adds_positional. Qed.
Theorem C17_insert_keeps_others :
  forall x ps, (forall k, ~ In (k, x) ps) ->
               Proofs.ParamEdit.remove_first x (insert_after_last_pos x ps) = ps.
Proof. exact Proofs.ParamEdit.insert_keeps_others. Qed.
Print Assumptions C17_insert_keeps_valid.

(** ... and at TEXT level, where the first parameter is a starred one: from the byte offset of
    its name the code walks back to the first star.  For every document
    [pre ++ stars ++ gap ++ rest] with [stars] a non-empty run of [*], [gap] any run of ASCII
    white space (blanks, tabs, line breaks) and [pre] not ending in a star, the walk lands on
    the first star exactly - not between the stars, not between star and name, not on an
    earlier line *)
Theorem C17_insertion_lands_on_the_first_star :
  forall pre stars gap rest : list N,
    stars <> [] -> Forall (fun b => b = star_b) stars -> Forall (fun b => ws_b b = true) gap ->
    match rev pre with [] => True | b :: _ => b <> star_b end ->
    star_start (pre ++ stars ++ gap ++ rest) (List.length (pre ++ stars ++ gap)) = List.length pre.
Proof. exact Proofs.ParamEdit.star_start_lands_on_the_first_star. Qed.
Print Assumptions C17_insertion_lands_on_the_first_star.

(** the walk before fix 7459f13 (stars and spaces only) stops at a tab in the gap; the seeded
    changes S89 ([rfind('*')]: between the two stars) and S102 (back over line breaks: into a
    comment on the line above) miss it too *)
Theorem C17_star_walk_old_refuted :
  star_start_old Proofs.ParamEdit.sig_tab 3 = 3%nat /\ star_start Proofs.ParamEdit.sig_tab 3 = 1%nat.
Proof. exact Proofs.ParamEdit.star_start_old_refuted. Qed.
Theorem C17_star_walk_rfind_refuted :
  rfind_star Proofs.ParamEdit.sig_kw 3 = 2%nat /\ star_start Proofs.ParamEdit.sig_kw 3 = 1%nat.
Proof. exact Proofs.ParamEdit.star_start_rfind_refuted. Qed.
Theorem C17_star_walk_s102_refuted :
  star_start_s102 Proofs.ParamEdit.sig_ml 6 = 3%nat /\ star_start Proofs.ParamEdit.sig_ml 6 = 5%nat.
Proof. exact Proofs.ParamEdit.star_start_s102_refuted. Qed.

(** what repair ad2306c changed: appending at the end breaks a list that has defaults *)
Lemma C17_insert_at_end_refuted :
  valid_sig [(PosD, "a")] = true /\ valid_sig (insert_at_end "db" [(PosD, "a")]) = false
  /\ valid_sig (insert_after_last_pos "db" [(PosD, "a")]) = true.
Proof. exact Proofs.ParamEdit.insert_at_end_refuted. Qed.

(** non-vacuity *)
Example C17_example :
  valid_sig [(Pos, "self"); (Pos, "a"); (PosD, "b"); (VarStar, ""); (Kw, "k"); (DStar, "kw")] = true
  /\ insert_after_last_pos "db" [(Pos, "self"); (Pos, "a"); (PosD, "b"); (VarStar, ""); (Kw, "k"); (DStar, "kw")]
     = [(Pos, "self"); (Pos, "a"); (Pos, "db"); (PosD, "b"); (VarStar, ""); (Kw, "k"); (DStar, "kw")]
  /\ cov_stmt (SIf (ECompare (EName "db" 4 7 9) [EConst "Int(1)"]) [SExpr (ECall (EAttr (EName "client" 5 8 14) "get") [] [])] [])
     = [mk_bname "db" 4 7 9; mk_bname "client" 5 8 14].
Proof. repeat split. Qed.

Check C17_scan_visits_covered_stmt : forall st, cov_stmt st = names_stmt true st.
Check C17_insert_keeps_valid : forall x ps, valid_sig ps = true -> valid_sig (insert_after_last_pos x ps) = true.
