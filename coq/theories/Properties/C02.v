(** * C02 — a self-named parameter resolves outward; the cursor decides which fixture.
    Statements only. *)
From PLS Require Import Check.C02 Check.C07 Proofs.Basics Proofs.Cascade Proofs.WarmCold Proofs.ImportsComplete.

(** navigation from the same-named parameter of [x] never lands on [x] itself —
    full strength: every state, every file, every chain length *)
Theorem C02_never_self :
  forall dk roots s n F x, closest_excluding dk roots s F n x <> Some x.
Proof. exact closest_excluding_never_self. Qed.
Print Assumptions C02_never_self.

(** ... and goes to the first provider class, in pytest's order, that is non-empty
    once [x] is removed — i.e. to the next definition outward, for override chains of
    any length and any placement of the links (module, ancestor conftests, plugin,
    third party).  Partial: outside [K_import_provenance] (C01's finding) and under
    [imports_complete] (C14). *)
Theorem C02_param_goes_outward_partial :
  forall dk roots s n x F,
    F <> [] ->
    (forall dir, In dir (ancestors (tl F)) -> imports_complete dk roots s n dir) ->
    K_import_provenance dk roots s (Some x) F n = false ->
    allowed_ex dk roots s (Some x) F n (closest_excluding dk roots s F n x) = true.
Proof. intros dk roots s n x F. exact (closest_with_allowed dk roots s n (Some x) F). Qed.
Print Assumptions C02_param_goes_outward_partial.

(** for every state reached by analyses, closes and queries the import-closure hypothesis is
    a theorem (C01_imports_complete_in_every_reached_state), leaving only the exclusion of
    the listed finding *)
Theorem C02_param_goes_outward_in_every_reached_state :
  forall dk roots s n x F,
    reached dk roots s -> F <> [] ->
    K_import_provenance dk roots s (Some x) F n = false ->
    allowed_ex dk roots s (Some x) F n (closest_excluding dk roots s F n x) = true.
Proof.
  intros dk roots s n x F R HF HK. apply (closest_with_allowed dk roots s n (Some x) F HF); [|exact HK].
  intros dir _. now apply imports_complete_reached.
Qed.
Print Assumptions C02_param_goes_outward_in_every_reached_state.

(** the usage-level form: when the line of a recorded usage lies in the span of a
    fixture of the same name, resolution of that usage excludes exactly that fixture *)
Theorem C02_usage_excludes_enclosing :
  forall dk roots s F line n d,
    def_at_line s F line = Some d -> d_name d = n ->
    resolve_usage dk roots s F line n = closest_excluding dk roots s F n d.
Proof.
  intros dk roots s F line n d H <-. unfold resolve_usage. rewrite H. now rewrite String.eqb_refl.
Qed.
Print Assumptions C02_usage_excludes_enclosing.

(** the enclosing fixture is found on EVERY line of the function, the [def] line and the last
    line included (a one-line override [def db(db): return db], a parameter sharing the last
    line with the body): with the previous theorem, a self-named parameter anywhere in the
    signature goes outward *)
From PLS Require Import Proofs.SpanLine.
Theorem C02_enclosing_fixture_found_on_every_line :
  forall s F line d,
    In d (defs s) -> d_file d = F -> (d_line d <= line)%N -> (line <= d_end_line d)%N ->
    (forall d', In d' (defs s) -> spans F line d' = true -> d' = d) ->
    def_at_line s F line = Some d.
Proof. exact def_at_line_on_every_line_of_the_function. Qed.
Print Assumptions C02_enclosing_fixture_found_on_every_line.

(** the half-open reading of the span (seeded changes S110 / S113) loses the last line *)
Theorem C02_half_open_span_refuted :
  def_at_line s_one ["conftest.py"; "api"] 4 = Some one_liner /\
  def_at_line_half_open s_one ["conftest.py"; "api"] 4 = None.
Proof. exact def_at_line_half_open_refuted. Qed.

(** a test (no enclosing same-named fixture) binds to the innermost visible link: C01 *)
Theorem C02_test_binds_innermost :
  forall dk roots s F line n,
    def_at_line s F line = None ->
    resolve_usage dk roots s F line n = closest dk roots s F n.
Proof. intros dk roots s F line n H. unfold resolve_usage. now rewrite H. Qed.
Print Assumptions C02_test_binds_innermost.

(** ** a reachable witness: a three-link chain conftest(parent) <- conftest <- module *)
Definition fxp (name : string) (line : N) : list item :=
  [IDef (mk_ldef name line (line + 1) 4 (4 + N.of_nat (String.length name)) None None [name] 0 None false);
   IUse (mk_lusage name line 7 9)].
Definition top := ["conftest.py"; "vc"].
Definition mid := ["conftest.py"; "a"; "vc"].
Definition modu := ["test_m.py"; "a"; "vc"].
Definition w_top := mk_facts true 1 [] [] [IDef (mk_ldef "db" 4 5 4 6 None None [] 0 None false)] [].
Definition w_mid := mk_facts true 2 [] [] (fxp "db" 4) [].
Definition w_modu := mk_facts true 3 [] [] (fxp "db" 4 ++ [IUse (mk_lusage "db" 8 11 13)]) [].
Definition chain_state : index :=
  analyze true modu w_modu (analyze true top w_top (analyze true mid w_mid empty_index)).

Definition lands_in (r : option fdef) (m : path) : bool :=
  match r with Some d => path_eqb (d_file d) m | None => false end.

Example C02_chain_of_three :
  lands_in (resolve_usage [] [] chain_state modu 8 "db") modu = true /\
  lands_in (resolve_usage [] [] chain_state modu 4 "db") mid = true /\
  lands_in (resolve_usage [] [] chain_state mid 4 "db") top = true /\
  K_import_provenance [] [] chain_state (def_at_line chain_state modu 4) modu "db" = false.
Proof. repeat split; vm_compute; reflexivity. Qed.
Print Assumptions C02_chain_of_three.

Check C02_param_goes_outward_partial :
  forall dk roots s n x F, F <> [] ->
    (forall dir, In dir (ancestors (tl F)) -> imports_complete dk roots s n dir) ->
    K_import_provenance dk roots s (Some x) F n = false ->
    allowed_ex dk roots s (Some x) F n (closest_excluding dk roots s F n x) = true.
