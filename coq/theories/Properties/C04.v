(** * C04 — find-references is the exact inverse of go-to-definition.  Statements only. *)
From PLS Require Import Check.C04 Proofs.Basics Proofs.Invariants Proofs.Refs.

(** a usage is listed among the references of D iff it is recorded under D's name and
    its resolution (with the self-reference exclusion, as go-to-definition does it)
    is D — every state, every definition, every usage *)
Theorem C04_refs_iff_goto :
  forall dk roots s d u,
    In u (refs dk roots s d) <->
    In u (usage_by_name s (d_name d)) /\
    resolve_usage dk roots s (u_file u) (u_line u) (u_name u) = Some d.
Proof. exact refs_iff. Qed.
Print Assumptions C04_refs_iff_goto.

Theorem C04_unresolved_listed_nowhere :
  forall dk roots s u,
    resolve_usage dk roots s (u_file u) (u_line u) (u_name u) = None ->
    forall d, ~ In u (refs dk roots s d).
Proof. exact unresolved_in_no_refs. Qed.
Print Assumptions C04_unresolved_listed_nowhere.

Theorem C04_listed_under_one_definition :
  forall dk roots s u d1 d2, In u (refs dk roots s d1) -> In u (refs dk roots s d2) -> d1 = d2.
Proof. exact refs_single_target. Qed.
Print Assumptions C04_listed_under_one_definition.

(** the reverse index is exactly the per-file usage map, after ANY history of
    analyses (clean or fresh, valid or unparsable), closes and plugin marks *)
Theorem C04_usage_index_mirror : forall ops, usage_by (run_ops ops) = usages (run_ops ops).
Proof. exact mirror_reachable. Qed.
Print Assumptions C04_usage_index_mirror.

(** no usage is listed twice, after any history in which no single file version
    lists a usage twice (what the analyzer guarantees since fix c3552e5) *)
Theorem C04_refs_nodup :
  forall dk roots ops d, Forall op_nodup ops -> NoDup (refs dk roots (run_ops ops) d).
Proof. intros dk roots ops d H. apply refs_nodup. apply (usages_nodup_reachable ops H). Qed.
Print Assumptions C04_refs_nodup.

Theorem C04_listed_usages_are_recorded :
  forall dk roots ops d u,
    In u (refs dk roots (run_ops ops) d) ->
    In u (usages_of_file (run_ops ops) (u_file u)) /\ u_name u = d_name d.
Proof. intros dk roots ops d u. apply refs_recorded. apply mirror_reachable. Qed.
Print Assumptions C04_listed_usages_are_recorded.

(** the executable property the check evaluates on the implementation's answers holds
    of the model's answers whenever the reverse index has no duplicate *)
Lemma nodupb_NoDup (l : list usage) : NoDup l -> nodupb usage_eqb l = true.
Proof.
  induction 1 as [|x l Hn _ IH]; [reflexivity|]. cbn. rewrite IH, andb_true_r. apply negb_true_iff.
  destruct (memb usage_eqb x l) eqn:E; [|reflexivity]. exfalso. apply Hn.
  unfold memb in E. apply existsb_exists in E as [y [Hy Ey]].
  assert (x = y); [|now subst].
  unfold usage_eqb in Ey. repeat (apply andb_prop in Ey as [Ey ?]).
  destruct x, y; cbn in *.
  apply String.eqb_eq in Ey. apply path_eqb_eq in H2. apply N.eqb_eq in H1, H0, H. now subst.
Qed.

Check C04_refs_iff_goto :
  forall dk roots s d u,
    In u (refs dk roots s d) <->
    In u (usage_by_name s (d_name d)) /\ resolve_usage dk roots s (u_file u) (u_line u) (u_name u) = Some d.
