(** * C09 — concurrent analysis of different files is isolated.  Statements only. *)
From PLS Require Import Model.Conc Proofs.Conc.
From PLS Require Import Model.Types Proofs.Basics.

(** For ANY number of threads analysing or re-analysing DISTINCT files, ANY fixture names
    (shared freely), ANY initial shared map without empty vectors and ANY interleaving of
    their atomic operations — get_mut+retain, remove_if(is_empty), entry().push — once all
    threads are done:
    - every analysed file's entries under every key are exactly: what was there before
      unless the key was on the thread's clean-up list, followed by what the analysis
      recorded, in order;
    - every other file's entries, under every key, are untouched (none lost, none
      duplicated, order kept);
    - no key is left with an empty vector. *)
Theorem C09_isolation :
  forall (key file item : Type) key_eqb file_eqb,
    (forall a b : key, key_eqb a b = true <-> a = b) ->
    (forall a b : file, file_eqb a b = true <-> a = b) ->
    forall (m0 : mmap key file item) (As : list (analysis key file item)) m ts,
      NoDup (map (a_file key file item) As) ->
      (forall k, m0 k <> Some []) ->
      steps key file item key_eqb file_eqb (m0, threads_of key file item As) (m, ts) ->
      quiescent key file item ts ->
      (forall a, In a As -> forall k,
          slice key file item file_eqb (a_file _ _ _ a) m k
          = (if memk key key_eqb k (a_L _ _ _ a) then [] else slice key file item file_eqb (a_file _ _ _ a) m0 k)
            ++ pushed_at key file item key_eqb (a_file _ _ _ a) (a_items _ _ _ a) k)
      /\ (forall G, ~ In G (map (a_file key file item) As) -> forall k,
             slice key file item file_eqb G m k = slice key file item file_eqb G m0 k)
      /\ (forall k, m k <> Some []).
Proof. intros key file item ke fe Hk Hf m0 As m ts. now apply isolation. Qed.
Print Assumptions C09_isolation.

(** hence the outcome is that of ANY sequential execution of the same analyses: two
    complete executions agree on every file's slice of every key *)
Theorem C09_serialisable :
  forall (key file item : Type) key_eqb file_eqb,
    (forall a b : key, key_eqb a b = true <-> a = b) ->
    (forall a b : file, file_eqb a b = true <-> a = b) ->
    forall (m0 : mmap key file item) (As : list (analysis key file item)) m1 ts1 m2 ts2,
      NoDup (map (a_file key file item) As) ->
      (forall k, m0 k <> Some []) ->
      steps key file item key_eqb file_eqb (m0, threads_of key file item As) (m1, ts1) -> quiescent key file item ts1 ->
      steps key file item key_eqb file_eqb (m0, threads_of key file item As) (m2, ts2) -> quiescent key file item ts2 ->
      forall F k, slice key file item file_eqb F m1 k = slice key file item file_eqb F m2 k.
Proof. intros key file item ke fe Hk Hf m0 As m1 ts1 m2 ts2. now apply schedule_independent. Qed.
Print Assumptions C09_serialisable.

(** the instance the server runs: keys are fixture names, files are paths *)
Definition name_eqb := String.eqb.
Corollary C09_definitions_and_usage_index :
  forall (item : Type) (m0 : mmap string path item) (As : list (analysis string path item)) m ts,
    NoDup (map (a_file _ _ _) As) -> (forall k, m0 k <> Some []) ->
    steps string path item String.eqb path_eqb (m0, threads_of _ _ _ As) (m, ts) ->
    quiescent _ _ _ ts ->
    (forall k, m k <> Some []) /\
    (forall G, ~ In G (map (a_file _ _ _) As) -> forall k,
        slice _ _ _ path_eqb G m k = slice _ _ _ path_eqb G m0 k).
Proof.
  intros item m0 As m ts Hnd Hne Hs Hq.
  destruct (isolation string path item String.eqb path_eqb String.eqb_eq path_eqb_iff m0 As m ts Hnd Hne Hs Hq)
    as (_ & B & C). split; assumption.
Qed.

(** non-vacuity: the hazardous window.  Thread A re-analyses a.py, which held the LAST
    definition of "fx", and observes the vector empty; before A's remove_if, thread B
    (b.py) pushes its own "fx".  The entry must survive: *)
Definition fa : path := ["a.py"].
Definition fb : path := ["b.py"].
Definition m_init : mmap string path N := fun k => if String.eqb k "fx" then Some [(fa, 1)] else None.
Definition thrA := mk_thr string path N fa (program string N ["fx"] []).
Definition thrB := mk_thr string path N fb (program string N [] [("fx", 2)]).
Definition run3 : option (mmap string path N) :=
  match tstep _ _ _ String.eqb path_eqb m_init thrA with            (* A: retain -> empty, remove_if pending *)
  | Some (m1, a1) =>
      match tstep _ _ _ String.eqb path_eqb m1 thrB with            (* B: push *)
      | Some (m2, _) =>
          match tstep _ _ _ String.eqb path_eqb m2 a1 with          (* A: remove_if sees a non-empty vector *)
          | Some (m3, _) => Some m3
          | None => None
          end
      | None => None
      end
  | None => None
  end.
Example C09_example : option_map (fun m => m "fx") run3 = Some (Some [(fb, 2)]).
Proof. vm_compute. reflexivity. Qed.

Check C09_isolation.
