(** * C01 — fixture resolution follows pytest's shadowing order.
    Statements only: each theorem is closed by [exact] of a lemma proved in Proofs/,
    pinned with [Check], and followed by [Print Assumptions]. *)
From PLS Require Import Check.C01 Check.C07 Proofs.Basics Proofs.Cascade Proofs.WarmCold Proofs.ImportsComplete Proofs.SpecReach.

(** Full-strength statement (FALSE of the faithful model, see [C01_refuted_import_provenance]):
      forall dk roots s F n, F <> [] -> allowed dk roots s F n (closest dk roots s F n) = true.
    Proved: the same statement outside the known-finding class [K_import_provenance]
    and under [imports_complete] (the soundness half of the import closure, C14). *)
Theorem C01_resolve_sound_partial :
  forall dk roots s n F,
    F <> [] ->
    (forall dir, In dir (ancestors (tl F)) -> imports_complete dk roots s n dir) ->
    K_import_provenance dk roots s None F n = false ->
    allowed dk roots s F n (closest dk roots s F n) = true.
Proof. exact closest_allowed. Qed.
Print Assumptions C01_resolve_sound_partial.

(** a definition that is not visible from the using file is never returned *)
Theorem C01_never_invisible_partial :
  forall dk roots s n F d,
    F <> [] ->
    (forall dir, In dir (ancestors (tl F)) -> imports_complete dk roots s n dir) ->
    K_import_provenance dk roots s None F n = false ->
    closest dk roots s F n = Some d ->
    visible dk roots s F n d = true /\ In d (defs_named s n).
Proof. exact closest_visible. Qed.
Print Assumptions C01_never_invisible_partial.

(** the answer is empty only if no provider class contains a definition *)
Theorem C01_resolve_none_only_if_invisible_partial :
  forall dk roots s n F d,
    F <> [] ->
    (forall dir, In dir (ancestors (tl F)) -> imports_complete dk roots s n dir) ->
    K_import_provenance dk roots s None F n = false ->
    closest dk roots s F n = None -> In d (defs_named s n) ->
    existsb (fun C => C d) (providers dk roots s F n) = false.
Proof. exact closest_none_invisible. Qed.
Print Assumptions C01_resolve_none_only_if_invisible_partial.

(** the hypothesis [imports_complete] is itself a theorem: in every state whose reverse
    index covers its definitions and whose current memo entries are closures — in particular
    in EVERY state reached by analyses, closes and queries in any interleaving — whenever the
    specification finds a module supplying the name to a conftest.py (through any chain of
    star imports, pytest_plugins entries, explicit imports), the resolver's import test says
    so (Proofs/ImportClosure.v + Proofs/ImportsComplete.v) *)
Theorem C01_imports_complete_in_every_reached_state :
  forall dk roots s n dir, reached dk roots s -> imports_complete dk roots s n dir.
Proof. exact imports_complete_reached. Qed.
Print Assumptions C01_imports_complete_in_every_reached_state.

(** hence, for reached states, soundness needs only the exclusion of the listed finding *)
Theorem C01_resolve_sound_in_every_reached_state :
  forall dk roots s n F,
    reached dk roots s -> F <> [] -> K_import_provenance dk roots s None F n = false ->
    allowed dk roots s F n (closest dk roots s F n) = true.
Proof. exact closest_allowed_reached. Qed.
Print Assumptions C01_resolve_sound_in_every_reached_state.

Theorem C01_never_invisible_in_every_reached_state :
  forall dk roots s n F d,
    reached dk roots s -> F <> [] -> K_import_provenance dk roots s None F n = false ->
    closest dk roots s F n = Some d -> visible dk roots s F n d = true /\ In d (defs_named s n).
Proof. exact closest_visible_reached. Qed.
Print Assumptions C01_never_invisible_in_every_reached_state.

(** the specification's own import-source walk is a closure computation, not a bounded one:
    its result does not change with more fuel than the bound it is run with *)
Theorem C01_spec_import_walk_not_fuel_limited :
  forall dk roots s n m k,
    sources dk roots s (enough_fuel dk s + k) n m [] = sources dk roots s (enough_fuel dk s) n m [].
Proof. exact sources_enough_fuel. Qed.
Print Assumptions C01_spec_import_walk_not_fuel_limited.

(** ** witnesses: reachable states built by the model's own [analyze] *)
Definition fx (name : string) (line : N) : item :=
  IDef (mk_ldef name line (line + 1) 4 (4 + N.of_nat (String.length name)) None None [] 0 None false).

Definition sib := ["test_sib.py"; "sibling"; "pkg"; "vwc"].
Definition helpers := ["helpers.py"; "pkg"; "vwc"].
Definition conf := ["conftest.py"; "pkg"; "vwc"].
Definition user := ["test_use.py"; "sub"; "pkg"; "vwc"].

Definition w_sib := mk_facts true 1 [] [] [fx "client" 4; IUse (mk_lusage "client" 7 11 17)] [].
Definition w_helpers := mk_facts true 2 [] [] [fx "client" 4] [].
Definition w_conf := mk_facts true 3 [] ["client"] [] [mk_edge 1 ["helpers"] (Names ["client"])].
Definition w_user := mk_facts true 4 ["def test_u(client):"; "    pass"] [] [IUse (mk_lusage "client" 1 11 17)] [].

(** the unrelated sibling module happens to be analysed first *)
Definition bad_state : index :=
  analyze true user w_user (analyze true conf w_conf (analyze true helpers w_helpers
    (analyze true sib w_sib empty_index))).
(** the imported module is analysed first *)
Definition good_state : index :=
  analyze true user w_user (analyze true conf w_conf (analyze true sib w_sib
    (analyze true helpers w_helpers empty_index))).

(** the full-strength statement is refuted: the sibling's fixture is returned *)
Lemma C01_refuted_import_provenance :
  exists s F n,
    F <> [] /\ K_import_provenance [] [] s None F n = true /\
    allowed [] [] s F n (closest [] [] s F n) = false /\
    (exists d, closest [] [] s F n = Some d /\ visible [] [] s F n d = false).
Proof.
  exists bad_state, user, "client". split; [discriminate|].
  split; [vm_compute; reflexivity|]. split; [vm_compute; reflexivity|].
  eexists. split; vm_compute; reflexivity.
Qed.

(** non-vacuity: a state with an importing conftest meets every hypothesis of the
    partial theorems, and resolution goes through the import branch *)
Example C01_hypotheses_satisfiable :
  user <> [] /\
  (forall dir, In dir (ancestors (tl user)) -> imports_complete [] [] good_state "client" dir) /\
  K_import_provenance [] [] good_state None user "client" = false /\
  (exists d, closest [] [] good_state user "client" = Some d /\ d_file d = helpers).
Proof.
  split; [discriminate|]. split.
  - intros dir Hd d Hin Hc.
    cbn in Hd. repeat (destruct Hd as [<-|Hd]; [vm_compute in Hc |- *; try reflexivity; try discriminate|]);
      try destruct Hd.
    all: vm_compute in Hin; repeat (destruct Hin as [<-|Hin]; [vm_compute in Hc; try discriminate|]); try destruct Hin.
  - split; [vm_compute; reflexivity|]. eexists; split; vm_compute; reflexivity.
Qed.

Check C01_resolve_sound_partial :
  forall dk roots s n F, F <> [] ->
    (forall dir, In dir (ancestors (tl F)) -> imports_complete dk roots s n dir) ->
    K_import_provenance dk roots s None F n = false ->
    allowed dk roots s F n (closest dk roots s F n) = true.
Print Assumptions C01_refuted_import_provenance.
Print Assumptions C01_hypotheses_satisfiable.

Check C01_resolve_sound_in_every_reached_state :
  forall dk roots s n F,
    reached dk roots s -> F <> [] -> K_import_provenance dk roots s None F n = false ->
    allowed dk roots s F n (closest dk roots s F n) = true.

(** ** where a relative import lands: a relative import of [level] dots in a file of directory
    [base] names a file exactly [level - 1] directories above [base] (below it by the dotted
    module path, as [mod.py] or as the package's [__init__.py]) - never a same-named module
    one directory too deep or too high, whatever the disk holds there *)
From PLS Require Import Proofs.RelImport.
Theorem C01_relative_import_location :
  forall dk s level mods base p,
    (0 < level)%N -> resolve_relative dk s level mods base = Some p ->
    (N.to_nat (level - 1) <= length base)%nat /\
    match mods with
    | [] => p = init_py :: skipn (N.to_nat (level - 1)) base
    | _ => p = module_py mods (skipn (N.to_nat (level - 1)) base) \/ p = package_init mods (skipn (N.to_nat (level - 1)) base)
    end.
Proof. exact resolve_relative_location. Qed.
Print Assumptions C01_relative_import_location.

(** counting the dots in pairs (seeded change S91) finds the decoy one directory too deep *)
Theorem C01_relative_import_pairs_refuted :
  resolve_relative dk_s91 empty_index 3%N ["shared"] ["b"; "a"; "root"] = Some ["shared.py"; "root"] /\
  resolve_relative_pairs dk_s91 empty_index 3%N ["shared"] ["b"; "a"; "root"] = Some ["shared.py"; "a"; "root"] /\
  resolve_relative_pairs dk_s91 empty_index 2%N ["shared"] ["b"; "a"; "root"] =
  resolve_relative dk_s91 empty_index 2%N ["shared"] ["b"; "a"; "root"].
Proof. exact resolve_relative_pairs_refuted. Qed.
