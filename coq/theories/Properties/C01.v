(** * C01 — fixture resolution follows pytest's shadowing order (statements only). *)
From PLS Require Import Check.C01.

(* placeholder until Proofs/Cascade.v lands *)
Theorem C01_placeholder : forall s F n, closest [] [] s F n = closest_with [] [] s (fun _ => true) F n.
Proof. reflexivity. Qed.
Print Assumptions C01_placeholder.
