(** * C13 — discovery covers exactly pytest's files, wherever the workspace lives.
    Statements only. *)
From PLS Require Import Spec.Discovery Proofs.Scanner.

(** for EVERY directory tree and EVERY exclude-pattern oracle the scan's selection
    (WalkDir pruning + component test + patterns + file-name test) is exactly the
    traversal-independent spec: pytest's file names, no ignored directory on the
    root-relative path, no pattern matching *)
Theorem C13_selected_exact : forall excl cs, selected excl cs = spec_selected excl cs.
Proof. exact selected_exact. Qed.
Print Assumptions C13_selected_exact.

(** the outcome, expressed relative to the root, is the same for every absolute root *)
Theorem C13_relocation_invariant : forall excl cs r1 r2,
  map (strip_root r1) (absolute r1 (analysed excl cs)) = map (strip_root r2) (absolute r2 (analysed excl cs)).
Proof. exact relocation_invariant. Qed.
Print Assumptions C13_relocation_invariant.

(** making any set of files unreadable / non-UTF-8 removes exactly those files *)
Theorem C13_fault_isolation : forall excl bad cs,
  analysed excl (map (break_tree bad []) cs) = filter (fun p => negb (bad p)) (analysed excl cs).
Proof. exact fault_isolation. Qed.
Print Assumptions C13_fault_isolation.

(** the generated table covers the ignored classes the property names, and *.egg-info *)
Theorem C13_skip_table_complete : forallb should_skip_directory documented_ignored = true.
Proof. exact skip_table_complete. Qed.
Theorem C13_egg_info_skipped : forall n, should_skip_directory (n ++ ".egg-info") = true.
Proof. exact egg_info_skipped. Qed.
(** no pytest file name is itself an ignored name *)
Theorem C13_test_names_not_ignored : forall n, is_test_file_name n = true -> should_skip_directory n = false.
Proof. exact test_name_not_skipped. Qed.
Print Assumptions C13_test_names_not_ignored.

(** what the repairs changed (known_findings.json, fixed): before them a workspace kept
    under a directory named like an ignored one indexed nothing, and an ancestor whose
    name contains "site-packages" made every fixture third-party *)
Theorem C13_old_selection_refuted :
  map fst (selected_old (fun _ => false) ["proj"; "build"; "home"] demo_tree) = []
  /\ map fst (selected_old (fun _ => false) ["proj"; "work"; "home"] demo_tree)
     = [["test_a.py"; "tests"]; ["conftest.py"; "tests"]]
  /\ map fst (selected (fun _ => false) demo_tree) = [["test_a.py"; "tests"]; ["conftest.py"; "tests"]].
Proof. exact selected_old_refuted. Qed.
Theorem C13_old_third_party_refuted :
  third_party_old ["proj"; "my-site-packages-mirror"; "home"] ["conftest.py"; "tests"] = true
  /\ third_party_rel ["conftest.py"; "tests"] = false.
Proof. exact third_party_old_refuted. Qed.

(** non-vacuity *)
Example C13_example :
  map fst (selected (fun p => path_eqb p ["test_x.py"; "sub"])
     [TDir "sub" [TFile "test_x.py" true; TFile "y_test.py" true; TFile "util.py" true];
      TDir "venv" [TFile "test_v.py" true]; TDir "pkg.egg-info" [TFile "conftest.py" true];
      TFile "conftest.py" false])
  = [["y_test.py"; "sub"]; ["conftest.py"]].
Proof. vm_compute. reflexivity. Qed.

Check C13_selected_exact : forall excl cs, selected excl cs = spec_selected excl cs.
