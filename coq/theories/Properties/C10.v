(** * C10 — editor buffers win over the background scan.  Statements only. *)
From PLS Require Import Check.C10 Proofs.Basics Proofs.Invariants Proofs.History Proofs.Scan.

(** One further change notification ALWAYS restores the exact single-analysis state:
    from every state reachable by any sequence of scan-style (no clean-up) and
    notification-style analyses of any files, closes and plugin marks — in particular
    after the scan and a didOpen raced on F in any order, any number of times — a
    cleaning analysis of a parsable version [v] of [F] leaves for F exactly what one
    analysis of [v] records (definitions, reverse-index names, usages, usage index,
    module names, cached text), each exactly once, and changes nothing of other files. *)
Theorem C10_one_change_restores :
  forall ops F v, f_ok v = true ->
    slice_of (analyze true F v (run_ops ops)) F = single_analysis_slice (plugin_files (run_ops ops)) F v
    /\ elsewhere_of (analyze true F v (run_ops ops)) F = elsewhere_of (run_ops ops) F.
Proof.
  intros ops F v Hok. split.
  - apply one_change_restores_slice; [apply covered_reachable|exact Hok].
  - apply one_change_touches_nothing_else. exact Hok.
Qed.
Print Assumptions C10_one_change_restores.

(** the state-level form, for every index that satisfies the reverse-index invariant *)
Theorem C10_one_change_restores_any_covered_state :
  forall s F v, covered s -> f_ok v = true ->
    slice_of (analyze true F v s) F = single_analysis_slice (plugin_files s) F v
    /\ elsewhere_of (analyze true F v s) F = elsewhere_of s F.
Proof.
  intros s F v Hc Hok. split;
    [now apply one_change_restores_slice|now apply one_change_touches_nothing_else].
Qed.
Print Assumptions C10_one_change_restores_any_covered_state.

(** "single-analysis state" is what a server started fresh records for that version *)
Theorem C10_single_analysis_is_fresh_server :
  forall P F v, f_ok v = true ->
    slice_of (analyze true F v (start P)) F = single_analysis_slice P F v.
Proof.
  intros P F v Hok. apply (one_change_restores_slice F v (start P)); [|exact Hok].
  intros d [].
Qed.
Print Assumptions C10_single_analysis_is_fresh_server.

(** scan first, notification second: the buffer wins, exactly once *)
Theorem C10_scan_then_open :
  forall ops F disk_v buf, f_ok buf = true ->
    slice_of (analyze true F buf (analyze false F disk_v (run_ops ops))) F
    = single_analysis_slice (plugin_files (run_ops ops)) F buf.
Proof.
  intros ops F dv buf Hok.
  change (analyze false F dv (run_ops ops)) with (apply_wop (run_ops ops) (OAnalyze false F dv)).
  assert (E : apply_wop (run_ops ops) (OAnalyze false F dv) = run_ops (ops ++ [OAnalyze false F dv])).
  { unfold run_ops. rewrite fold_left_app. reflexivity. }
  rewrite E.
  destruct (C10_one_change_restores (ops ++ [OAnalyze false F dv]) F buf Hok) as [H _].
  rewrite H. f_equal. rewrite <- E. cbn [apply_wop]. unfold analyze.
  destruct (negb (f_ok dv)); [reflexivity|]. now rewrite fold_visit_plugins.
Qed.
Print Assumptions C10_scan_then_open.

(** an unparsable buffer replaces the cached text only *)
Theorem C10_invalid_buffer_keeps_index :
  forall F v s, f_ok v = false ->
    elsewhere_of (analyze true F v s) F = elsewhere_of s F /\
    defs_of_file (analyze true F v s) F = defs_of_file s F /\
    alookup F (file_cache (analyze true F v s)) = Some (cached_of v).
Proof. exact invalid_change_keeps_slices. Qed.

(** ** notification first, scan second: REFUTED on the faithful model (known finding
    C10-open-then-scan).  The scan analyses without clean-up, so the document ends up
    with the buffer's AND the disk's definitions, and the cached text is the disk's. *)
Definition tf := ["test_t.py"; "vs"].
Definition v_disk := mk_facts true 1 [] [] [IDef (mk_ldef "on_disk" 4 5 4 11 None None [] 0 None false)] [].
Definition v_buf := mk_facts true 2 [] [] [IDef (mk_ldef "in_buffer" 4 5 4 13 None None [] 0 None false)] [].
Definition v_buf2 := mk_facts true 3 [] [] [IDef (mk_ldef "in_buffer2" 4 5 4 14 None None [] 0 None false)] [].

Lemma C10_refuted_open_then_scan :
  let s := analyze false tf v_disk (analyze true tf v_buf empty_index) in
  map d_name (defs_of_file s tf) = ["in_buffer"; "on_disk"]
  /\ option_map c_text (alookup tf (file_cache s)) = Some 1
  /\ slice_of s tf <> single_analysis_slice [] tf v_buf.
Proof. cbv zeta. split; [vm_compute; reflexivity|]. split; [vm_compute; reflexivity|]. vm_compute. discriminate. Qed.
Print Assumptions C10_refuted_open_then_scan.

(** non-vacuity: from that very state one further change restores the exact state *)
Example C10_example :
  let s := analyze false tf v_disk (analyze true tf v_buf empty_index) in
  map d_name (defs_of_file (analyze true tf v_buf2 s) tf) = ["in_buffer2"].
Proof. vm_compute. reflexivity. Qed.

Check C10_one_change_restores :
  forall ops F v, f_ok v = true ->
    slice_of (analyze true F v (run_ops ops)) F = single_analysis_slice (plugin_files (run_ops ops)) F v
    /\ elsewhere_of (analyze true F v (run_ops ops)) F = elsewhere_of (run_ops ops) F.
