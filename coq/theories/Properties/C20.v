(** * C20 — CLI reports agree with the language server.  Statements only. *)
From PLS Require Import Check.C20 Proofs.Basics Proofs.Invariants Proofs.Cli.

(** The number `fixtures list` prints for a fixture equals the number of references the
    server reports for it — in every state reachable by any sequence of analyses,
    closes and plugin marks, for every definition that is alone under its
    (file, name) entry (the CLI prints one line per (file, name)). *)
Theorem C20_counts_are_refs :
  forall ops d,
    In d (defs (run_ops ops)) ->
    (forall d', In d' (defs (run_ops ops)) -> key_of d' = key_of d -> d' = d) ->
    cli_count [] [] (run_ops ops) (key_of d) = len (refs [] [] (run_ops ops) d).
Proof. intros ops d. apply counts_are_refs. apply mirror_reachable. Qed.
Print Assumptions C20_counts_are_refs.

(** `fixtures unused` lists an entry exactly when a project, non-autouse definition is
    printed under it and its count is zero ... *)
Theorem C20_unused_iff :
  forall s k,
    In k (cli_unused [] [] s) <->
    exists d, In d (defs s) /\ key_of d = k /\ d_third d = false /\ d_autouse d = false
              /\ cli_count [] [] s k = 0%N.
Proof. exact unused_iff. Qed.
Print Assumptions C20_unused_iff.

(** ... that is, exactly when it is a project fixture, not autouse, and NO usage in the
    workspace resolves to it (the server's reference list is empty) *)
Theorem C20_unused_iff_no_refs :
  forall ops d,
    In d (defs (run_ops ops)) ->
    (forall d', In d' (defs (run_ops ops)) -> key_of d' = key_of d -> d' = d) ->
    (In (key_of d) (cli_unused [] [] (run_ops ops)) <->
     d_third d = false /\ d_autouse d = false /\ refs [] [] (run_ops ops) d = []).
Proof. intros ops d. apply unused_iff_no_refs. apply mirror_reachable. Qed.
Print Assumptions C20_unused_iff_no_refs.

(** exit status 1 exactly when the list is non-empty *)
Theorem C20_exit_code_iff : forall s, cli_exit_status [] [] s = 1%N <-> cli_unused [] [] s <> [].
Proof.
  intros s. unfold cli_exit_status. destruct (cli_unused [] [] s); split; intro H;
    try discriminate; try congruence; reflexivity.
Qed.
Print Assumptions C20_exit_code_iff.

(** the filters of `fixtures list` partition what the plain command shows *)
Theorem C20_filters_partition :
  forall s k, shown [] [] s false false k = true /\
              shown [] [] s true false k = negb (shown [] [] s false true k).
Proof. exact filters_partition. Qed.
Print Assumptions C20_filters_partition.

(** the resolver — hence every count — only ever refers to known definitions of the name *)
Theorem C20_resolution_names_known_definitions :
  forall s F line n d, resolve_usage [] [] s F line n = Some d -> In d (defs s) /\ d_name d = n.
Proof. intros s. apply resolve_usage_in. Qed.

(** ** what fix bfc5d19 repaired: the old counter recognised the declaring fixture only
    on its def line.  Witness: a child conftest overrides `c` with a multi-line
    signature whose self-named parameter sits on line 5. *)
Definition cf_root := ["conftest.py"; "r"].
Definition cf_sub := ["conftest.py"; "sub"; "r"].
Definition v_root := mk_facts true 1 [] [] [IDef (mk_ldef "c" 4 5 4 5 None None [] 0 None false)] [].
Definition v_sub := mk_facts true 2 [] []
  [IDef (mk_ldef "c" 4 7 4 5 None None ["c"] 0 None false); IUse (mk_lusage "c" 5 4 5)] [].
Definition s_ml := analyze true cf_sub v_sub (analyze true cf_root v_root empty_index).

Theorem C20_old_counter_refuted :
  cli_count_old [] [] s_ml (cf_root, "c") = 0%N /\ cli_count_old [] [] s_ml (cf_sub, "c") = 1%N
  /\ cli_count [] [] s_ml (cf_root, "c") = 1%N /\ cli_count [] [] s_ml (cf_sub, "c") = 0%N
  /\ map (fun d => len (refs [] [] s_ml d)) (defs s_ml) = [1; 0]%N.
Proof. repeat split; vm_compute; reflexivity. Qed.
Print Assumptions C20_old_counter_refuted.

(** non-vacuity: a reachable state with an unused project fixture and a used one *)
Example C20_example :
  cli_unused [] [] s_ml = [(cf_sub, "c")] /\ cli_exit_status [] [] s_ml = 1%N.
Proof. split; vm_compute; reflexivity. Qed.

Check C20_counts_are_refs :
  forall ops d,
    In d (defs (run_ops ops)) ->
    (forall d', In d' (defs (run_ops ops)) -> key_of d' = key_of d -> d' = d) ->
    cli_count [] [] (run_ops ops) (key_of d) = len (refs [] [] (run_ops ops) d).
