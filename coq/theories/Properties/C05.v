(** * C05 — all features agree on which definition a name denotes.  Statements only. *)
From PLS Require Import Check.C05 Proofs.Basics Proofs.Available Proofs.Cascade Proofs.Agree.

(** the per-file view used by completion and inlay hints has exactly one entry per
    name — every state, every file *)
Theorem C05_available_one_entry_per_name :
  forall dk roots s F, NoDup (map d_name (available_cold dk roots s F)).
Proof. exact available_names_nodup. Qed.
Print Assumptions C05_available_one_entry_per_name.

Theorem C05_available_entries_are_known_definitions :
  forall dk roots s F d, In d (available_cold dk roots s F) -> In d (defs s).
Proof. exact available_entries_known. Qed.
Print Assumptions C05_available_entries_are_known_definitions.

(** the per-file view denotes, for EVERY name, exactly the definition go-to-definition
    navigates to from that file — same-file last binding, then each conftest.py outward
    (own last binding, then names it imports), then plugin, then third-party definitions —
    in every state in which the conftest.py files that exist on disk along the path are
    known to the index (what a workspace scan establishes; its complement is the listed
    finding of C07, a conftest read from disk by one path and ignored by the other) *)
Theorem C05_view_agrees_with_goto_definition :
  forall dk roots s f dir n,
    conftests_known dk s (f :: dir) ->
    lookup_av n (available_cold dk roots s (f :: dir)) = closest dk roots s (f :: dir) n.
Proof. exact available_agrees_with_goto. Qed.
Print Assumptions C05_view_agrees_with_goto_definition.

(** Full-strength statement (agreement of the per-file view, the by-name resolver and
    go-to-definition for every name):
      forall dk roots s F n, lookup_av n (available dk roots s F) = closest dk roots s F n
                             /\ resolve_for_file s F n = closest dk roots s F n.
    Its second conjunct is FALSE of the faithful model: *)
Definition child := ["conftest.py"; "pkg"; "vwe"].
Definition parent_c := ["conftest.py"; "vwe"].
Definition w_child := mk_facts true 1 [] [] [IDef (mk_ldef "client" 4 5 4 10 None None [] 0 None false)] [].
Definition w_parent := mk_facts true 2 [] []
  [IDef (mk_ldef "top" 4 5 4 7 None None ["client"] 0 None false); IUse (mk_lusage "client" 4 8 14)] [].
Definition rff_state := analyze true parent_c w_parent (analyze true child w_child empty_index).

Lemma C05_refuted_rff_fallback :
  exists s F n, closest [] [] s F n = None /\ resolve_for_file s F n <> None /\
                K_rff_fallback [] [] s F n = true.
Proof. exists rff_state, parent_c, "client". repeat split; vm_compute; congruence. Qed.
Print Assumptions C05_refuted_rff_fallback.

(** the hypothesis of the agreement theorem is met by a state with definitions, and both
    sides are a definition there (not None = None) *)
Example C05_agreement_nonvacuous :
  conftests_known [] rff_state child /\
  lookup_av "client" (available_cold [] [] rff_state child) = closest [] [] rff_state child "client" /\
  closest [] [] rff_state child "client" <> None.
Proof. split; [intros d _ H; discriminate|]. split; [vm_compute; reflexivity|vm_compute; discriminate]. Qed.

Check C05_view_agrees_with_goto_definition :
  forall dk roots s f dir n,
    conftests_known dk s (f :: dir) ->
    lookup_av n (available_cold dk roots s (f :: dir)) = closest dk roots s (f :: dir) n.
