(** * C11 — no input crashes the text core.  Statements only.
    For EVERY Unicode string / line list / (possibly stale) position the byte-slicing
    text functions return a value: no slice off a character boundary, no index out of
    range, no unsigned underflow, no loop that outruns its bound. *)
From PLS Require Import Model.TextFns Proofs.TextFns Model.Analyzer Proofs.StrSpanTotal Proofs.WordSpec.

Theorem C11_format_docstring_total : forall s, exists r, format_docstring s = Ok r.
Proof. exact format_docstring_total. Qed.
Print Assumptions C11_format_docstring_total.

(** for every classification of characters into word / non-word characters (the
    Unicode tables are not modelled: the statement quantifies over them) *)
Theorem C11_extract_word_total :
  forall wordc line character, exists r, extract_word_at_position wordc line character = Ok r.
Proof. exact extract_word_total. Qed.
Print Assumptions C11_extract_word_total.

(** and the answer is the right one: exactly the maximal run of word characters around the
    index (cut at character boundaries whatever the widths of the characters around it),
    nothing when the index is past the line or on another character *)
Theorem C11_extract_word_is_the_maximal_run :
  forall wordc line ch,
    match extract_word_at_position wordc line ch with
    | Ok None => (len line <= ch)%N \/ exists c, nth_error line (N.to_nat ch) = Some c /\ wordc c = false
    | Ok (Some w) => exists s e, run_of wordc line ch s e /\ w = skipn (N.to_nat s) (firstn (N.to_nat e) line)
    | _ => False
    end.
Proof. exact extract_word_is_the_maximal_run. Qed.
Print Assumptions C11_extract_word_is_the_maximal_run.

(** the word does not depend on where inside it the cursor stands *)
Theorem C11_extract_word_same_inside_the_word :
  forall wordc line ch ch' w s e,
    extract_word_at_position wordc line ch = Ok (Some w) ->
    run_of wordc line ch s e -> (s <= ch')%N -> (ch' < e)%N ->
    extract_word_at_position wordc line ch' = Ok (Some w).
Proof. exact extract_word_same_inside_the_word. Qed.
Print Assumptions C11_extract_word_same_inside_the_word.

(** taking the word's first byte as "offset of the separator in front, plus one" panics
    behind a multi-byte separator (seeded change S87) *)
Theorem C11_extract_word_sep_plus_one_refuted :
  extract_word_sep_plus_one lower line_s87 1 = Panic /\
  extract_word_at_position lower line_s87 1 = Ok (Some [100; 98]%N) /\
  extract_word_sep_plus_one lower [40; 100; 98]%N 1 = Ok (Some [100; 98]%N).
Proof. exact extract_word_sep_plus_one_refuted. Qed.

Theorem C11_find_function_name_position_total :
  forall content line name, exists r, find_function_name_position content line name = Ok r.
Proof. exact find_function_name_position_total. Qed.
Print Assumptions C11_find_function_name_position_total.

(** any column, in particular one recorded for an older text of the line *)
Theorem C11_parameter_has_annotation_total :
  forall ls line end_char, exists r, parameter_has_annotation ls line end_char = Ok r.
Proof. exact parameter_has_annotation_total. Qed.
Print Assumptions C11_parameter_has_annotation_total.

Theorem C11_dist_info_name_total : forall d, exists r, dist_info_name d = Ok r.
Proof. exact dist_info_name_total. Qed.
Print Assumptions C11_dist_info_name_total.

Theorem C11_lsp_line_total :
  forall line, (line <= u32_max)%N -> lsp_line_to_internal line = Ok (line + 1)%N.
Proof. exact lsp_line_to_internal_total. Qed.
Print Assumptions C11_lsp_line_total.

Theorem C11_char_position_index_total : forall s off,
  exists st, (usub (line_of_offset (build_line_index s) off) 1 >>= idx (build_line_index s)) = Ok st.
Proof. exact char_position_index_total. Qed.
Print Assumptions C11_char_position_index_total.

(** the slicing facts the functions rest on, for every string *)
Theorem C11_slice_at_prefix_sums :
  forall s a b, (a <= b)%nat -> exists w, slice s (blen (firstn a s)) (blen (firstn b s)) = Some w.
Proof. exact slice_prefix_sums. Qed.
Print Assumptions C11_slice_at_prefix_sums.

(** [string_usage_span]: the search for a fixture name inside a string literal (usefixtures,
    parametrize indirect) slices the literal at its cursor three times per round.  From a
    character boundary — offset 0, or the byte behind the (ASCII) opening quote — every
    slice succeeds and the loop ends within its bound: for every literal, every non-empty
    name, every classification of characters into identifier / other *)
Theorem C11_string_usage_token_total :
  forall identc name src from rest,
    name <> [] -> slice_from src from = Some rest ->
    exists r, string_usage_token identc (S (length src)) name src from = Ok r.
Proof. exact string_usage_token_total. Qed.
Print Assumptions C11_string_usage_token_total.

Theorem C11_string_usage_start_is_boundary :
  (forall src, slice_from src 0 = Some src) /\
  (forall pre q post, (q < 128)%N -> slice_from (pre ++ q :: post) (blen pre + 1)%N = Some post).
Proof. split; [exact slice_from_zero|exact (slice_behind_ascii (fun _ => true))]. Qed.
Print Assumptions C11_string_usage_start_is_boundary.

(** and it computes what the total model used by C03 / C15 ([find_token], compared with the
    code's recorded usages on every run) computes *)
Theorem C11_string_usage_token_is_the_model :
  forall fuel name src from r,
    string_usage_token ident_char fuel name src from = Ok r -> find_token fuel name src from = r.
Proof. exact token_loop_is_find_token. Qed.
Print Assumptions C11_string_usage_token_is_the_model.

(** advancing the cursor by one byte instead of the name's length panics (seeded change S44) *)
Theorem C11_string_usage_plus_one_refuted :
  string_usage_token_plus_one ident_char (S (length lit_s44)) name_s44 lit_s44 1 = Panic /\
  string_usage_token ident_char (S (length lit_s44)) name_s44 lit_s44 1 = Ok (Some 10%N).
Proof. exact string_usage_token_plus_one_refuted. Qed.

(** what the four repairs changed: on these inputs the code before the fix panics *)
Theorem C11_old_format_docstring_refuted :
  format_docstring_old [120; 10; 32; 32; 97; 10; 12288; 98]%N = Panic
  /\ format_docstring [120; 10; 32; 32; 97; 10; 12288; 98]%N = Ok [120; 10; 97; 10; 98]%N.
Proof. exact format_docstring_old_refuted. Qed.
Theorem C11_old_parameter_has_annotation_refuted :
  parameter_has_annotation_old [[100; 233; 102]]%N 1 2 = Panic
  /\ parameter_has_annotation [[100; 233; 102]]%N 1 2 = Ok false.
Proof. exact parameter_has_annotation_old_refuted. Qed.
Theorem C11_old_dist_info_name_refuted :
  dist_info_name_old ([233; 45; 49]%N ++ dist_info_sfx) = Panic
  /\ dist_info_name ([233; 45; 49]%N ++ dist_info_sfx) = Ok (Some [233]%N).
Proof. exact dist_info_name_old_refuted. Qed.
Theorem C11_old_lsp_line_refuted :
  lsp_line_to_internal_old u32_max = Panic /\ lsp_line_to_internal u32_max = Ok 4294967296%N.
Proof. exact lsp_line_to_internal_old_refuted. Qed.

(** non-vacuity: a non-trivial input on which every function produces a value *)
Example C11_example :
  format_docstring [10; 32; 32; 233; 10; 32; 32; 32; 32; 120; 10; 32; 32; 32; 121; 10]%N
  = Ok [233; 10; 32; 120; 10; 121]%N.
Proof. vm_compute. reflexivity. Qed.

Check C11_format_docstring_total : forall s, exists r, format_docstring s = Ok r.
Check C11_extract_word_total :
  forall wordc line character, exists r, extract_word_at_position wordc line character = Ok r.
Check C11_parameter_has_annotation_total :
  forall ls line end_char, exists r, parameter_has_annotation ls line end_char = Ok r.
Check C11_string_usage_token_total :
  forall identc name src from rest,
    name <> [] -> slice_from src from = Some rest ->
    exists r, string_usage_token identc (S (length src)) name src from = Ok r.
