(** * C08 — answers do not depend on scan order, thread schedule or process run.
    Statements only. *)
From PLS Require Import Check.C08 Check.C07 Model.History Proofs.Basics Proofs.History Proofs.Order Proofs.Agree Proofs.Cycles Proofs.SortUnique Proofs.ViewOrder.
From Coq Require Import Permutation.

(** analysing the same files (one version each) in two different orders yields, for
    every file, the same block of definitions — only the order of the blocks differs *)
Theorem C08_scan_order_permutes_file_blocks_only :
  forall P o1 o2, Permutation o1 o2 -> wf_lv o1 ->
  forall G, filter (fun d => path_eqb (d_file d) G) (defs (run_hist (start P) o1))
          = filter (fun d => path_eqb (d_file d) G) (defs (run_hist (start P) o2)).
Proof. exact scan_def_blocks_eq. Qed.
Print Assumptions C08_scan_order_permutes_file_blocks_only.

(** resolution (with any filter) is the same for any two indexes with equal per-file
    blocks, provided the name is not supplied through a conftest import on the path
    (C01's finding is order sensitive) and its plugin / third-party providers sit in a
    single file each (otherwise the first-registered one wins: known class) *)
Theorem C08_resolution_order_independent_partial :
  forall dk roots s1 s2 n,
    (forall G, defs_in s1 G n = defs_in s2 G n) ->
    forall flt F Gp Gt,
    (forall dir, In dir (ancestors (tl F)) ->
                 is_imported dk roots s1 n (conftest_py :: dir) = false /\
                 is_imported dk roots s2 n (conftest_py :: dir) = false) ->
    (forall d, (In d (defs_named s1 n) \/ In d (defs_named s2 n)) -> d_plugin d && negb (d_third d) && flt d = true -> d_file d = Gp) ->
    (forall d, (In d (defs_named s1 n) \/ In d (defs_named s2 n)) -> d_third d && flt d = true -> d_file d = Gt) ->
    closest_with dk roots s1 flt F n = closest_with dk roots s2 flt F n.
Proof. intros dk roots s1 s2 n Hb. exact (closest_with_same_blocks dk roots s1 s2 n Hb). Qed.
Print Assumptions C08_resolution_order_independent_partial.

(** under the same exclusions, for every name, the per-file view (completion, inlay hints)
    of two such indexes is the same list: it is sorted by name, has one entry per name, and
    each entry is what resolution selects *)
Theorem C08_view_order_independent_partial :
  forall dk roots s1 s2 f dir,
    conftests_known dk s1 (f :: dir) -> conftests_known dk s2 (f :: dir) ->
    (forall n, order_insensitive dk roots s1 s2 (f :: dir) n) ->
    available_cold dk roots s1 (f :: dir) = available_cold dk roots s2 (f :: dir).
Proof. exact available_same_blocks. Qed.
Print Assumptions C08_view_order_independent_partial.

(** and the cycle reports of two indexes holding the same definitions in different
    registration orders, resolving dependencies alike, are the same list *)
Theorem C08_cycle_reports_order_independent :
  forall dk roots s1 s2,
    keys_unique s1 -> Permutation (defs s1) (defs s2) ->
    (forall d n, dep_target dk roots s1 d n = dep_target dk roots s2 d n) ->
    cycles_cold dk roots s1 = cycles_cold dk roots s2.
Proof. exact cycles_registration_order_independent. Qed.
Print Assumptions C08_cycle_reports_order_independent.

(** the full-strength statement is refuted by the import-provenance witness of C01
    (same files, two orders, different answers): *)
From PLS Require Import Properties.C01.
Lemma C08_refuted_import_provenance_is_order_sensitive :
  closest [] [] bad_state user "client" <> closest [] [] good_state user "client".
Proof. vm_compute. discriminate. Qed.
Print Assumptions C08_refuted_import_provenance_is_order_sensitive.
