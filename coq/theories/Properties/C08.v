(** * C08 — answers do not depend on scan order, thread schedule or process run.
    Statements only. *)
From PLS Require Import Check.C08 Model.History Proofs.Basics Proofs.History Proofs.Order.
From Coq Require Import Permutation.

(** analysing the same files (one version each) in two different orders yields, for
    every file, the same block of definitions — only the order of the blocks differs *)
Theorem C08_scan_order_permutes_file_blocks_only :
  forall P o1 o2, Permutation o1 o2 -> wf_lv o1 ->
  forall G, filter (fun d => path_eqb (d_file d) G) (defs (run_hist (start P) o1))
          = filter (fun d => path_eqb (d_file d) G) (defs (run_hist (start P) o2)).
Proof. exact scan_def_blocks_eq. Qed.
Print Assumptions C08_scan_order_permutes_file_blocks_only.

(** resolution (with any filter) is the same for any two indexes with equal per-file
    blocks, provided the name is not supplied through a conftest import on the path
    (C01's finding is order sensitive) and its plugin / third-party providers sit in a
    single file each (otherwise the first-registered one wins: known class) *)
Theorem C08_resolution_order_independent_partial :
  forall dk roots s1 s2 n,
    (forall G, defs_in s1 G n = defs_in s2 G n) ->
    forall flt F Gp Gt,
    (forall dir, In dir (ancestors (tl F)) ->
                 is_imported dk roots s1 n (conftest_py :: dir) = false /\
                 is_imported dk roots s2 n (conftest_py :: dir) = false) ->
    (forall d, (In d (defs_named s1 n) \/ In d (defs_named s2 n)) -> d_plugin d && negb (d_third d) && flt d = true -> d_file d = Gp) ->
    (forall d, (In d (defs_named s1 n) \/ In d (defs_named s2 n)) -> d_third d && flt d = true -> d_file d = Gt) ->
    closest_with dk roots s1 flt F n = closest_with dk roots s2 flt F n.
Proof. intros dk roots s1 s2 n Hb. exact (closest_with_same_blocks dk roots s1 s2 n Hb). Qed.
Print Assumptions C08_resolution_order_independent_partial.

(** the full-strength statement is refuted by the import-provenance witness of C01
    (same files, two orders, different answers): *)
From PLS Require Import Properties.C01.
Lemma C08_refuted_import_provenance_is_order_sensitive :
  closest [] [] bad_state user "client" <> closest [] [] good_state user "client".
Proof. vm_compute. discriminate. Qed.
Print Assumptions C08_refuted_import_provenance_is_order_sensitive.
