(** * C06 — index state depends on current contents only, not on edit history.
    Statements only. *)
From PLS Require Import Check.C06 Proofs.Basics Proofs.History.

(** after ANY finite history of open/change notifications (versions valid or not,
    repeated, superseded), the persistent maps — definitions, the file→names reverse
    index, usages, the name→usages reverse index, module-level names — are exactly
    the canonical maps of the latest valid version of every file *)
Theorem C06_index_is_function_of_latest_valid_contents :
  forall P h, persistent_of (run_hist (start P) h) = canonical P (last_valid h).
Proof. exact run_hist_agrees. Qed.
Print Assumptions C06_index_is_function_of_latest_valid_contents.

(** hence equal to those of a server started fresh on the latest valid contents *)
Theorem C06_history_independent :
  forall P h, persistent_of (run_hist (start P) h) = persistent_of (run_hist (start P) (last_valid h)).
Proof. exact equals_fresh. Qed.
Print Assumptions C06_history_independent.

Theorem C06_same_contents_same_index :
  forall P h1 h2, last_valid h1 = last_valid h2 ->
                  persistent_of (run_hist (start P) h1) = persistent_of (run_hist (start P) h2).
Proof. exact history_independent. Qed.
Print Assumptions C06_same_contents_same_index.

(** the same for a whole editor SESSION: analyses, document closes (the document may be opened
    again later with the same or a changed text), memoising queries and cycle queries, in any
    interleaving - the index is that of a server started fresh on the latest valid contents *)
From PLS Require Import Proofs.HistoryOps.
Theorem C06_session_equals_fresh :
  forall dk roots P ops,
    persistent_of (run_ops dk roots (start P) ops)
    = persistent_of (run_hist (start P) (last_valid (analyses ops))).
Proof. exact session_equals_fresh. Qed.
Print Assumptions C06_session_equals_fresh.

Theorem C06_close_and_reopen_with_the_same_text_changes_nothing :
  forall dk roots P ops F v, f_ok v = true ->
    persistent_of (run_ops dk roots (start P) (ops ++ [HAnalyze F v; HClose F; HAnalyze F v]))
    = persistent_of (run_ops dk roots (start P) (ops ++ [HAnalyze F v])).
Proof. exact close_reopen_same_text. Qed.
Print Assumptions C06_close_and_reopen_with_the_same_text_changes_nothing.

(** nothing from superseded versions survives, nothing is duplicated *)
Theorem C06_no_stale_definition :
  forall P h d, In d (defs (run_hist (start P) h)) ->
    exists v l, In (d_file d, v) (last_valid h) /\ In l (item_defs (f_items v)) /\ d = attach_p P (d_file d) l.
Proof. exact no_stale_definition. Qed.
Theorem C06_no_stale_usage :
  forall P h u, In u (usages (run_hist (start P) h)) ->
    exists v lu, In (u_file u, v) (last_valid h) /\ In lu (item_uses (f_items v)) /\ u = usage_of (u_file u) lu.
Proof. exact no_stale_usage. Qed.
Theorem C06_one_version_per_file : forall h, NoDup (map fst (last_valid h)).
Proof. exact one_version_per_file. Qed.
Print Assumptions C06_no_stale_definition.
Print Assumptions C06_no_stale_usage.

(** while a document is syntactically invalid its last valid facts stay in effect *)
Theorem C06_invalid_keeps_last_valid :
  forall F v s, f_ok v = false ->
    persistent_of (analyze true F v s) = persistent_of s /\ undeclared (analyze true F v s) = undeclared s.
Proof. exact invalid_keeps_last_valid. Qed.
Print Assumptions C06_invalid_keeps_last_valid.

(** the undeclared-fixture findings of the document changed last equal those of
    analysing it last on the fresh server *)
Theorem C06_undeclared_of_last_analysed :
  forall P h F v, f_ok v = true ->
    undeclared_of_file (run_hist (start P) (h ++ [(F, v)])) F
    = undeclared_of_file (run_hist (start P) (last_valid (h ++ [(F, v)]))) F.
Proof. exact undeclared_of_last_analysed. Qed.
Print Assumptions C06_undeclared_of_last_analysed.

(** ** what is NOT history independent in the faithful model: the answer of a query
    that goes through the imports of a currently unparsable file.  Witness: a conftest
    with `from .helpers import *` is edited into a syntax error; the fixture it
    imported disappears for the test module although "the fixtures of its last valid
    version stay in effect". *)
Definition hp := ["helpers.py"; "vh"].
Definition cf := ["conftest.py"; "vh"].
Definition tm := ["test_m.py"; "vh"].
Definition v_hp := mk_facts true 1 [] [] [IDef (mk_ldef "db" 4 5 4 6 None None [] 0 None false)] [].
Definition v_cf := mk_facts true 2 [] [] [] [mk_edge 1 ["helpers"] Star].
Definition v_cf_broken := mk_facts false 3 [] [] [] [].
Definition v_tm := mk_facts true 4 ["def test_m(db):"; "    pass"] [] [IUse (mk_lusage "db" 1 11 13)] [].
Definition hist_broken : hist := [(hp, v_hp); (cf, v_cf); (tm, v_tm); (cf, v_cf_broken)].

Lemma C06_refuted_invalid_conftest_hides_imports :
  closest [] [] (run_hist (start []) hist_broken) tm "db" = None /\
  closest [] [] (run_hist (start []) (last_valid hist_broken)) tm "db" <> None /\
  persistent_of (run_hist (start []) hist_broken) = persistent_of (run_hist (start []) (last_valid hist_broken)).
Proof. split; [vm_compute; reflexivity|]. split; [vm_compute; discriminate|vm_compute; reflexivity]. Qed.
Print Assumptions C06_refuted_invalid_conftest_hides_imports.

(** non-vacuity: a history with a rename, a syntax error, a repair and a re-sent text *)
Definition v_hp2 := mk_facts true 5 [] [] [IDef (mk_ldef "db2" 4 5 4 7 None None [] 0 None false)] [].
Definition hist_ex : hist := [(hp, v_hp); (tm, v_tm); (hp, v_cf_broken); (hp, v_hp2); (tm, v_tm); (hp, v_hp2)].
Example C06_example :
  last_valid hist_ex = [(tm, v_tm); (hp, v_hp2)] /\
  map d_name (defs (run_hist (start []) hist_ex)) = ["db2"].
Proof. split; vm_compute; reflexivity. Qed.

Check C06_index_is_function_of_latest_valid_contents :
  forall P h, persistent_of (run_hist (start P) h) = canonical P (last_valid h).
