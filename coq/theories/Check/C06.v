(** * Check/C06: index state depends on current contents only, not on edit history.
    A [QBoth] step carries what the long-lived database answers after a history and
    what a database built fresh from the latest valid version of each file answers
    to the same queries. *)
From PLS Require Export Check.C05 Model.History.

Inductive aq :=
| AQGoto (F : path) (line col : N)
| AQClosest (F : path) (n : string)
| AQAvail (F : path)
| AQUndecl (F : path)
| AQImported (F : path)
| AQRefs (d : fdef).

Inductive ans :=
| AnsDef (o : option fdef)
| AnsDefs (l : list fdef)
| AnsUndecl (l : list undecl)
| AnsNames (l : list string)
| AnsUsages (l : list usage).

Definition ans_eqb (a b : ans) : bool :=
  match a, b with
  | AnsDef x, AnsDef y => opt_eqb fdef_eqb x y
  | AnsDefs x, AnsDefs y => list_eqb fdef_eqb x y
  | AnsUndecl x, AnsUndecl y => list_eqb undecl_eqb x y
  | AnsNames x, AnsNames y => set_eqb String.eqb x y
  | AnsUsages x, AnsUsages y => list_eqb usage_eqb x y
  | _, _ => false
  end.

Record snapshot := mk_snapshot { sn_dump : dump; sn_answers : list ans }.

Section C06.
  Variable dk : disk.
  Variable roots : list path.

  Definition model_ans (s : index) (q : aq) : ans :=
    match q with
    | AQGoto F l c => AnsDef (goto dk roots s F l c)
    | AQClosest F n => AnsDef (closest dk roots s F n)
    | AQAvail F => AnsDefs (available dk roots s F)
    | AQUndecl F => AnsUndecl (undeclared_of_file s F)
    | AQImported F => AnsNames (imported dk roots s F)
    | AQRefs d => AnsUsages (refs dk roots s d)
    end.

  (** the persistent maps of two dumps are equal (file_cache, version and the
      per-document undeclared findings are compared through the answers) *)
  Definition assoc_eqb {K V} (keqb : K -> K -> bool) (veqb : V -> V -> bool) (a b : list (K * V)) : bool :=
    list_eqb (fun x y => keqb (fst x) (fst y) && veqb (snd x) (snd y)) a b.

  Definition persistent_eqb (a b : dump) : bool :=
    assoc_eqb String.eqb (list_eqb fdef_eqb) (dp_defs a) (dp_defs b)
    && assoc_eqb path_eqb (set_eqb String.eqb) (dp_file_defs a) (dp_file_defs b)
    && assoc_eqb path_eqb (list_eqb usage_eqb) (dp_usages a) (dp_usages b)
    && assoc_eqb String.eqb (list_eqb usage_eqb) (dp_usage_by a) (dp_usage_by b)
    && assoc_eqb path_eqb (set_eqb String.eqb) (dp_modnames a) (dp_modnames b).

  Definition both_ok (live fresh : snapshot) : bool :=
    persistent_eqb (sn_dump live) (sn_dump fresh)
    && list_eqb ans_eqb (sn_answers live) (sn_answers fresh).

  (** known class: the latest version of a file is unparsable and its last valid
      version had import edges — [get_imported_fixtures] reads the CURRENT text *)
  Definition K_invalid_hides_imports (s : index) (lve : list (path * list edge)) : bool :=
    existsb (fun kv => negb (c_ok (snd kv))
                       && match alookup (fst kv) lve with Some (_ :: _) => true | _ => false end)
            (file_cache s).
End C06.

(** the queries of a snapshot are answered one after the other by the same database *)
Definition post_aq (s : index) (q : aq) : index :=
  match q with
  | AQGoto F l c => post_goto [] [] s F l c
  | AQClosest F n => post_closest_with [] [] s (fun _ => true) F n
  | AQAvail F => post_available [] [] s F
  | AQUndecl _ => s
  | AQImported F => imp_store [] [] s F
  | AQRefs d => post_refs [] [] s d
  end.
Definition answer_all (s : index) (qs : list aq) : list ans * index :=
  fold_left (fun acc q => let '(l, s) := acc in (l ++ [model_ans [] [] s q], post_aq s q)) qs ([], s).

Inductive step6 :=
| Op6 (o : wop)
| Both6 (qs : list aq) (live fresh : snapshot).

Definition note_edges (lve : list (path * list edge)) (o : wop) : list (path * list edge) :=
  match o with
  | OAnalyze _ F v => if f_ok v then ainsert F (f_edges v) lve else lve
  | _ => lve
  end.

Fixpoint run_case6 (s : index) (lve : list (path * list edge)) (i : N) (steps : list step6) : list (N * N) :=
  match steps with
  | [] => []
  | Op6 o :: r => run_case6 (apply_wop s o) (note_edges lve o) (i + 1) r
  | Both6 qs live fresh :: r =>
      let '(m, s') := answer_all s qs in
      let c := bit (negb (dump_ok s (sn_dump live) && list_eqb ans_eqb m (sn_answers live))) 1
               + bit (negb (both_ok live fresh)) 2
               + bit (K_invalid_hides_imports s lve) 16 in
      (if c =? 0 then [] else [(i, c)]) ++ run_case6 s' lve (i + 1) r
  end.

Definition verdict_C06 (steps : list step6) : list (N * N) := run_case6 empty_index [] 0 steps.

(** debugging aid for a disagreeing step: which part of the correspondence fails *)
Fixpoint explain6 (s : index) (i target : N) (steps : list step6) : option (bool * list bool * list ans) :=
  match steps with
  | [] => None
  | Op6 o :: r => explain6 (apply_wop s o) (i + 1) target r
  | Both6 qs live fresh :: r =>
      if i =? target then
        let m := fst (answer_all s qs) in
        Some (dump_ok s (sn_dump live),
              map (fun ab => ans_eqb (fst ab) (snd ab)) (combine m (sn_answers live)), m)
      else explain6 (snd (answer_all s qs)) (i + 1) target r
  end.
