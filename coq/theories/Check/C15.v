(** * Check/C15: judging every position the real server returned.  A case carries the
    documents (as lines of code points) and the observations collected over stdio, each
    tagged with what the protocol says it must be.  Codes (bits): 1 = outside the document,
    2 = start after end, 4 = does not cover exactly the token, 256 = the full range differs
    from the one Model/Ranges.v computes (correspondence), 8 = selection range outside
    the full range, 16 = navigation target not on a definition / yield line, 32 = duplicate
    entries; classes: 64 = a non-ASCII character stands before the end of the token on its
    line (columns are sent in bytes: known finding), 128 = the name is not spelled out in
    the string literal (implicit concatenation / escapes: the span falls back). *)
From PLS Require Export Spec.Positions Model.Ranges.

Inductive obs :=
| OMark (d : N) (names : list text) (r : range)             (* a range that marks a name *)
| OSym (d : N) (names : list text) (full sel : range) (model : option (N * N))
    (* a symbol / hierarchy item; [model] = (0, last line of the definition) for a document
       symbol, (1, _) for a hierarchy item: the full range Model/Ranges.v computes is compared *)
| ONav (d : N) (r : range) (lines : list N)                  (* a navigation target *)
| OAnchor (d : N) (names : list text) (p : lpos)             (* inlay hint position *)
| OList (l : list (N * range)).                              (* one result list: (document, range) *)

Record c15 := mk_c15 { c_docs : list doc; c_concat : list (N * N); c_obs : list obs }.

Inductive tag := CASE (n : N).
Definition bit (b : bool) (w : N) : N := if b then w else 0.
Definition get_doc (c : c15) (d : N) : doc := match nth_opt (c_docs c) d with Some x => x | None => [] end.

(** class 64: on the line of [p], a non-ASCII code point lies in the first [p_char p] BYTES *)
Fixpoint nonascii_within (l : text) (bytes : N) : bool :=
  match l with
  | [] => false
  | c :: r => if bytes =? 0 then false else (128 <=? c) || nonascii_within r (bytes - N.min bytes (width c))
  end.
Definition K_bytes (dc : doc) (p : lpos) : bool :=
  match nth_opt dc (p_line p) with Some l => nonascii_within l (p_char p) | None => false end.
Definition K_concat (c : c15) (d : N) (r : range) : bool :=
  existsb (fun dl => (fst dl =? d) && (snd dl =? p_line (r_start r))) (c_concat c).

Definition judge (c : c15) (o : obs) : N :=
  match o with
  | OMark d names r =>
      let dc := get_doc c d in
      let bad := bit (negb (in_doc dc r)) 1 + bit (negb (well_formed r)) 2 + bit (negb (marks dc r names)) 4 in
      if bad =? 0 then 0 else bad + bit (K_bytes dc (r_end r)) 64 + bit (K_concat c d r) 128
  | OSym d names full sel model =>
      let dc := get_doc c d in
      let line := p_line (r_start sel) + 1 in
      let corr := match model with
                  | Some (0, eline0) =>
                      let last_len := match nth_opt dc (N.max eline0 (p_line (r_start sel))) with Some l => len16 l | None => 0 end in
                      negb (range_eqb full (symbol_full line (eline0 + 1) (p_char (r_end sel)) last_len))
                  | Some (_, _) => negb (range_eqb full (item_full line (p_char (r_end sel))))
                  | None => false
                  end in
      let bad := bit (negb (in_doc dc full && in_doc dc sel)) 1 + bit (negb (well_formed full && well_formed sel)) 2
                 + bit (negb (marks dc sel names)) 4 + bit (negb (inside sel full)) 8 in
      (if bad =? 0 then 0 else bad + bit (K_bytes dc (r_end sel) || K_bytes dc (r_end full)) 64) + bit corr 256
  | ONav d r lines =>
      let dc := get_doc c d in
      bit (negb (in_doc dc r)) 1 + bit (negb (well_formed r)) 2
      + bit (negb (existsb (N.eqb (p_line (r_start r))) lines)) 16
  | OAnchor d names p =>
      let dc := get_doc c d in
      let bad := bit (negb (pos_in_doc dc p)) 1 + bit (negb (anchored_behind dc p names)) 4 in
      if bad =? 0 then 0 else bad + bit (K_bytes dc p) 64 + bit (K_concat c d (mk_range p p)) 128
  | OList l =>
      bit (negb (nodup_by (fun a b => (fst a =? fst b) && range_eqb (snd a) (snd b)) l)) 32
  end.

Fixpoint judge_all (c : c15) (os : list obs) (i : N) : list (N * N) :=
  match os with
  | [] => []
  | o :: r => let j := judge c o in (if j =? 0 then [] else [(i, j)]) ++ judge_all c r (i + 1)
  end.
Definition verdict_C15 (c : c15) : list (N * N) := judge_all c (c_obs c) 0.
