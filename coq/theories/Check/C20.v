(** * Check/C20: the CLI's numbers against the server's reference lists.
    A [Cli20] step carries what the real database returned at that point: the unused
    list, the per-(file, name) counts, and find_references_for_definition of EVERY
    definition.  Codes: 1 = model differs from implementation; 2 = the spec (CLI =
    server) rejects the implementation's answers; 8 = the spec rejects the model's;
    16.. = known classes. *)
From PLS Require Export Check.C08 Spec.CliSpec.

Inductive step20 :=
| Op20 (o : wop)
| Cli20 (unused : list key) (counts : list (key * N)) (server_refs : list (fdef * list usage)).

Definition kc_eqb (a b : key * N) : bool := key_eqb (fst a) (fst b) && (snd a =? snd b).
Definition dr_eqb (a b : fdef * list usage) : bool := fdef_eqb (fst a) (fst b) && list_eqb usage_eqb (snd a) (snd b).

Definition model_refs (s : index) : list (fdef * list usage) := map (fun d => (d, refs [] [] s d)) (defs s).

(** class: the outcome of resolution depends on the order in which the files were
    registered (C08's listed findings), which a parallel scan does not fix *)
Definition K_order (s : index) : bool := K_order_sensitive_import [] [] s || K_multi_provider s.

Definition judge20 (s : index) (unused : list key) (counts : list (key * N)) (srefs : list (fdef * list usage)) : N :=
  bit (negb (list_eqb key_eqb (cli_unused [] [] s) unused
             && set_eqb kc_eqb (cli_counts [] [] s) counts
             && set_eqb dr_eqb (model_refs s) srefs)) 1
  + bit (negb (unused_ok srefs unused && counts_ok srefs counts && sorted_keys unused)) 2
  + bit (negb (unused_ok (model_refs s) (cli_unused [] [] s) && counts_ok (model_refs s) (cli_counts [] [] s))) 8
  + bit (K_order s) 16.

Fixpoint run_case20 (s : index) (i : N) (steps : list step20) : list (N * N) :=
  match steps with
  | [] => []
  | Op20 o :: r => run_case20 (apply_wop s o) (i + 1) r
  | Cli20 unused counts srefs :: r =>
      let c := judge20 s unused counts srefs in
      (if c =? 0 then [] else [(i, c)]) ++ run_case20 s (i + 1) r
  end.
Definition verdict_C20 (steps : list step20) : list (N * N) := run_case20 empty_index 0 steps.

(** class of the final state of a list of operations (used for trees scanned by the real binary) *)
Definition class_C20 (steps : list step20) : list (N * N) :=
  let s := fold_left (fun s st => match st with Op20 o => apply_wop s o | _ => s end) steps empty_index in
  [(0, bit (K_order s) 16)].
(** the same for a tree that exists on disk (directories exist there, so dotted imports
    through packages resolve, which they cannot in a virtual workspace) *)
Definition class_C20_on_disk (c : disk * list step20) : list (N * N) :=
  let s := fold_left (fun s st => match st with Op20 o => apply_wop s o | _ => s end) (snd c) empty_index in
  [(0, bit (K_order_sensitive_import (fst c) [] s || K_multi_provider s) 16)].
