(** * Check/C19: published diagnostics.  A case is a configuration (the raw list of
    disabled codes of pyproject.toml) and a history of notifications; after each one a
    [Pub19] step carries what the client received for that document from the real
    server, and the findings a FRESH library database reports for the latest valid
    contents ([valid] = the notified text parses; while it does not, the findings of the
    last valid version stay published and the spec demands nothing).  Codes: 1 = model differs from the server; 2 = the published set is not
    (fresh findings minus disabled codes); 8 = the model's set is not; 16, 32 = classes. *)
From PLS Require Export Check.C08 Model.Lsp.

Inductive step19 :=
| Ev19 (o : wop)
| Pub19 (F : path) (valid : bool) (published : list diag) (fresh_findings : list diag).

Definition diags_eqb (a b : list diag) : bool :=
  set_eqb diag_eqb a b && (len a =? len b).

Definition model_cfg (raw_disabled : list string) : config := from_raw (fun _ => true) [] raw_disabled.
Definition spec_filter (raw_disabled : list string) (l : list diag) : list diag :=
  filter (fun d => negb (mem_str (code_string (dg_code d)) raw_disabled)) l.

Definition post_publish (s : index) (F : path) : index :=
  post_query [] [] (post_cycles [] [] s) (QMismatches F []).

Fixpoint run_case19 (raw : list string) (s : index) (lve : list (path * list edge)) (i : N) (steps : list step19)
  : list (N * N) :=
  match steps with
  | [] => []
  | Ev19 o :: r => run_case19 raw (apply_wop s o) (note_edges lve o) (i + 1) r
  | Pub19 F valid pub fresh :: r =>
      let m := publish [] [] (model_cfg raw) s F in
      let c := bit (negb (diags_eqb m pub)) 1
               + bit (valid && negb (diags_eqb pub (spec_filter raw fresh))) 2
               + bit (valid && negb (diags_eqb m (spec_filter raw fresh))) 8
               + bit (K_invalid_hides_imports s lve) 16
               + bit (K_order_sensitive_import [] [] s || K_multi_provider s) 32 in
      (if c =? 0 then [] else [(i, c)]) ++ run_case19 raw (post_publish s F) lve (i + 1) r
  end.

Definition verdict_C19 (c : list string * list step19) : list (N * N) :=
  run_case19 (fst c) empty_index [] 0 (snd c).

(** configuration cases: (raw excludes, validity of each, raw disabled codes, what
    Config::parse kept) *)
Record ccase := mk_ccase {
  cc_exclude : list string; cc_valid : list bool; cc_disabled : list string; cc_toml_ok : bool;
  cc_impl_exclude : list string; cc_impl_disabled : list string }.
Definition valid_of (c : ccase) (p : string) : bool :=
  match find (fun pv => String.eqb (fst pv) p) (combine (cc_exclude c) (cc_valid c)) with
  | Some pv => snd pv | None => false end.
Definition verdict_cfg (c : ccase) : list (N * N) :=
  let m := if cc_toml_ok c then from_raw (valid_of c) (cc_exclude c) (cc_disabled c) else default_config in
  let ok := list_eqb String.eqb (cfg_exclude m) (cc_impl_exclude c)
            && list_eqb String.eqb (cfg_disabled m) (cc_impl_disabled c) in
  if ok then [] else [(0, 1)].
