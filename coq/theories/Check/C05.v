(** * Check/C05: all features agree on which definition a name denotes. *)
From PLS Require Export Check.C04.

Section C05.
  Variable dk : disk.
  Variable roots : list path.

  Definition lookup_av (n : string) (av : list fdef) : option fdef :=
    find (fun d => String.eqb (d_name d) n) av.

  (** the property, on answers: one entry per visible name, and it is the entry
      go-to-definition navigates to; the by-name resolver used by hover-like
      features agrees *)
  Definition agree_ok (av : list fdef) (per : list (string * option fdef * option fdef)) : bool :=
    nodupb String.eqb (map d_name av)
    && forallb (fun x => match x with
                         | (n, c, r) => opt_def_eqb (lookup_av n av) c && opt_def_eqb r c
                         end) per
    && forallb (fun d => existsb (fun x => String.eqb (fst (fst x)) (d_name d)) per) av.

  Definition per_ok (av : list fdef) (x : string * option fdef * option fdef) : bool :=
    match x with (n, c, r) => opt_def_eqb (lookup_av n av) c && opt_def_eqb r c end.

  (** known classes, per (file, name) *)
  (** the name reaches the file through a conftest import: the per-file view (and the
      resolver, C01) hand out the first-registered definition *)
  Definition K_rff_ignores_imports (s : index) (F : path) (n : string) : bool :=
    existsb (fun dir => is_imported dk roots s n (conftest_py :: dir)) (ancestors (tl F)).
  (** [resolve_fixture_for_file] ignores imports and falls back to the first-registered
      definition even when nothing is visible *)
  Definition K_rff_fallback (s : index) (F : path) (n : string) : bool :=
    match closest dk roots s F n, resolve_for_file s F n with
    | None, Some _ => true
    | _, _ => false
    end.

  Definition model_per (s : index) (F : path) (names : list string) : list (string * option fdef * option fdef) :=
    map (fun n => (n, closest dk roots s F n, resolve_for_file s F n)) names.

  Definition judge_C05 (s : index) (q : query) : N :=
    match q with
    | QAgree F av per =>
        (* the known classes concern only the by-name resolver (third component) *)
        let bad_av := filter (fun x => match x with (n, c, _) => negb (opt_def_eqb (lookup_av n av) c) end) per in
        let bad_rff := filter (fun x => match x with (_, c, r) => negb (opt_def_eqb r c) end) per in
        let names_bad := map (fun x => fst (fst x)) bad_rff in
        let struct_ok := nodupb String.eqb (map d_name av)
                         && forallb (fun d => existsb (fun x => String.eqb (fst (fst x)) (d_name d)) per) av
                         && (len bad_av =? 0) in
        let mper := model_per s F (map (fun x => fst (fst x)) per) in
        let mav := available dk roots s F in
        bit (negb (corr dk roots s q)) 1
        + bit (negb (agree_ok av per)) 2
        + bit (negb (agree_ok mav mper)) 8
        + bit (struct_ok && negb (forallb (fun n => negb (K_rff_ignores_imports s F n)) names_bad)) 32
        + bit (struct_ok && negb (forallb (fun n => negb (K_rff_fallback s F n)) names_bad)) 64
    | _ => bit (negb (corr dk roots s q)) 1
    end.

  Definition verdict_C05 (c : wcase) : list (N * N) :=
    run_case judge_C05 empty_index 0 (w_steps c).
End C05.
