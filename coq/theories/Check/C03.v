(** * Check/C03: (1) the analyzer model (Model/Analyzer.v, on CPython's tree) against the
    real index after analyze_file (rustpython's tree): the facts are COMPUTED IN COQ from
    the parsed module; (2) the spec (Spec/Extract.v) evaluated on the implementation's
    records for the file.  Codes: 1 = model differs from the implementation; 2 = the spec
    rejects the implementation's records; 8 = the spec rejects the model's; 16.. classes. *)
From PLS Require Export Spec.Extract Check.Verdict Model.History.

Definition pair_leb (a b : string * N) : bool :=
  if snd a =? snd b then String.leb (fst a) (fst b) else snd a <? snd b.
Definition sort_pairs (l : list (string * N)) : list (string * N) := isort pair_leb l.
Definition pairs_eqb (a b : list (string * N)) : bool :=
  list_eqb (fun x y => String.eqb (fst x) (fst y) && (snd x =? snd y)) (sort_pairs a) (sort_pairs b).

Definition sdef_matches (sd : sdef) (d : fdef) : bool :=
  String.eqb (sd_name sd) (d_name d) && (sd_line sd =? d_line d) && (sd_end_line sd =? d_end_line d)
  && list_eqb String.eqb (sd_deps sd) (d_deps d) && (sd_scope sd =? d_scope d)
  && Bool.eqb (sd_autouse sd) (d_autouse d) && opt_eqb N.eqb (sd_yield sd) (d_yield d)
  && opt_eqb String.eqb (sd_ret sd) (d_ret d) && opt_eqb String.eqb (sd_doc sd) (d_doc d).

Definition def_leb (a b : fdef) : bool :=
  if d_line a =? d_line b then String.leb (d_name a) (d_name b) else d_line a <? d_line b.
Definition sdef_leb (a b : sdef) : bool :=
  if sd_line a =? sd_line b then String.leb (sd_name a) (sd_name b) else sd_line a <? sd_line b.

Fixpoint forall2b {A B} (p : A -> B -> bool) (l1 : list A) (l2 : list B) : bool :=
  match l1, l2 with
  | [], [] => true
  | x :: l1', y :: l2' => p x y && forall2b p l1' l2'
  | _, _ => false
  end.
Definition defs_ok (spec : list sdef) (impl : list fdef) : bool :=
  forall2b sdef_matches (isort sdef_leb spec) (isort def_leb impl).

(** ** classes of programs on which the analyzer is known to deviate *)
Fixpoint has_str (fuel : nat) (e : expr) : bool :=
  match fuel with
  | O => false
  | S f => match e with EStr _ _ _ _ _ => true | _ => existsb (has_str f) (sub_exprs e) end
  end.
Definition fixture_fns (m : list stmt) : list stmt :=
  filter (fun st => match st with SFunctionDef _ _ decs _ _ _ _ _ => existsb fixture_spelling decs | _ => false end)
         (flat_map collected m).
(** a fixture whose generator status / yield line the two hand-written visitors get wrong *)
Definition K_yield_forms (m : list stmt) : bool :=
  existsb (fun st => match st with
                     | SFunctionDef _ _ _ _ _ body _ _ =>
                         negb (Bool.eqb (spec_is_generator body) (contains_yield body))
                         || negb (opt_eqb N.eqb (spec_yield_line body) (find_yield_line body))
                     | _ => false
                     end) (fixture_fns m).
(** a return annotation that contains a string (forward reference) *)
Definition K_forward_ref (m : list stmt) : bool :=
  existsb (fun st => match st with
                     | SFunctionDef _ _ _ _ (Some r) _ _ _ => has_str (expr_size r) r
                     | _ => false
                     end) (fixture_fns m).
(** a fixture or test parameter with a default value *)
Definition K_param_default (m : list stmt) : bool :=
  existsb (fun st => match st with
                     | SFunctionDef _ name decs args _ _ _ _ =>
                         (existsb fixture_spelling decs || prefixb "test_" name) && existsb ar_default args
                     | _ => false
                     end) (flat_map collected m).
(** a test parameter that a parametrize mark on the function supplies directly *)
Definition direct_params (decs : list expr) : list string :=
  flat_map (fun d => match d with
                     | ECall f (EStr ps _ _ _ _ :: _) _ =>
                         if mark_spelling "parametrize" f
                         then filter (fun n => negb (mem_str n (map lu_name (indirect_fixtures [] d)))) (param_names ps)
                         else []
                     | _ => []
                     end) decs.
Definition K_direct_parametrize (m : list stmt) : bool :=
  existsb (fun st => match st with
                     | SFunctionDef _ _ decs args _ _ _ _ => existsb (fun a => mem_str (ar_name a) (direct_params decs)) args
                     | _ => false
                     end) (flat_map collected m).

Definition strict_requests (m : list stmt) : list (string * N) :=
  flat_map (fun st => match st with
                      | SFunctionDef _ _ decs _ _ _ _ _ =>
                          filter (fun p => negb (mem_str (fst p) (direct_params decs)
                                                 && negb (memb (fun a b => String.eqb (fst a) (fst b) && (snd a =? snd b)) p
                                                               (flat_map (mark_strings "usefixtures") decs
                                                                ++ flat_map (fun d => map (fun u => (lu_name u, lu_line u)) (indirect_fixtures [] d)) decs))))
                                 (spec_requests_of true st)
                      | _ => spec_requests_of true st
                      end) (flat_map collected m).

Record c03 := mk_c03 {
  c_path : path; c_text : N; c_content : text; c_parsed : option (list stmt);
  c_defs : list fdef;                    (* impl: the definitions recorded for the file *)
  c_usages : list (string * N) }.        (* impl: (name, line) of the usages recorded for the file *)

Definition judge_spec (c : c03) : N :=
  match c_parsed c with
  | None => bit (negb (match c_defs c, c_usages c with [], [] => true | _, _ => false end)) 2
  | Some m =>
      let f := facts_of (c_text c) (c_content c) (c_parsed c) in
      let model_defs := map (attach_p [] (c_path c)) (item_defs (f_items f)) in
      let model_uses := map (fun u => (lu_name u, lu_line u)) (item_uses (f_items f)) in
      let spec := spec_defs m in
      bit (negb (defs_ok spec (c_defs c) && pairs_eqb (strict_requests m) (c_usages c))) 2
      + bit (negb (defs_ok spec model_defs && pairs_eqb (strict_requests m) model_uses)) 8
      + bit (K_yield_forms m) 16 + bit (K_forward_ref m) 32 + bit (K_param_default m) 64
      + bit (K_direct_parametrize m) 128
  end.

Definition judge_C03 (s : index) (q : query) : N := bit (negb (corr [] [] s q)) 1.
Definition verdict_C03 (c : wcase * c03) : list (N * N) :=
  run_case judge_C03 empty_index 0 (w_steps (fst c))
  ++ (let j := judge_spec (snd c) in if j =? 0 then [] else [(1, j)]).
