(** * Check/C13: discovery.  A case is a directory tree written at some absolute root,
    the oracle answers of the glob matcher, and what the real scan indexed there
    (root-relative).  Codes: 1 = model and implementation disagree; 2 = the spec
    rejects the implementation's outcome; 8 = the spec rejects the model's outcome. *)
From PLS Require Export Spec.Discovery.

Definition bit (b : bool) (v : N) : N := if b then v else 0.

Record scase := mk_scase {
  sc_root : path;                                 (* absolute root, leaf first *)
  sc_tree : list tree;
  sc_excluded : list path;                        (* root-relative paths matched by some pattern *)
  sc_analysed : list path;                        (* impl: indexed pytest-named files, root-relative *)
  sc_defs : list (path * string * bool) }.        (* impl: (file, fixture, is_third_party) *)

Definition excl_of (c : scase) (p : path) : bool := mem_path p (sc_excluded c).
Definition pset_eqb (a b : list path) : bool := set_eqb path_eqb a b.

Definition model_files (c : scase) : list path := analysed (excl_of c) (sc_tree c).
Definition spec_files (c : scase) : list path := map fst (filter snd (spec_selected (excl_of c) (sc_tree c))).

Definition flags_model_ok (c : scase) : bool :=
  forallb (fun x => match x with (p, _, third) => Bool.eqb third (third_party_rel p) end) (sc_defs c).
(** spec: a project file's classification depends on its root-relative path only; the
    scan never selects a file below a site-packages directory, so none is third-party;
    and only indexed files contribute definitions *)
Definition flags_spec_ok (c : scase) : bool :=
  forallb (fun x => match x with (p, _, third) => negb third && mem_path p (spec_files c) end) (sc_defs c).

Definition verdict_C13 (c : scase) : list (N * N) :=
  let code := bit (negb (pset_eqb (model_files c) (sc_analysed c) && flags_model_ok c)) 1
              + bit (negb (pset_eqb (spec_files c) (sc_analysed c) && flags_spec_ok c)) 2
              + bit (negb (pset_eqb (spec_files c) (model_files c))) 8 in
  if code =? 0 then [] else [(0, code)].

Inductive tag := CASE (n : N).
