(** * Check/C14: the workspace scan on a tree with a synthetic virtual environment.
    A case carries the tree (Python files with their facts, metadata of site-packages), the
    files phase 1 selected, and what the real scan left behind: the analysed files, the
    plugin files, the flags of every definition, and the fixtures available from every
    test file.  Verdicts are (question, code): question 0 = analysed files, 1 = plugin
    files, 2 = definition flags, 3 + k = availability from the k-th test file.
    Codes: 1 = model differs from the implementation; 2 = the spec rejects the
    implementation; 4 = the model ran out of fuel (never expected); 8 = the spec rejects
    the model; class 16 = the test module itself imports fixtures (known finding). *)
From PLS Require Export Spec.ImportsSpec.

Inductive tag := CASE (n : N).
Definition bit (b : bool) (w : N) : N := if b then w else 0.

Record idef := mk_idef { id_name : string; id_file : path; id_third : bool; id_plugin : bool }.
Record c14 := mk_c14 {
  k_fd : list (path * facts);
  k_ws : path;
  k_sp : option path;
  k_dists : list dist;
  k_pths : list (text * text);
  k_selected : list path;
  k_cached : list path;                       (* implementation *)
  k_plugin : list path;
  k_defs : list idef;
  k_avail : list (path * list (string * path)) }.

Definition subset (a b : list path) : bool := forallb (fun x => mem_path x b) a.
Definition same_set (a b : list path) : bool := subset a b && subset b a.
Definition subset_s (a b : list string) : bool := forallb (fun x => mem_str x b) a.

Definition verdict_C14 (c : c14) : list (N * N) :=
  let fd := k_fd c in
  let st3 := venv_scan fd (k_sp c) (k_dists c) (k_pths c)
                       (fold_left (fun st p => analyse fd p st) (k_selected c) (mk_sst [] [])) in
  let fin := import_scan_opt fd (k_sp c) (k_dists c) (k_pths c) st3 in
  let st := match fin with Some s => s | None => st3 end in
  let third := third_party fd (k_ws c) (k_sp c) (k_dists c) (k_pths c) in
  (* spec: analysed = the files before phase 4 and everything reachable from the seeds *)
  let expected := match closure fd (k_sp c) (k_dists c) (k_pths c) (seed_files fd (k_sp c) (k_dists c) (k_pths c) st3) with
                  | Some cl => Some (dedup path_eqb (ss_cached st3 ++ filter (fun p => ahas p fd) cl))
                  | None => None
                  end in
  let q0 := bit (negb (same_set (ss_cached st) (k_cached c))) 1
            + bit (match expected with Some e => negb (same_set e (k_cached c)) | None => false end) 2
            + bit (match fin, expected with Some _, Some _ => false | _, _ => true end) 4
            + bit (match expected with Some e => negb (same_set e (ss_cached st)) | None => false end) 8 in
  (* spec: plugin files = those of phase 3 and everything reachable through star imports / pytest_plugins *)
  let pexpected := dedup path_eqb (ss_plugin st3 ++ star_closure fd (k_sp c) (k_dists c) (k_pths c)
                                                    (S (length fd + edge_count fd + length fd)) []
                                                    (flat_map (star_targets fd (k_sp c) (k_dists c) (k_pths c)) (ss_plugin st3))) in
  let q1 := bit (negb (same_set (ss_plugin st) (k_plugin c))) 1
            + bit (negb (same_set pexpected (k_plugin c))) 2
            + bit (negb (same_set pexpected (ss_plugin st))) 8 in
  (* flags: third-party by where the source lives, plugin iff the file is a plugin file *)
  let flag_ok := fun (pl : list path) (d : idef) =>
                   Bool.eqb (id_third d) (third (id_file d)) && Bool.eqb (id_plugin d) (mem_path (id_file d) pl) in
  let q2 := bit (negb (forallb (flag_ok (k_plugin c)) (k_defs c))) 2 in
  let avail_q :=
    map (fun fa =>
           let T := fst fa in
           let names := map fst (snd fa) in
           let discovered := fun p => match expected with Some e => mem_path p e | None => mem_path p (k_cached c) end in
           let spec := spec_available_names fd (k_sp c) (k_dists c) (k_pths c)
                                            (fun p => discovered p && mem_path p (k_plugin c))
                                            (fun p => discovered p && third p) T in
           let justified := forallb (fun nf => mem_str (fst nf) (defs_of fd (snd nf))) (snd fa) in
           let bad := negb (subset_s names spec && subset_s spec names && justified) in
           let own := imported_names fd (k_sp c) (k_dists c) (k_pths c) T in
           bit bad 2 + bit (bad && negb (match own with [] => true | _ => false end)
                            && subset_s spec (names ++ own) && subset_s names spec) 16)
        (k_avail c) in
  let qs := [q0; q1; q2] ++ avail_q in
  (fix go (l : list N) (i : N) : list (N * N) :=
     match l with [] => [] | x :: r => (if x =? 0 then [] else [(i, x)]) ++ go r (i + 1) end) qs 0.
