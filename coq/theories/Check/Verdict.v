(** * Check/Verdict: executable per-case verdicts used by the correspondence check.
    A case is a list of steps (index operations and queries); every query carries
    the answer the real implementation gave.  For every query the verdict says
      bit 1 — the model's answer differs from the implementation's  (correspondence)
      bit 2 — the SPEC rejects the implementation's answer           (property)
      bit 4 — a hypothesis of the property's theorem is not met by this state (validation
              of the hypotheses on generated cases; never expected)
      bit 8 — the spec rejects the MODEL's answer (must coincide with a _refuted class)
      bits 16, 32, ... — the query lies in a known-finding class (one bit per class)
    Definitions only. *)
From PLS Require Export Spec.Pytest Model.Cache Model.Diagnostics.

Inductive wop :=
| OAnalyze (cleanup : bool) (F : path) (v : facts)
| OClose (F : path)
| OMarkPlugin (F : path).

Definition apply_wop (s : index) (o : wop) : index :=
  match o with
  | OAnalyze c F v => analyze c F v s
  | OClose F => close F s
  | OMarkPlugin F => mark_plugin F s
  end.

(** the dump of the real maps, in the harness's canonical form *)
Record dump := mk_dump {
  dp_defs : list (string * list fdef);
  dp_file_defs : list (path * list string);
  dp_usages : list (path * list usage);
  dp_usage_by : list (string * list usage);
  dp_undeclared : list (path * list undecl);
  dp_modnames : list (path * list string);
  dp_cache : list (path * N);           (* file -> text id *)
  dp_version : N }.

Inductive query :=
| QGoto (F : path) (line col : N) (ans : option fdef)
| QRefs (d : fdef) (ans : list usage)
| QAvailable (F : path) (ans : list fdef)
| QImported (F : path) (ans : list string)
| QClosest (F : path) (n : string) (ans : option fdef)
| QResolveForFile (F : path) (n : string) (ans : option fdef)
| QIsAvailable (F : path) (n : string) (ans : bool)
| QGotoOrDef (F : path) (line col : N) (ans : option fdef)
| QNameAt (F : path) (line col : N) (ans : option string)
| QRefsX (d : fdef) (ans : list usage) (gotos : list (usage * option fdef))
| QAgree (F : path) (avail : list fdef) (per : list (string * option fdef * option fdef))
| QCycles (ans : list cycle)
| QCyclesInFile (F : path) (ans : list cycle)
| QMismatches (F : path) (ans : list mismatch)
| QDump (d : dump).

Inductive step := Op (o : wop) | Ask (q : query).

Record wcase := mk_wcase {
  w_disk : disk;
  w_roots : list path;
  w_steps : list step }.

Inductive tag := CASE (n : N).

(** ** dump comparison *)
Definition sum_len {K V} (l : list (K * list V)) : N :=
  fold_left (fun a kv => a + len (snd kv)) l 0.

Definition dump_ok (s : index) (d : dump) : bool :=
  forallb (fun kv => list_eqb fdef_eqb (defs_named s (fst kv)) (snd kv) && negb (len (snd kv) =? 0)) (dp_defs d)
  && (sum_len (dp_defs d) =? len (defs s))
  && forallb (fun kv => set_eqb String.eqb (file_def_names s (fst kv)) (snd kv)) (dp_file_defs d)
  && (sum_len (dp_file_defs d) =? len (file_defs s))
  && forallb (fun kv => list_eqb usage_eqb (usages_of_file s (fst kv)) (snd kv)) (dp_usages d)
  && (sum_len (dp_usages d) =? len (usages s))
  && forallb (fun kv => list_eqb usage_eqb (usage_by_name s (fst kv)) (snd kv) && negb (len (snd kv) =? 0)) (dp_usage_by d)
  && (sum_len (dp_usage_by d) =? len (usage_by s))
  && forallb (fun kv => list_eqb undecl_eqb (undeclared_of_file s (fst kv)) (snd kv)) (dp_undeclared d)
  && (sum_len (dp_undeclared d) =? len (undeclared s))
  && forallb (fun kv => match alookup (fst kv) (modnames s) with
                        | Some l => set_eqb String.eqb l (snd kv) | None => false end) (dp_modnames d)
  && (len (dp_modnames d) =? len (modnames s))
  && forallb (fun kv => match alookup (fst kv) (file_cache s) with
                        | Some c => c_text c =? snd kv | None => false end) (dp_cache d)
  && (len (dp_cache d) =? len (file_cache s))
  && (dp_version d =? version s).

Definition cycle_eqb (a b : cycle) : bool :=
  list_eqb String.eqb (cy_path a) (cy_path b) && fdef_eqb (cy_fixture a) (cy_fixture b).
Definition mismatch_eqb (a b : mismatch) : bool :=
  fdef_eqb (mm_fixture a) (mm_fixture b) && fdef_eqb (mm_dependency a) (mm_dependency b).

(** ** the model's answer, per query *)
Definition opt_def_eqb := opt_eqb fdef_eqb.

Section Verdict.
  Variable dk : disk.
  Variable roots : list path.

  Definition usage_at (s : index) (F : path) (line0 col : N) : option usage :=
    find (fun u => N.eqb (u_line u) (line0 + 1) && (u_start u <=? col) && (col <? u_end u))
         (usages_of_file s F).

  Definition corr (s : index) (q : query) : bool :=
    match q with
    | QGoto F l c ans => opt_def_eqb (goto dk roots s F l c) ans
    | QRefs d ans => list_eqb usage_eqb (refs dk roots s d) ans
    | QAvailable F ans => list_eqb fdef_eqb (available dk roots s F) ans
    | QImported F ans => set_eqb String.eqb (imported dk roots s F) ans
    | QClosest F n ans => opt_def_eqb (closest dk roots s F n) ans
    | QResolveForFile F n ans => opt_def_eqb (resolve_for_file s F n) ans
    | QIsAvailable F n ans => Bool.eqb (is_available s F n) ans
    | QGotoOrDef F l c ans => opt_def_eqb (goto_or_def dk roots s F l c) ans
    | QNameAt F l c ans => opt_eqb String.eqb (name_at dk s F l c) ans
    | QRefsX d ans gotos =>
        list_eqb usage_eqb (refs dk roots s d) ans
        && forallb (fun ug => opt_def_eqb (resolve_usage dk roots s (u_file (fst ug)) (u_line (fst ug)) (u_name (fst ug)))
                                          (snd ug)) gotos
    | QAgree F avail per =>
        list_eqb fdef_eqb (available dk roots s F) avail
        && forallb (fun x => match x with
                             | (n, c, r) => opt_def_eqb (closest dk roots s F n) c
                                            && opt_def_eqb (resolve_for_file s F n) r
                             end) per
    | QCycles ans => list_eqb cycle_eqb (cycles dk roots s) ans
    | QCyclesInFile F ans => list_eqb cycle_eqb (cycles_in_file dk roots s F) ans
    | QMismatches F ans => set_eqb mismatch_eqb (mismatches dk roots s F) ans
    | QDump d => dump_ok s d
    end.
End Verdict.

(** ** what a query leaves in the memo caches *)
Definition post_query (dk : disk) (roots : list path) (s : index) (q : query) : index :=
  match q with
  | QGoto F l c _ | QGotoOrDef F l c _ => post_goto dk roots s F l c
  | QRefs d _ => post_refs dk roots s d
  | QRefsX d _ gotos =>
      let s1 := post_refs dk roots s d in
      fold_left (fun s u => post_resolve_usage dk roots s (u_file u) (u_line u) (u_name u))
                (usage_by_name s (d_name d)) s1
  | QAvailable F _ => post_available dk roots s F
  | QImported F _ => imp_store dk roots s F
  | QClosest F n _ => post_closest_with dk roots s (fun _ => true) F n
  | QAgree F _ per =>
      fold_left (fun s x => post_closest_with dk roots s (fun _ => true) F (fst (fst x))) per
                (post_available dk roots s F)
  | QCycles _ | QCyclesInFile _ _ => post_cycles dk roots s
  | QMismatches F _ =>
      fold_left (fun s n =>
                   match max_by_key d_line (filter (fun d => path_eqb (d_file d) F) (defs_named s n)) with
                   | None => s
                   | Some f =>
                       fold_left (fun s dn =>
                                    if String.eqb dn (d_name f)
                                    then post_closest_with dk roots s (fun x => negb (fdef_eqb x f)) F dn
                                    else post_closest_with dk roots s (fun _ => true) F dn)
                                 (d_deps f) s
                   end)
                (file_def_names s F) s
  | _ => s
  end.

(** ** running a case *)
Definition bit (b : bool) (w : N) : N := if b then w else 0.

Fixpoint run_case (judge : index -> query -> N) (s : index) (i : N) (steps : list step) : list (N * N) :=
  match steps with
  | [] => []
  | Op o :: r => run_case judge (apply_wop s o) (i + 1) r
  | Ask q :: r =>
      let c := judge s q in
      (if c =? 0 then [] else [(i, c)]) ++ run_case judge (post_query [] [] s q) (i + 1) r
  end.

Definition final_index (steps : list step) : index :=
  fold_left (fun s st => match st with Op o => apply_wop s o | Ask _ => s end) steps empty_index.
