(** * Check/C02: a self-named parameter resolves outward; the cursor decides. *)
From PLS Require Export Check.C04.

Section C02.
  Variable dk : disk.
  Variable roots : list path.

  (** known-finding classes *)

  Definition def_at_pos (s : index) (F : path) (line0 col : N) : option fdef :=
    find (fun d => path_eqb (d_file d) F && N.eqb (d_line d) (line0 + 1)
                   && (d_start d <=? col) && (col <? d_end d)) (defs s).

  Definition judge_C02 (s : index) (q : query) : N :=
    match q with
    | QGoto F l c ans =>
        let m := goto dk roots s F l c in
        match usage_at s F l c with
        | Some u =>
            match enclosing_same_named s u with
            | Some d =>
                let n := u_name u in
                let ok r := allowed_ex dk roots s (Some d) F n r && negb (opt_def_eqb r (Some d)) in
                bit (negb (opt_def_eqb m ans)) 1
                + bit (negb (ok ans)) 2
                + bit (negb (ok m)) 8
                + bit (K_import_provenance dk roots s (Some d) F n) 64
                + bit (negb (imports_completeb dk roots s F n)) 4
            | None => bit (negb (opt_def_eqb m ans)) 1
            end
        | None => bit (negb (opt_def_eqb m ans)) 1
        end
    | QGotoOrDef F l c ans =>
        let m := goto_or_def dk roots s F l c in
        match usage_at s F l c, def_at_pos s F l c with
        | None, Some d =>
            (* on the function name: navigation concerns the overriding fixture itself *)
            bit (negb (opt_def_eqb m ans)) 1 + bit (negb (opt_def_eqb ans (Some d))) 2
            + bit (negb (opt_def_eqb m (Some d))) 8
            + bit (1 <? len (filter (fun d' => path_eqb (d_file d') F && N.eqb (d_line d') (l + 1)) (defs s))) 128
        | _, _ => bit (negb (opt_def_eqb m ans)) 1
        end
    | QRefsX d ans gotos =>
        (* references from the function name concern the overriding fixture: its own
           same-named parameter is a reference to the NEXT definition outward *)
        bit (negb (corr dk roots s q)) 1
        + bit (negb (refs_inverse_ok d ans gotos)) 2
        + bit (negb (refs_inverse_ok d (refs dk roots s d) (model_gotos dk roots s d))) 8
    | _ => bit (negb (corr dk roots s q)) 1
    end.

  Definition verdict_C02 (c : wcase) : list (N * N) :=
    run_case judge_C02 empty_index 0 (w_steps c).
End C02.
