(** * Check/C09: executable pieces of the concurrency model used by the check: the number
    of write-lock acquisitions an analysis makes on a shared per-name map (one per
    pending operation of its program, plus one per vector it empties). *)
From PLS Require Export Model.Conc.
Definition program_length {key item} (L : list key) (items : list (key * item)) : nat :=
  length (program key item L items).
