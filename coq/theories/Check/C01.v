(** * Check/C01: verdict for "resolution follows pytest's shadowing order". *)
From PLS Require Export Check.Verdict.

Section C01.
  Variable dk : disk.
  Variable roots : list path.

  (** known-finding classes (decidable input patterns; see Properties/C01.v) *)

  (** the cascade stops at a conftest that merely IMPORTS the name and hands out the
      first-registered same-named definition, which that conftest does not import *)
  Definition flt_of (ex : option fdef) : fdef -> bool :=
    fun d => match ex with Some x => negb (fdef_eqb d x) | None => true end.

  Definition stop_at (s : index) (flt : fdef -> bool) (n : string) (dirs : list path) : option (path * fdef) :=
    first_some (fun dir =>
                  match conftest_step dk roots s flt (defs_named s n) n dir with
                  | Some d => Some (dir, d)
                  | None => None
                  end) dirs.

  Definition import_stop (s : index) (flt : fdef -> bool) (F : path) (n : string) : option (path * fdef) :=
    match last_binding flt (defs_named s n) F with
    | Some _ => None
    | None => stop_at s flt n (ancestors (tl F))
    end.

  Definition K_import_provenance (s : index) (ex : option fdef) (F : path) (n : string) : bool :=
    match import_stop s (flt_of ex) F n with
    | Some (dir, d) => negb (conftest_class dk roots s dir n d)
    | None => false
    end.

  (** the hypothesis [imports_complete] of the C01 theorems, decided on a concrete state *)
  Definition imports_completeb (s : index) (F : path) (n : string) : bool :=
    forallb (fun dir =>
               forallb (fun d => implb (import_class dk roots s (conftest_py :: dir) n d)
                                       (is_imported dk roots s n (conftest_py :: dir)))
                       (defs_named s n))
            (ancestors (tl F)).

  (** class bits: 16 = import provenance *)
  Definition known_C01 (s : index) (F : path) (n : string) : N :=
    bit (K_import_provenance s None F n) 16.

  Definition judge_C01 (s : index) (q : query) : N :=
    match q with
    | QGoto F l c ans =>
        let m := goto dk roots s F l c in
        match usage_at s F l c with
        | Some u =>
            match enclosing_same_named s u with
            | Some _ => bit (negb (opt_def_eqb m ans)) 1   (* self-named parameter: C02's subject *)
            | None =>
                let n := u_name u in
                bit (negb (opt_def_eqb m ans)) 1
                + bit (negb (allowed dk roots s F n ans)) 2
                + known_C01 s F n
                + bit (negb (allowed dk roots s F n m)) 8
                + bit (negb (imports_completeb s F n)) 4
            end
        | None => bit (negb (opt_def_eqb m ans)) 1 + bit (is_some ans) 2
        end
    | QClosest F n ans =>
        let m := closest dk roots s F n in
        bit (negb (opt_def_eqb m ans)) 1
        + bit (negb (allowed dk roots s F n ans)) 2
        + known_C01 s F n
        + bit (negb (allowed dk roots s F n m)) 8
        + bit (negb (imports_completeb s F n)) 4
    | _ => bit (negb (corr dk roots s q)) 1
    end.

  Definition verdict_C01 (c : wcase) : list (N * N) :=
    run_case judge_C01 empty_index 0 (w_steps c).
End C01.
