(** * Check/C01: verdict for "resolution follows pytest's shadowing order". *)
From PLS Require Export Check.Verdict.

Section C01.
  Variable dk : disk.
  Variable roots : list path.

  (** known-finding classes (decidable input patterns; see Properties/C01.v) *)

  (** an ancestor conftest.py binds the name more than once (the resolver returns
      its FIRST binding, pytest uses the last) *)
  Definition K_conftest_redefinition (s : index) (F : path) (n : string) : bool :=
    existsb (fun dir => 1 <? len (defs_in s (conftest_py :: dir) n)) (ancestors (tl F)).

  (** the cascade stops at a conftest that merely IMPORTS the name and hands out the
      first-registered same-named definition, which that conftest does not import *)
  Definition import_stop (s : index) (flt : fdef -> bool) (F : path) (n : string) : option (path * fdef) :=
    let dn := defs_named s n in
    match max_by_key d_line (filter (fun d => path_eqb (d_file d) F && flt d) dn) with
    | Some _ => None
    | None =>
        first_some (fun dir =>
                      match conftest_step dk roots s flt dn n dir with
                      | Some d => Some (dir, d)
                      | None => None
                      end) (ancestors (tl F))
    end.

  Definition K_import_provenance (s : index) (ex : option fdef) (F : path) (n : string) : bool :=
    let flt := fun d => match ex with Some x => negb (fdef_eqb d x) | None => true end in
    match import_stop s flt F n with
    | Some (dir, d) =>
        negb (path_eqb (d_file d) (conftest_py :: dir))
        && negb (conftest_class dk roots s dir n d)
    | None => false
    end.

  Definition known_C01 (s : index) (F : path) (n : string) : bool :=
    K_conftest_redefinition s F n || K_import_provenance s None F n.

  Definition judge_C01 (s : index) (q : query) : N :=
    match q with
    | QGoto F l c ans =>
        let m := goto dk roots s F l c in
        match usage_at s F l c with
        | Some u =>
            match enclosing_same_named s u with
            | Some _ => bit (negb (opt_def_eqb m ans)) 1   (* self-named parameter: C02's subject *)
            | None =>
                let n := u_name u in
                bit (negb (opt_def_eqb m ans)) 1
                + bit (negb (allowed dk roots s F n ans)) 2
                + bit (known_C01 s F n) 4
                + bit (negb (allowed dk roots s F n m)) 8
            end
        | None => bit (negb (opt_def_eqb m ans)) 1 + bit (is_some ans) 2
        end
    | QClosest F n ans =>
        let m := closest dk roots s F n in
        bit (negb (opt_def_eqb m ans)) 1
        + bit (negb (allowed dk roots s F n ans)) 2
        + bit (known_C01 s F n) 4
        + bit (negb (allowed dk roots s F n m)) 8
    | _ => bit (negb (corr dk roots s q)) 1
    end.

  Definition verdict_C01 (c : wcase) : list (N * N) :=
    run_case judge_C01 empty_index 0 (w_steps c).
End C01.
