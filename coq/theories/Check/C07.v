(** * Check/C07: caching, closing documents and eviction are invisible. *)
From PLS Require Export Check.C06.

Inductive step7 :=
| Op7 (o : wop)
| Multi7 (qs : list aq) (a : list ans)              (* queries answered by the live database *)
| Twin7 (qs : list aq) (a b : list ans).            (* [a]: the live answers now; [b]: the answers they must equal *)

Section C07.
  Variable dk : disk.
  Variable roots : list path.

  Definition post_aq7 (s : index) (q : aq) : index :=
    match q with
    | AQGoto F l c => post_goto dk roots s F l c
    | AQClosest F n => post_closest_with dk roots s (fun _ => true) F n
    | AQAvail F => post_available dk roots s F
    | AQUndecl _ => s
    | AQImported F => imp_store dk roots s F
    | AQRefs d => post_refs dk roots s d
    end.
  Definition answer_all7 (s : index) (qs : list aq) : list ans * index :=
    fold_left (fun acc q => let '(l, s) := acc in (l ++ [model_ans dk roots s q], post_aq7 s q)) qs ([], s).

  (** known classes *)
  (** a file that other files import from (or a conftest) has been closed or evicted:
      its text is no longer in file_cache, and file_cache membership gates import
      handling ([compute_available_fixtures], [find_module_file]) *)
  Definition K_closed_file (s : index) (closed : list path) : bool :=
    existsb (fun p => negb (in_cache s p)) closed.
  (** ... narrowed to what the finding is about: a moved answer is inside the class when the
      closed file is not on disk (its text is gone for good), or when the query is the
      per-file view (the only walker that asks file_cache before following a conftest's
      imports); go-to-definition, references, imported names of an ON-DISK file must not move *)
  Definition closed_off_disk (s : index) (closed : list path) : bool :=
    existsb (fun p => negb (in_cache s p) && negb (disk_file dk p)) closed.
  Definition is_view_query (q : aq) : bool := match q with AQAvail _ => true | _ => false end.
  Fixpoint moved_inside (s : index) (closed : list path) (qs : list aq) (a b : list ans) : bool :=
    match qs, a, b with
    | q :: qs', x :: a', y :: b' =>
        (ans_eqb x y || is_view_query q || closed_off_disk s closed) && moved_inside s closed qs' a' b'
    | _, _, _ => true
    end.

  (** re-analysing a document moves its definitions to the end of the per-name
      registration order; a name that reaches some file through a conftest import is
      resolved to the FIRST registered definition (C01's finding), so re-opening an
      unmodified document can move such answers *)
  Definition K_order_sensitive_import (s : index) : bool :=
    existsb (fun n =>
               (1 <? len (dedup path_eqb (map d_file (defs_named s n))))
               && existsb (fun kv => is_conftest (fst kv) && is_imported dk roots s n (fst kv)) (file_cache s ++ dk))
            (def_names s).

  Fixpoint run_case7 (s : index) (closed : list path) (i : N) (steps : list step7) : list (N * N) :=
    match steps with
    | [] => []
    | Op7 o :: r =>
        let closed' := match o with
                       | OClose F => F :: closed
                       | _ => closed
                       end in
        run_case7 (apply_wop s o) closed' (i + 1) r
    | Multi7 qs a :: r =>
        let '(m, s') := answer_all7 s qs in
        let c := bit (negb (list_eqb ans_eqb m a)) 1 in
        (if c =? 0 then [] else [(i, c)]) ++ run_case7 s' closed (i + 1) r
    | Twin7 qs a b :: r =>
        let '(m, s') := answer_all7 s qs in
        let c := bit (negb (list_eqb ans_eqb m a)) 1
                 + bit (negb (list_eqb ans_eqb a b)) 2
                 + bit (K_closed_file s closed && moved_inside s closed qs a b) 16
                 + bit (K_order_sensitive_import s) 32 in
        (if c =? 0 then [] else [(i, c)]) ++ run_case7 s' closed (i + 1) r
    end.
End C07.

Definition verdict_C07 (dk : disk) (steps : list step7) : list (N * N) := run_case7 dk [] empty_index [] 0 steps.
