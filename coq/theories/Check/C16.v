(** * Check/C16: dependency diagnostics (cycles, scope mismatches) are exact and stable. *)
From PLS Require Export Check.C07.

Section C16.
  Variable dk : disk.
  Variable roots : list path.

  Definition judge_C16 (s : index) (q : query) : N :=
    match q with
    | QCycles ans =>
        bit (negb (corr dk roots s q)) 1
        + bit (negb (cycles_ok dk roots s ans)) 2
        + bit (negb (cycles_ok dk roots s (cycles dk roots s))) 8
    | QMismatches F ans =>
        bit (negb (corr dk roots s q)) 1
        + bit (negb (mismatches_ok dk roots s F ans)) 2
        + bit (negb (mismatches_ok dk roots s F (mismatches dk roots s F))) 8
    | _ => bit (negb (corr dk roots s q)) 1
    end.

  Definition verdict_C16 (c : wcase) : list (N * N) :=
    run_case judge_C16 empty_index 0 (w_steps c).
End C16.
