(** * Check/C10: editor buffers win over the background scan.  Cases are histories that
    mix scan-style analyses (no clean-up: [OAnalyze false]) with notification-style
    ones ([OAnalyze true]); a [Both6] step compares the long-lived database with one
    that only ever saw the latest editor/disk content of each file (see Check/C06). *)
From PLS Require Export Check.C06.

Definition add_path (F : path) (l : list path) : list path := if mem_path F l then l else F :: l.
Definition del_path (F : path) (l : list path) : list path := filter (fun p => negb (path_eqb p F)) l.

(** (files analysed so far, files whose slice may hold more than one version: a
    scan-style analysis came AFTER an earlier analysis of the same file and no cleaning
    analysis of a parsable text has followed yet) *)
Definition note_scan (sd : list path * list path) (o : wop) : list path * list path :=
  let '(seen, dirty) := sd in
  match o with
  | OAnalyze true F v => (add_path F seen, if f_ok v then del_path F dirty else dirty)
  | OAnalyze false F v => (add_path F seen, if mem_path F seen then add_path F dirty else dirty)
  | _ => sd
  end.

(** known class: the scan visited a document AFTER the editor's notification *)
Definition K_open_then_scan (sd : list path * list path) : bool :=
  match snd sd with [] => false | _ => true end.

(** inside that class the index can hold two definitions of one file on the SAME line (the
    old and the new version's): [get_definition_at_line] then returns whichever the hash map
    yields first, so the implementation's answers are not a function of the history any more
    (observed: 7 / 5 of 12 runs of one case). The dump is still compared; the answers are
    compared only when no such pair exists. *)
Definition ambiguous_lines (s : index) : bool :=
  existsb (fun d1 => existsb (fun d2 => path_eqb (d_file d1) (d_file d2) && (d_line d1 =? d_line d2)
                                        && negb (String.eqb (d_name d1) (d_name d2))) (defs s)) (defs s).

Fixpoint run_case10 (s : index) (sd : list path * list path) (i : N) (steps : list step6) : list (N * N) :=
  match steps with
  | [] => []
  | Op6 o :: r => run_case10 (apply_wop s o) (note_scan sd o) (i + 1) r
  | Both6 qs live fresh :: r =>
      let '(m, s') := answer_all s qs in
      let c := bit (negb (dump_ok s (sn_dump live) && (ambiguous_lines s || list_eqb ans_eqb m (sn_answers live)))) 1
               + bit (negb (both_ok live fresh)) 2
               + bit (K_open_then_scan sd) 16 in
      (if c =? 0 then [] else [(i, c)]) ++ run_case10 s' sd (i + 1) r
  end.

Definition verdict_C10 (steps : list step6) : list (N * N) := run_case10 empty_index ([], []) 0 steps.
