(** * Check/C08: answers do not depend on scan order / schedule / process run.
    A [Both8] step carries the answers of two real databases that analysed the same
    files in two different orders. *)
From PLS Require Export Check.C16.

Inductive aq8 :=
| Q8 (q : aq)
| Q8Cycles
| Q8Mismatches (F : path).

Inductive ans8 :=
| A8 (a : ans)
| A8Cycles (l : list cycle)
| A8Mismatches (l : list mismatch).

(** references and scope mismatches are compared as sets, everything else exactly *)
Definition ans8_eqb (a b : ans8) : bool :=
  match a, b with
  | A8 (AnsUsages x), A8 (AnsUsages y) => set_eqb usage_eqb x y
  | A8 x, A8 y => ans_eqb x y
  | A8Cycles x, A8Cycles y => list_eqb cycle_eqb x y
  | A8Mismatches x, A8Mismatches y => set_eqb mismatch_eqb x y
  | _, _ => false
  end.

Section C08.
  Variable dk : disk.
  Variable roots : list path.

  Definition model_ans8 (s : index) (q : aq8) : ans8 :=
    match q with
    | Q8 q => A8 (model_ans dk roots s q)
    | Q8Cycles => A8Cycles (cycles dk roots s)
    | Q8Mismatches F => A8Mismatches (mismatches dk roots s F)
    end.
  Definition post_aq8 (s : index) (q : aq8) : index :=
    match q with
    | Q8 q => post_aq7 dk roots s q
    | Q8Cycles => post_cycles dk roots s
    | Q8Mismatches F => post_query dk roots s (QMismatches F [])
    end.
  Definition answer_all8 (s : index) (qs : list aq8) : list ans8 * index :=
    fold_left (fun acc q => let '(l, s) := acc in (l ++ [model_ans8 s q], post_aq8 s q)) qs ([], s).

  (** known classes *)
  (** a name with plugin (resp. third-party) providers in more than one file: the
      resolver hands out the first-registered one *)
  Definition K_multi_provider (s : index) : bool :=
    existsb (fun n =>
               (1 <? len (dedup path_eqb (map d_file (filter (fun d => d_plugin d && negb (d_third d)) (defs_named s n)))))
               || (1 <? len (dedup path_eqb (map d_file (filter d_third (defs_named s n))))))
            (def_names s).
End C08.

Inductive step8 :=
| Op8 (o : wop)
| Both8 (qs : list aq8) (a b : list ans8).

Fixpoint run_case8 (s : index) (i : N) (steps : list step8) : list (N * N) :=
  match steps with
  | [] => []
  | Op8 o :: r => run_case8 (apply_wop s o) (i + 1) r
  | Both8 qs a b :: r =>
      let '(m, s') := answer_all8 [] [] s qs in
      let c := bit (negb (list_eqb ans8_eqb m a)) 1
               + bit (negb (list_eqb ans8_eqb a b)) 2
               + bit (K_order_sensitive_import [] [] s) 16
               + bit (K_multi_provider s) 32 in
      (if c =? 0 then [] else [(i, c)]) ++ run_case8 s' (i + 1) r
  end.

Definition verdict_C08 (steps : list step8) : list (N * N) := run_case8 empty_index 0 steps.
