(** * Check/C04: find-references is the exact inverse of go-to-definition. *)
From PLS Require Export Check.C01.

Section C04.
  Variable dk : disk.
  Variable roots : list path.

  Fixpoint nodupb {A} (eqb : A -> A -> bool) (l : list A) : bool :=
    match l with
    | [] => true
    | x :: l' => negb (memb eqb x l') && nodupb eqb l'
    end.

  (** the property, evaluated on answers (of the implementation or of the model):
      a usage is listed iff go-to-definition on it lands on [d]; nothing is listed
      twice; only recorded usages are listed *)
  Definition refs_inverse_ok (d : fdef) (rs : list usage) (gotos : list (usage * option fdef)) : bool :=
    nodupb usage_eqb rs
    && forallb (fun ug => Bool.eqb (memb usage_eqb (fst ug) rs) (opt_def_eqb (snd ug) (Some d))) gotos
    && forallb (fun u => existsb (fun ug => usage_eqb (fst ug) u) gotos) rs.

  (** known class: the same usage is recorded twice (a function that is both a fixture
      and named test_*: its parameters are scanned by both branches of the analyzer) *)
  Definition K_duplicate_usage (s : index) (n : string) : bool :=
    negb (nodupb usage_eqb (usage_by_name s n)).

  Definition model_gotos (s : index) (d : fdef) : list (usage * option fdef) :=
    map (fun u => (u, resolve_usage dk roots s (u_file u) (u_line u) (u_name u))) (usage_by_name s (d_name d)).

  Definition judge_C04 (s : index) (q : query) : N :=
    match q with
    | QRefsX d ans gotos =>
        bit (negb (corr dk roots s q)) 1
        + bit (negb (refs_inverse_ok d ans gotos)) 2
        + bit (negb (refs_inverse_ok d (refs dk roots s d) (model_gotos s d))) 8
        + bit (K_duplicate_usage s (d_name d)) 16
    | _ => bit (negb (corr dk roots s q)) 1
    end.

  Definition verdict_C04 (c : wcase) : list (N * N) :=
    run_case judge_C04 empty_index 0 (w_steps c).
End C04.
