(** * Check/C11: verdicts for the text functions.  A case carries the input and what
    the implementation returned ([Panic] when it panicked).  Codes: bit 1 = the model
    and the implementation disagree; bit 2 = the implementation panicked (the property
    fails on this input); bit 8 = the model itself panics / runs out of fuel. *)
From PLS Require Export Model.TextFns.

Definition bit (b : bool) (v : N) : N := if b then v else 0.

Definition res_eqb {A} (eqb : A -> A -> bool) (a b : res A) : bool :=
  match a, b with
  | Ok x, Ok y => eqb x y
  | Panic, Panic => true
  | OutOfFuel, OutOfFuel => true
  | _, _ => false
  end.
Definition is_ok {A} (r : res A) : bool := match r with Ok _ => true | _ => false end.
Definition is_panic {A} (r : res A) : bool := match r with Panic => true | _ => false end.

Definition pair_eqb {A B} (ea : A -> A -> bool) (eb : B -> B -> bool) (x y : A * B) : bool :=
  ea (fst x) (fst y) && eb (snd x) (snd y).

Inductive tcase :=
| TFormatDoc (s : text) (impl : res text)
| TWord (alnum : list cp) (line : text) (ch : N) (impl : res (option text))
| TFindName (content : text) (line : N) (name : text) (impl : res (N * N))
| TParamAnn (content : text) (line endc : N) (impl : res bool)
| TDistInfo (d : text) (impl : res (option text))
| TEntryPoints (content : text) (impl : res (list (text * text)))
| TLineIndex (s : text) (impl : res (list N))
| TLineOfOffset (s : text) (off : N) (impl : res (N * N))
| TClasses (s : text) (ws : list cp).

Definition judge {A} (eqb : A -> A -> bool) (model impl : res A) : N :=
  bit (negb (res_eqb eqb model impl)) 1 + bit (is_panic impl) 2 + bit (negb (is_ok model)) 8.

Definition wordc_of (alnum : list cp) (c : cp) : bool := (c =? 95) || memb N.eqb c alnum.

Definition char_position (s : text) (off : N) : res (N * N) :=
  let index := build_line_index s in
  let l := line_of_offset index off in
  usub l 1 >>= idx index >>= fun st => Ok (l, off - st).

Definition verdict_C11 (c : tcase) : N :=
  match c with
  | TFormatDoc s impl => judge text_eqb (format_docstring s) impl
  | TWord alnum line ch impl =>
      judge (opt_eqb text_eqb) (extract_word_at_position (wordc_of alnum) line ch) impl
  | TFindName content line name impl =>
      judge (pair_eqb N.eqb N.eqb) (find_function_name_position content line name) impl
  | TParamAnn content line endc impl =>
      judge Bool.eqb (parameter_has_annotation (lines content) line endc) impl
  | TDistInfo d impl => judge (opt_eqb text_eqb) (dist_info_name d) impl
  | TEntryPoints content impl =>
      judge (list_eqb (pair_eqb text_eqb text_eqb)) (Ok (parse_pytest11_entry_points content)) impl
  | TLineIndex s impl => judge (list_eqb N.eqb) (Ok (build_line_index s)) impl
  | TLineOfOffset s off impl => judge (pair_eqb N.eqb N.eqb) (char_position s off) impl
  | TClasses s ws => bit (negb (list_eqb N.eqb (filter is_ws s) ws)) 1
  end.

Inductive tag := CASE (n : N).

Fixpoint verdicts_from (i : N) (cs : list tcase) : list (N * N) :=
  match cs with [] => [] | c :: cs' => (i, verdict_C11 c) :: verdicts_from (i + 1) cs' end.
Definition verdict_C11_batch (cs : list tcase) : list (N * N) := verdicts_from 0 cs.
