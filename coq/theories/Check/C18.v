(** * Check/C18: completion context per cursor line, and the offered items.
    Part 1 (contexts): a case carries one document (text, layout when it parses), what the
    real [get_completion_context] answered on every line, and — for a document cut off
    while a signature is being typed — what the generator typed on the last line.
    Codes: 1 = model differs from the implementation; 2 = the spec rejects the
    implementation's answer; 8 = the spec rejects the model's; class 32 = a parametrize mark
    without [indirect] (known finding).
    Part 2 (items): a case analyses documents in order and carries the labels / sort texts
    the real server returned on some lines of the last one. *)
From PLS Require Export Spec.CompletionSpec Check.Verdict Model.History.

Definition ctx_eqb (a b : ctx) : bool :=
  match a, b with
  | CSig f l i d s, CSig f' l' i' d' s' | CBody f l i d s, CBody f' l' i' d' s' =>
      String.eqb f f' && (l =? l') && Bool.eqb i i' && list_eqb String.eqb d d' && opt_eqb N.eqb s s'
  | CUse, CUse | CParam, CParam => true
  | _, _ => false
  end.

Record typed := mk_typed { ty_line0 : N; ty_fn : string; ty_params : list string; ty_fixture : bool; ty_scope : option N }.
Record c18 := mk_c18 {
  k_content : text;
  k_layout : option (list cstmt);
  k_ucalls : list (N * N);                  (* first and last line of every usefixtures call of the document *)
  k_answers : list (N * option ctx);        (* 0-based line, the implementation's answer *)
  k_typed : option typed }.

Definition typed_ok (t : typed) (l0 : N) (c : option ctx) : bool :=
  if l0 =? ty_line0 t
  then match c with
       | Some (CSig fn _ isf declared sc) =>
           String.eqb fn (ty_fn t) && Bool.eqb isf (ty_fixture t) && list_eqb String.eqb declared (ty_params t)
           && opt_eqb N.eqb sc (ty_scope t)
       | _ => false
       end
  else true.

(** class 32: the line lies in a parametrize decorator that has no [indirect] keyword *)
Definition K_param_plain (m : list cstmt) (l : N) : bool :=
  existsb (fun st => match st with
                     | CFun _ decs _ _ _ _ _ | CClass decs _ =>
                         existsb (fun d => within l (cd_start d) (cd_end d) && is_mark "parametrize" (cd_expr d)
                                           && negb (has_indirect (cd_expr d))) decs
                     | _ => false
                     end) (flat_map ccollected m).

Definition judge_line (c : c18) (q : N * option ctx) : N :=
  let l0 := fst q in
  let impl := snd q in
  let model := completion_ctx (k_content c) (k_layout c) l0 in
  let corr := negb (opt_eqb ctx_eqb model impl) in
  match k_layout c with
  | Some m =>
      (* a usefixtures call anywhere (not only as a decorator / in pytestmark) is an argument
         list in which names may be offered *)
      let in_call := existsb (fun se => within (l0 + 1) (fst se) (snd se)) (k_ucalls c) in
      let ok := fun x => ctx_ok m (l0 + 1) x || (in_call && expect_eqb (expect_of x) EUse) in
      let bad_i := negb (ok impl) in
      let bad_m := negb (ok model) in
      bit corr 1 + bit bad_i 2 + bit bad_m 8 + bit ((bad_i || bad_m) && K_param_plain m (l0 + 1)) 32
  | None =>
      match k_typed c with
      | Some t => bit corr 1 + bit (negb (typed_ok t l0 impl)) 2 + bit (negb (typed_ok t l0 model)) 8
      | None => bit corr 1
      end
  end.
Definition verdict_C18 (c : c18) : list (N * N) :=
  flat_map (fun q => let j := judge_line c q in if j =? 0 then [] else [(fst q, j)]) (k_answers c).

(** ** part 2 *)
Record c18i := mk_c18i {
  i_steps : list step;
  i_path : path;
  i_content : text;
  i_layout : option (list cstmt);
  i_items : list (N * list (string * string)) }.     (* 0-based line -> (label, sortText) *)

Definition items_eqb (a b : list (string * string)) : bool :=
  list_eqb (item_eqb) a b.
Definition judge_items (c : c18i) (q : N * list (string * string)) : N :=
  let s := final_index (i_steps c) in
  match completion_ctx (i_content c) (i_layout c) (fst q) with
  | Some cx =>
      let model := offered_items (available [] [] s (i_path c)) (i_path c) cx in
      bit (negb (items_eqb model (snd q))) 1
      + bit (negb (offered_ok [] [] s (i_path c) cx (snd q))) 2
      + bit (negb (offered_ok [] [] s (i_path c) cx model)) 8
  | None => bit (negb (match snd q with [] => true | _ => false end)) 1
  end.
Definition verdict_C18_items (c : c18i) : list (N * N) :=
  flat_map (fun q => let j := judge_items c q in if j =? 0 then [] else [(fst q, j)]) (i_items c).
