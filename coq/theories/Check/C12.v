(** * Check/C12: the cyclic core of the generated nesting table (empty iff acyclic) —
    what survives pruning; evaluated when C12_lock_edges_acyclic stops checking. *)
From PLS Require Export Model.Locks Generated.LockEdges.
Definition residue : list edge := prune (length lock_edges) lock_edges.
Definition table_size : nat := length lock_edges.
