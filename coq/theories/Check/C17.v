(** * Check/C17: undeclared-fixture warnings.  A case analyses a conftest (and helper
    modules), then the module under test; it carries the module's parsed tree and what the
    real index recorded as undeclared for it.  Codes: 1 = model differs from the
    implementation; 2 = the spec rejects the implementation's records; 8 = the spec rejects
    the model's; 16 = a name visible only through an import is involved (class). *)
From PLS Require Export Model.ParamEdit.
From PLS Require Export Spec.Undeclared Check.Verdict Model.History.

Definition flag_eqb (a b : bname * string * N) : bool :=
  match a, b with
  | (x, f, l), (y, g, k) =>
      String.eqb (b_name x) (b_name y) && (b_line x =? b_line y) && (b_start x =? b_start y)
      && (b_end x =? b_end y) && String.eqb f g && (l =? k)
  end.
Definition flag_of (u : undecl) : bname * string * N :=
  (mk_bname (n_name u) (n_line u) (n_start u) (n_end u), n_fn u, n_fn_line u).

Record c17 := mk_c17 { k_path : path; k_parsed : list stmt; k_undeclared : list undecl }.

(** class: some covered name of the module is carried by a fixture that is visible from the
    file only through an import edge (conftest import, or the module's own import) *)
Definition K_import_visible (s : index) (F : path) (m : list stmt) : bool :=
  existsb (fun st => match st with
                     | SFunctionDef _ _ _ _ _ body _ _ =>
                         existsb (fun x => existsb (fun d => visible [] [] s F (b_name x) d) (defs_named s (b_name x))
                                           && negb (is_available s F (b_name x)))
                                 (flat_map cov_stmt body)
                     | _ => false
                     end) (flat_map collected m).

(** class: a covered name whose fixture is defined in the SAME file on a later line than the
    function that uses it: the body is scanned before that definition is recorded *)
Definition K_defined_later (s : index) (F : path) (m : list stmt) : bool :=
  existsb (fun st => match st with
                     | SFunctionDef _ _ _ _ _ body line _ =>
                         existsb (fun x => existsb (fun d => path_eqb (d_file d) F && (line <? d_line d)) (defs_named s (b_name x)))
                                 (flat_map cov_stmt body)
                     | _ => false
                     end) (flat_map collected m).

Definition judge_flags (s : index) (c : c17) : N :=
  let F := k_path c in
  let mods := match alookup F (modnames s) with Some l => l | None => [] end in
  let spec := spec_flags [] [] s F mods (k_parsed c) in
  let impl := map flag_of (k_undeclared c) in
  let model := map flag_of (undeclared_of_file s F) in
  bit (negb (list_eqb flag_eqb model impl)) 1
  + bit (negb (list_eqb flag_eqb spec impl)) 2
  + bit (negb (list_eqb flag_eqb spec model)) 8
  + bit (K_import_visible s F (k_parsed c)) 16
  + bit (K_defined_later s F (k_parsed c)) 32.

Definition verdict_C17 (c : wcase * c17) : list (N * N) :=
  let s := final_index (w_steps (fst c)) in
  let j := judge_flags s (snd c) in if j =? 0 then [] else [(0, j)].

(** ** part 2: the parameter edit.  A case carries the parameter list of the function before
    the edit, the inserted name, and the parameter list after the edit (both read by
    CPython from the real documents); the model's insertion must produce the same list. *)
Definition pkind_eqb (a b : pkind) : bool :=
  match a, b with
  | Pos, Pos | PosD, PosD | VarStar, VarStar | Kw, Kw | DStar, DStar => true
  | _, _ => false
  end.
Definition param_eqb (a b : param) : bool := pkind_eqb (fst a) (fst b) && String.eqb (snd a) (snd b).
Definition verdict_edit (c : list param * string * list param) : list (N * N) :=
  match c with
  | (before, x, after) =>
      let j := bit (negb (list_eqb param_eqb (insert_after_last_pos x before) after)) 1
               + bit (valid_sig before && negb (valid_sig after)) 2
               + bit (negb (valid_sig before)) 4 in
      if j =? 0 then [] else [(0, j)]
  end.

(** ** part 3: the text level.  A case carries the document's bytes, the byte offset of the name
    of the starred first parameter (CPython) and the offset the server's edit inserts at *)
Definition verdict_star (c : list N * nat * nat) : list (N * N) :=
  match c with
  | (bytes, name_start, impl) => if Nat.eqb (star_start bytes name_start) impl then [] else [(0, 1)]
  end.
