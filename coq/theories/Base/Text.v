(** * Text: a Rust [&str] as the list of its Unicode scalar values.
    Byte offsets are [N]; slicing at a byte offset is PARTIAL: it fails exactly when
    the offset is not a character boundary or lies beyond the end — which is when
    Rust's [&s[i..]] panics and [s.get(i..)] returns [None].  Definitions only. *)
From PLS Require Export Base.Prelude.

Definition cp := N.
Definition text := list cp.

(** UTF-8 width and UTF-16 width of a scalar value *)
Definition width (c : cp) : N :=
  if c <? 128 then 1 else if c <? 2048 then 2 else if c <? 65536 then 3 else 4.
Definition w16 (c : cp) : N := if c <? 65536 then 1 else 2.

Fixpoint blen (s : text) : N :=
  match s with [] => 0 | c :: s' => width c + blen s' end.
Fixpoint len16 (s : text) : N :=
  match s with [] => 0 | c :: s' => w16 c + len16 s' end.

(** ** results of operations that can panic (or, for fuelled loops, run out of fuel) *)
Inductive res (A : Type) : Type := Ok (a : A) | Panic | OutOfFuel.
Arguments Ok {A} a.
Arguments Panic {A}.
Arguments OutOfFuel {A}.

Definition rbind {A B} (r : res A) (f : A -> res B) : res B :=
  match r with Ok a => f a | Panic => Panic | OutOfFuel => OutOfFuel end.
Notation "r >>= f" := (rbind r f) (at level 50, left associativity).

Definition of_opt {A} (o : option A) : res A :=
  match o with Some a => Ok a | None => Panic end.

(** [v[i]] on a Vec / slice *)
Definition idx {A} (l : list A) (i : N) : res A := of_opt (nth_opt l i).
(** [a - b] on usize with overflow checks (debug build); a release build wraps instead,
    which the code under study never relies on *)
Definition usub (a b : N) : res N := if b <=? a then Ok (a - b) else Panic.
Definition u32_max : N := 4294967295.
Definition u64_max : N := 18446744073709551615.
Definition uadd32 (a b : N) : res N := if a + b <=? u32_max then Ok (a + b) else Panic.
Definition uadd64 (a b : N) : res N := if a + b <=? u64_max then Ok (a + b) else Panic.

(** ** byte-offset slicing *)
(** [s.get(i..)] : [Some] iff [i] is a character boundary of [s] (incl. its end) *)
Fixpoint slice_from (s : text) (i : N) : option text :=
  if i =? 0 then Some s else
  match s with
  | [] => None
  | c :: s' => if width c <=? i then slice_from s' (i - width c) else None
  end.
(** [s.get(..j)] *)
Fixpoint slice_to (s : text) (j : N) : option text :=
  if j =? 0 then Some [] else
  match s with
  | [] => None
  | c :: s' => if width c <=? j
               then match slice_to s' (j - width c) with Some p => Some (c :: p) | None => None end
               else None
  end.
(** [s.get(i..j)] *)
Definition slice (s : text) (i j : N) : option text :=
  if i <=? j then match slice_to s j with Some p => slice_from p i | None => None end else None.

(** [v[a..b]] on a Vec / slice of elements *)
Definition lslice {A} (l : list A) (a b : N) : res (list A) :=
  if (a <=? b) && (b <=? len l)
  then Ok (firstn (N.to_nat (b - a)) (skipn (N.to_nat a) l)) else Panic.

(** ** character classes *)
(** [char::is_whitespace] = the Unicode White_Space property (25 scalar values) *)
Definition is_ws (c : cp) : bool :=
  ((9 <=? c) && (c <=? 13)) || (c =? 32) || (c =? 133) || (c =? 160) || (c =? 5760)
  || ((8192 <=? c) && (c <=? 8202)) || (c =? 8232) || (c =? 8233) || (c =? 8239)
  || (c =? 8287) || (c =? 12288).
Definition is_ascii_digit (c : cp) : bool := (48 <=? c) && (c <=? 57).

Fixpoint trim_start (s : text) : text :=
  match s with [] => [] | c :: s' => if is_ws c then trim_start s' else s end.
Definition trim_end (s : text) : text := rev (trim_start (rev s)).
Definition trim (s : text) : text := trim_end (trim_start s).
Definition blank (s : text) : bool := match trim_start s with [] => true | _ => false end.

(** ** [str::lines]: split after every LF; a CR immediately before that LF is
    dropped; a final fragment without LF is a line iff it is non-empty (a CR at its
    end is kept). *)
Definition strip_cr_rev (cur : text) : text :=
  match cur with 13 :: r => r | _ => cur end.
Fixpoint lines_aux (s : text) (cur : text) : list text :=
  match s with
  | [] => match cur with [] => [] | _ => [rev cur] end
  | c :: s' => if c =? 10 then rev (strip_cr_rev cur) :: lines_aux s' []
               else lines_aux s' (c :: cur)
  end.
Definition lines (s : text) : list text := lines_aux s [].

Fixpoint join_lines (ls : list text) : text :=
  match ls with
  | [] => []
  | [l] => l
  | l :: ls' => l ++ 10 :: join_lines ls'
  end.

(** ** searching *)
Fixpoint tprefix (p s : text) : bool :=
  match p, s with
  | [], _ => true
  | a :: p', b :: s' => (a =? b) && tprefix p' s'
  | _, [] => false
  end.
(** [s.find(p)]: byte offset of the first occurrence *)
Fixpoint find_at (p s : text) (off : N) : option N :=
  if tprefix p s then Some off else
  match s with [] => None | c :: s' => find_at p s' (off + width c) end.
Definition find (p s : text) : option N := find_at p s 0.

Definition tsuffix (p s : text) : bool := tprefix (rev p) (rev s).
Definition strip_suffix (p s : text) : option text :=
  if tsuffix p s then Some (firstn (length s - length p) s) else None.
Definition strip_prefix (p s : text) : option text :=
  if tprefix p s then Some (skipn (length p) s) else None.

(** [s.char_indices()] *)
Fixpoint char_indices_at (s : text) (off : N) : list (N * cp) :=
  match s with [] => [] | c :: s' => (off, c) :: char_indices_at s' (off + width c) end.
Definition char_indices (s : text) : list (N * cp) := char_indices_at s 0.

Definition text_eqb (a b : text) : bool := list_eqb N.eqb a b.

(** [str::split_once(c)] *)
Fixpoint split_once_aux (c : cp) (s : text) (acc : text) : option (text * text) :=
  match s with
  | [] => None
  | x :: s' => if x =? c then Some (rev acc, s') else split_once_aux c s' (x :: acc)
  end.
Definition split_once (c : cp) (s : text) : option (text * text) := split_once_aux c s [].
