(** * Utf8: byte strings <-> code-point lists.  Identifiers and string constants of the
    AST are UTF-8 byte strings (Coq [string]); the text functions work on code points. *)
From PLS Require Export Base.Text.

Definition encode_cp (c : cp) : list N :=
  if c <? 128 then [c]
  else if c <? 2048 then [192 + c / 64; 128 + c mod 64]
  else if c <? 65536 then [224 + c / 4096; 128 + (c / 64) mod 64; 128 + c mod 64]
  else [240 + c / 262144; 128 + (c / 4096) mod 64; 128 + (c / 64) mod 64; 128 + c mod 64].

Definition utf8_encode (t : text) : string :=
  string_of_list_ascii (map ascii_of_N (flat_map encode_cp t)).

(** decoding of well-formed UTF-8 (a truncated trailing sequence is dropped) *)
Fixpoint decode_bytes (bs : list N) : text :=
  match bs with
  | [] => []
  | b :: r =>
      if b <? 128 then b :: decode_bytes r
      else if b <? 224 then
        match r with
        | b1 :: r' => ((b - 192) * 64 + (b1 - 128)) :: decode_bytes r'
        | _ => []
        end
      else if b <? 240 then
        match r with
        | b1 :: b2 :: r' => ((b - 224) * 4096 + (b1 - 128) * 64 + (b2 - 128)) :: decode_bytes r'
        | _ => []
        end
      else
        match r with
        | b1 :: b2 :: b3 :: r' =>
            ((b - 240) * 262144 + (b1 - 128) * 4096 + (b2 - 128) * 64 + (b3 - 128)) :: decode_bytes r'
        | _ => []
        end
  end.
Definition utf8_decode (s : string) : text := decode_bytes (map N_of_ascii (list_ascii_of_string s)).
