(** * Prelude: small list / option / string utilities shared by every layer.
    Definitions only (no proofs) so that the model runs even when a proof breaks. *)
From Coq Require Export String List NArith Bool Ascii.
Export ListNotations.
Open Scope string_scope.
Open Scope N_scope.
Open Scope list_scope.

Arguments N.add : simpl never.
Arguments N.sub : simpl never.
Arguments N.mul : simpl never.
Arguments N.eqb : simpl never.
Arguments N.ltb : simpl never.
Arguments N.leb : simpl never.

Definition str_eqb := String.eqb.

Fixpoint list_eqb {A} (eqb : A -> A -> bool) (l1 l2 : list A) : bool :=
  match l1, l2 with
  | [], [] => true
  | x :: l1', y :: l2' => eqb x y && list_eqb eqb l1' l2'
  | _, _ => false
  end.

Definition opt_eqb {A} (eqb : A -> A -> bool) (o1 o2 : option A) : bool :=
  match o1, o2 with
  | None, None => true
  | Some x, Some y => eqb x y
  | _, _ => false
  end.

Definition memb {A} (eqb : A -> A -> bool) (x : A) (l : list A) : bool :=
  existsb (eqb x) l.

Definition mem_str (x : string) (l : list string) : bool := memb String.eqb x l.

(** first element satisfying [p] *)
Definition findb {A} (p : A -> bool) (l : list A) : option A := find p l.

(** [Iterator::max_by_key]: the LAST element among those with the maximal key *)
Fixpoint max_by_key {A} (key : A -> N) (l : list A) : option A :=
  match l with
  | [] => None
  | x :: l' =>
      match max_by_key key l' with
      | None => Some x
      | Some y => if key x <=? key y then Some y else Some x
      end
  end.

(** remove duplicates, keeping the first occurrence *)
Fixpoint dedup {A} (eqb : A -> A -> bool) (l : list A) : list A :=
  match l with
  | [] => []
  | x :: l' => x :: filter (fun y => negb (eqb x y)) (dedup eqb l')
  end.

(** insertion sort by a boolean [leb] (stable) *)
Fixpoint insert_sorted {A} (leb : A -> A -> bool) (x : A) (l : list A) : list A :=
  match l with
  | [] => [x]
  | y :: l' => if leb x y then x :: l else y :: insert_sorted leb x l'
  end.
Definition isort {A} (leb : A -> A -> bool) (l : list A) : list A :=
  fold_right (insert_sorted leb) [] l.

Definition is_some {A} (o : option A) : bool := match o with Some _ => true | None => false end.

Definition subsetb {A} (eqb : A -> A -> bool) (l1 l2 : list A) : bool :=
  forallb (fun x => memb eqb x l2) l1.
Definition set_eqb {A} (eqb : A -> A -> bool) (l1 l2 : list A) : bool :=
  subsetb eqb l1 l2 && subsetb eqb l2 l1.

(** substring test on strings *)
Fixpoint prefixb (p s : string) : bool :=
  match p, s with
  | EmptyString, _ => true
  | String a p', String b s' => Ascii.eqb a b && prefixb p' s'
  | _, _ => false
  end.
Fixpoint containsb (needle s : string) : bool :=
  prefixb needle s ||
  match s with
  | EmptyString => false
  | String _ s' => containsb needle s'
  end.

Definition nth_opt {A} (l : list A) (n : N) : option A :=
  nth_error l (N.to_nat n).

Definition len {A} (l : list A) : N := N.of_nat (List.length l).
