(** * Spec/Undeclared: which names in a test / fixture body must be flagged as undeclared
    fixtures, by the documented rule — written with the generic traversal of Spec/Extract.v.
    A Name node is COVERED when it is reached from an ordinary statement of the function's
    own scope (expression statement, plain / augmented / annotated assignment value,
    return, assert, the headers and blocks of if / while / for / with / try) through call
    targets and arguments (positional or keyword), attribute bases, operands of binary /
    unary / comparison / boolean operators, subscripts, list / tuple / set / dict elements
    or await.  A covered name is flagged iff it is not a parameter of the function, not a
    local bound on an EARLIER line, not a module-level or imported name, and some fixture
    VISIBLE from the file (Spec/Pytest.v) carries it.  Definitions only. *)
From PLS Require Export Spec.Extract Spec.Pytest.

Fixpoint cov_expr (fuel : nat) (e : expr) : list bname :=
  match fuel with
  | O => []
  | S f =>
      match e with
      | EName id l c ec => [mk_bname id l c ec]
      | EYield _ _ | EYieldFrom _ _ | EOther _ => []
      | _ => flat_map (cov_expr f) (sub_exprs e)
      end
  end.
Definition covered_in (e : expr) : list bname := cov_expr (expr_size e) e.

(** the expressions a statement READS (assignment targets are not uses) *)
Definition read_exprs (st : stmt) : list expr :=
  match st with
  | SExpr v | SAssign _ v _ | SAugAssign _ v _ => [v]
  | SAnnAssign _ v _ | SReturn v => opt_list v
  | SIf t _ _ | SWhile t _ _ => [t]
  | SFor _ _ it _ _ _ => [it]
  | SWith _ items _ _ => map fst items
  | SAssert t m => t :: opt_list m
  | _ => []
  end.

Fixpoint cov_stmt (st : stmt) : list bname :=
  flat_map covered_in (read_exprs st)
  ++ match st with
     | SIf _ b o | SWhile _ b o | SFor _ _ _ b o _ => flat_map cov_stmt b ++ flat_map cov_stmt o
     | SWith _ _ b _ => flat_map cov_stmt b
     | STry b hs o f => flat_map cov_stmt b ++ flat_map (fun h => flat_map cov_stmt h) hs
                        ++ flat_map cov_stmt o ++ flat_map cov_stmt f
     | _ => []
     end.

(** names bound in the function's own scope, with the line of each binding *)
Fixpoint bindings (st : stmt) : list (string * N) :=
  match st with
  | SAssign ts _ l => map (fun n => (n, l)) (flat_map names_from_expr ts)
  | SAnnAssign t _ l | SAugAssign t _ l => map (fun n => (n, l)) (names_from_expr t)
  | SFor _ t _ b o l => map (fun n => (n, l)) (names_from_expr t) ++ flat_map bindings b ++ flat_map bindings o
  | SWhile _ b o | SIf _ b o => flat_map bindings b ++ flat_map bindings o
  | SWith _ items b l =>
      flat_map (fun it => match snd it with Some v => map (fun n => (n, l)) (names_from_expr v) | None => [] end) items
      ++ flat_map bindings b
  | STry b hs o f => flat_map bindings b ++ flat_map (fun h => flat_map bindings h) hs
                     ++ flat_map bindings o ++ flat_map bindings f
  | _ => []
  end.
Definition bound_earlier (body : list stmt) (n : string) (line : N) : bool :=
  existsb (fun kv => String.eqb (fst kv) n && (snd kv <? line)) (flat_map bindings body).

Section Flags.
  Variable dk : disk.
  Variable roots : list path.
  Variable s : index.
  Variable F : path.
  Variable modnames : list string.

  Definition visible_name (n : string) : bool := existsb (visible dk roots s F n) (defs_named s n).

  (** [lenient n] = the spec does not care (the function's own name inside a fixture) *)
  Definition must_flag (params : list string) (body : list stmt) (x : bname) : bool :=
    negb (mem_str (b_name x) params) && negb (bound_earlier body (b_name x) (b_line x))
    && negb (mem_str (b_name x) modnames) && visible_name (b_name x).

  Definition spec_flags_fn (st : stmt) : list (bname * string * N) :=
    match st with
    | SFunctionDef _ name decs args _ body line _ =>
        if is_fixture_fn decs || prefixb "test_" name
        then map (fun x => (x, name, line))
                 (filter (fun x => must_flag ("self" :: "request" :: map ar_name args) body x
                                   && negb (is_fixture_fn decs && String.eqb (b_name x) name))
                         (flat_map cov_stmt body))
        else []
    | _ => []
    end.
  Definition spec_flags (m : list stmt) : list (bname * string * N) :=
    flat_map spec_flags_fn (flat_map collected m).
End Flags.
