(** * Spec/Positions: what the protocol demands of a reported position.
    A document is the list of its lines (without terminators) as code points; columns are
    UTF-16 code units (LSP 3.17 default position encoding).  A range MARKS a name when it
    lies on one line of the document and the UTF-16 slice it selects is exactly that name,
    standing alone as a token: the code point before it and the one after it are not
    identifier characters (so a slice of a longer identifier does not count, while the
    content of a string literal between quotes or commas does).  Definitions only. *)
From PLS Require Export Base.Text.

Record lpos := mk_pos { p_line : N; p_char : N }.
Record range := mk_range { r_start : lpos; r_end : lpos }.
Definition doc := list text.

Definition pos_le (a b : lpos) : bool :=
  (p_line a <? p_line b) || ((p_line a =? p_line b) && (p_char a <=? p_char b)).
Definition pos_eqb (a b : lpos) : bool := (p_line a =? p_line b) && (p_char a =? p_char b).
Definition range_eqb (a b : range) : bool := pos_eqb (r_start a) (r_start b) && pos_eqb (r_end a) (r_end b).
Definition well_formed (r : range) : bool := pos_le (r_start r) (r_end r).
Definition pos_in_doc (d : doc) (p : lpos) : bool :=
  match nth_opt d (p_line p) with Some l => p_char p <=? len16 l | None => false end.
Definition in_doc (d : doc) (r : range) : bool := pos_in_doc d (r_start r) && pos_in_doc d (r_end r).
Definition inside (inner outer : range) : bool :=
  pos_le (r_start outer) (r_start inner) && pos_le (r_end inner) (r_end outer).

(** split a line at UTF-16 column [c]; [None] when [c] is beyond the line or falls
    between the two units of a surrogate pair *)
Fixpoint split16 (l : text) (c : N) : option (text * text) :=
  if c =? 0 then Some ([], l) else
  match l with
  | [] => None
  | x :: r => if w16 x <=? c
              then match split16 r (c - w16 x) with Some (a, b) => Some (x :: a, b) | None => None end
              else None
  end.

Definition ident_cp (c : cp) : bool :=
  ((48 <=? c) && (c <=? 57)) || ((65 <=? c) && (c <=? 90)) || ((97 <=? c) && (c <=? 122)) || (c =? 95) || (128 <=? c).
Definition ends_ident (s : text) : bool := match rev s with c :: _ => ident_cp c | [] => false end.
Definition starts_ident (s : text) : bool := match s with c :: _ => ident_cp c | [] => false end.

(** the slice [a, b) of the line, in UTF-16 columns, is exactly [name], as a whole token *)
Definition marks_on_line (l : text) (a b : N) (name : text) : bool :=
  (a <=? b) &&
  match split16 l a with
  | Some (pre, rest) =>
      match split16 rest (b - a) with
      | Some (tok, post) => text_eqb tok name && negb (ends_ident pre) && negb (starts_ident post)
      | None => false
      end
  | None => false
  end.
Definition marks (d : doc) (r : range) (names : list text) : bool :=
  (p_line (r_start r) =? p_line (r_end r)) &&
  match nth_opt d (p_line (r_start r)) with
  | Some l => existsb (marks_on_line l (p_char (r_start r)) (p_char (r_end r))) names
  | None => false
  end.
(** a position directly behind the token [name] (inlay-hint anchor) *)
Definition anchored_behind (d : doc) (p : lpos) (names : list text) : bool :=
  match nth_opt d (p_line p) with
  | Some l => existsb (fun n => (len16 n <=? p_char p) && marks_on_line l (p_char p - len16 n) (p_char p) n) names
  | None => false
  end.

Fixpoint nodup_by {A} (eqb : A -> A -> bool) (l : list A) : bool :=
  match l with [] => true | x :: r => negb (existsb (eqb x) r) && nodup_by eqb r end.
