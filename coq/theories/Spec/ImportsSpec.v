(** * Spec/ImportsSpec: what the scan must have discovered, and what a file makes available,
    by the documented rule — as closures over the import graph of the tree.
    An edge F -> T: a star import, an explicit import or a pytest_plugins entry of F that
    resolves (relative dots, packages, upward search, site-packages and editable roots) to
    the file T.  DISCOVERED = every file reachable from a seed (the test / conftest files
    and what the virtual environment's entry points name) is analysed.  AVAILABLE from a
    test file = its own fixtures, those of every ancestor conftest.py, what those conftest
    files import — all fixtures of a star-imported module and, transitively, what it
    imports; the named ones of an explicit import — plus plugin and third-party fixtures.
    Definitions only. *)
From PLS Require Export Model.ScanModel.

Section ImportsSpec.
  Variable fd : list (path * facts).
  Variable ws : path.
  Variable sp : option path.
  Variable dists : list dist.
  Variable pths : list (text * text).

  Definition all_cached : sst := mk_sst (map fst fd) [].
  (** the import edges of a file, resolved on the tree *)
  Definition succ (F : path) : list path := map fst (targets fd sp dists pths all_cached F).

  Inductive reach (seeds : list path) : path -> Prop :=
  | reach_seed F : In F seeds -> reach seeds F
  | reach_step F T : reach seeds F -> In T (succ F) -> reach seeds T.

  (** executable closure (worklist with fuel; [None] = out of fuel) *)
  Fixpoint closure_b (fuel : nat) (seen todo : list path) : option (list path) :=
    match fuel with
    | O => None
    | S f =>
        match todo with
        | [] => Some seen
        | F :: r =>
            if mem_path F seen then closure_b f seen r
            else closure_b f (seen ++ [F]) (r ++ succ F)
        end
    end.
  Definition edge_count : nat := fold_right (fun kv a => (length (f_edges (snd kv)) + a)%nat) 0%nat fd.
  Definition closure (seeds : list path) : option (list path) :=
    closure_b (S (length seeds + length fd + edge_count + length fd)) [] seeds.

  (** ** what a file makes available through imports: names *)
  Definition defs_of (F : path) : list string :=
    match alookup F fd with
    | Some v => flat_map (fun it : item => match it with IDef d => [l_name d] | _ => [] end) (f_items v)
    | None => []
    end.
  Definition defined_somewhere (n : string) : bool := existsb (fun kv => mem_str n (defs_of (fst kv))) fd.
  Definition star_targets (F : path) : list path :=
    flat_map (fun tb : path * bool => if snd tb then [fst tb] else []) (targets fd sp dists pths all_cached F).
  Definition named_imports (F : path) : list string :=
    match alookup F fd with
    | Some v => if f_ok v
                then flat_map (fun e => match e_kind e, resolve_edge (dk fd) (idx_of fd all_cached) (roots fd sp dists pths) F e with
                                        | Names ns, Some _ => filter defined_somewhere ns
                                        | _, _ => []
                                        end) (f_edges v)
                else []
    | None => []
    end.
  (** star closure from a file (the file itself excluded unless reached back) *)
  Fixpoint star_closure (fuel : nat) (seen todo : list path) : list path :=
    match fuel with
    | O => seen
    | S f =>
        match todo with
        | [] => seen
        | F :: r => if mem_path F seen then star_closure f seen r
                    else star_closure f (seen ++ [F]) (r ++ star_targets F)
        end
    end.
  Definition star_reach (F : path) : list path :=
    star_closure (S (length fd + edge_count + length fd)) [] (star_targets F).
  Definition imported_names (F : path) : list string :=
    named_imports F ++ flat_map (fun M => defs_of M ++ named_imports M) (star_reach F).

  Definition conftests_above (T : path) : list path :=
    filter (fun c => ahas c fd) (map (fun d => conftest_py :: d) (ancestors (tl T))).
  Definition spec_available_names (plugin third : path -> bool) (T : path) : list string :=
    dedup String.eqb
      (defs_of T ++ imported_names T
       ++ flat_map (fun c => defs_of c ++ imported_names c) (conftests_above T)
       ++ flat_map (fun kv => if plugin (fst kv) || third (fst kv) then defs_of (fst kv) else []) fd).
End ImportsSpec.
