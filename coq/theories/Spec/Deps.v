(** * Spec/Deps: the definition-level dependency graph and what the dependency
    diagnostics must say.  Independent of how the detector is written. *)
From PLS Require Export Spec.Pytest.

Record mismatch := mk_mismatch { mm_fixture : fdef; mm_dependency : fdef }.

Section Deps.
  Variable dk : disk.
  Variable roots : list path.
  Variable s : index.

  (** the definition a dependency name denotes for the fixture that requests it:
      resolution from that fixture's file; a same-named parameter goes outward (C02) *)
  Definition dep_target (d : fdef) (n : string) : option fdef :=
    if String.eqb n (d_name d) then
      match closest_excluding dk roots s (d_file d) n d with
      | Some p => Some p
      | None => Some d      (* no parent: the fixture requests itself (pytest: recursive dependency) *)
      end
    else closest dk roots s (d_file d) n.

  Definition succs (d : fdef) : list fdef :=
    flat_map (fun n => match dep_target d n with Some d' => [d'] | None => [] end) (d_deps d).

  (** definitions reachable in >= 1 step (fuelled closure over the finite set [defs s]) *)
  Fixpoint reach_from (fuel : nat) (frontier seen : list fdef) : list fdef :=
    match fuel with
    | O => seen
    | S fuel' =>
        let next := filter (fun d => negb (memb fdef_eqb d seen)) (dedup fdef_eqb (flat_map succs frontier)) in
        match next with
        | [] => seen
        | _ => reach_from fuel' next (seen ++ next)
        end
    end.
  Definition reachable (d : fdef) : list fdef := reach_from (S (List.length (defs s))) [d] [].
  Definition on_cycle (d : fdef) : bool := memb fdef_eqb d (reachable d).
  Definition same_scc (d d' : fdef) : bool :=
    fdef_eqb d d' || (memb fdef_eqb d' (reachable d) && memb fdef_eqb d (reachable d')).

  (** a reported cycle is a real closed dependency chain starting at its fixture *)
  Fixpoint chain_ok (start cur : fdef) (names : list string) : bool :=
    match names with
    | [] => false
    | [n] => (* the closing step *)
        mem_str n (d_deps cur) && opt_eqb fdef_eqb (dep_target cur n) (Some start)
    | n :: rest =>
        mem_str n (d_deps cur) &&
        match dep_target cur n with
        | Some nxt => chain_ok start nxt rest
        | None => false
        end
    end.
  Definition cycle_sound (c : cycle) : bool :=
    match cy_path c with
    | n0 :: rest => String.eqb n0 (d_name (cy_fixture c)) && memb fdef_eqb (cy_fixture c) (defs s)
                    && chain_ok (cy_fixture c) (cy_fixture c) rest
    | [] => false
    end.

  Definition cycles_ok (cs : list cycle) : bool :=
    forallb cycle_sound cs
    && forallb (fun d => negb (on_cycle d) || existsb (fun c => same_scc d (cy_fixture c)) cs) (defs s).

  (** scope mismatches of the fixtures of file F *)
  Definition expected_mismatch (f : fdef) (dep : fdef) : bool :=
    existsb (fun n => opt_eqb fdef_eqb (dep_target f n) (Some dep)) (d_deps f) && (d_scope dep <? d_scope f).

  Definition registered_in (F : path) : list fdef :=
    (* the fixtures pytest registers for module F: the last binding of each name *)
    filter (fun d => path_eqb (d_file d) F && opt_eqb fdef_eqb (own_last s F (d_name d)) (Some d)) (defs s).

  Definition mismatches_ok (F : path) (ms : list mismatch) : bool :=
    forallb (fun m => path_eqb (d_file (mm_fixture m)) F && memb fdef_eqb (mm_fixture m) (defs s)
                      && expected_mismatch (mm_fixture m) (mm_dependency m)) ms
    && forallb (fun f => forallb (fun n => match dep_target f n with
                                            | Some dep => negb (d_scope dep <? d_scope f)
                                                          || existsb (fun m => fdef_eqb (mm_fixture m) f && fdef_eqb (mm_dependency m) dep) ms
                                            | None => true
                                            end) (d_deps f))
               (registered_in F).
End Deps.
