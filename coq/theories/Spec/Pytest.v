(** * Spec/Pytest: what pytest itself would inject — the shadowing order, written
    independently of the resolver's structure.  Short on purpose.

    A *provider class* is a set of definitions of one name that sit at the same
    priority level.  [providers F n] lists the classes visible from file [F] in
    pytest's order:
      1. the using module: its LAST binding of [n];
      2. for each ancestor directory of [F], nearest first, its conftest.py: the last
         binding of [n] in that conftest, or any definition of [n] in a module that
         the conftest imports [n] from (star import / pytest_plugins entry: every
         fixture of the target and of what the target imports; explicit import: only
         the listed names);
      3. workspace plugins (entry-point modules);   4. third-party (site-packages).
    [allowed F n r]: [r] is a member of the first non-empty class, or [r] is empty
    and every class is empty.  The spec is set-valued where pytest's own answer
    depends on registration order inside one level. *)
From PLS Require Export Model.Resolve.

Section Spec.
  Variable dk : disk.
  Variable roots : list path.
  Variable s : index.

  Definition defs_in (m : path) (n : string) : list fdef :=
    filter (fun d => path_eqb (d_file d) m) (defs_named s n).

  Definition own_last (m : path) (n : string) : option fdef := max_by_key d_line (defs_in m n).

  (** modules, reachable from [m] through import edges that can carry [n], in which
      [n] is bound as a fixture.  Fuelled DFS with a visited list (a closure
      computation; [Proofs/SpecReach.v] relates it to the inductive relation). *)
  Fixpoint sources (fuel : nat) (n : string) (m : path) (vis : list path) : list path * list path :=
    match fuel with
    | O => ([], vis)
    | S fuel' =>
        if mem_path m vis then ([], vis) else
        let vis := m :: vis in
        match content dk s m with
        | None => ([], vis)
        | Some c =>
            if negb (c_ok c) then ([], vis) else
            fold_left
              (fun (acc : list path * list path) (e : edge) =>
                 let '(found, vis) := acc in
                 match resolve_edge dk s roots m e with
                 | None => (found, vis)
                 | Some tgt =>
                     let carries := match e_kind e with Star => true | Names ns => mem_str n ns end in
                     if carries then
                       let own := match defs_in tgt n with [] => [] | _ => [tgt] end in
                       let '(sub, vis') := sources fuel' n tgt vis in
                       (found ++ own ++ sub, vis')
                     else (found, vis)
                 end)
              (c_edges c) ([], vis)
        end
    end.

  Definition import_sources (n : string) (m : path) : list path :=
    fst (sources (enough_fuel dk s) n m []).

  (** provider classes, as boolean membership predicates over the known definitions *)
  Definition same_file_class (F : path) (n : string) (d : fdef) : bool :=
    match own_last F n with Some l => fdef_eqb d l | None => false end.

  Definition import_class (m : path) (n : string) (d : fdef) : bool :=
    (disk_file dk m || in_cache s m) && mem_path (d_file d) (import_sources n m).

  Definition conftest_class (dir : path) (n : string) (d : fdef) : bool :=
    let c := conftest_py :: dir in
    same_file_class c n d || import_class c n d.

  Definition plugin_class (d : fdef) : bool := d_plugin d && negb (d_third d).
  Definition third_class (d : fdef) : bool := d_third d.

  Definition providers (F : path) (n : string) : list (fdef -> bool) :=
    same_file_class F n
    :: map (fun dir => conftest_class dir n) (ancestors (tl F))
    ++ [plugin_class; third_class].

  Definition class_empty (n : string) (C : fdef -> bool) : bool :=
    negb (existsb C (defs_named s n)).

  (** [r] is allowed w.r.t. a list of classes *)
  Fixpoint allowed_in (n : string) (cs : list (fdef -> bool)) (r : option fdef) : bool :=
    match cs with
    | [] => negb (is_some r)
    | C :: cs' =>
        if class_empty n C then allowed_in n cs' r
        else match r with
             | Some d => C d && memb fdef_eqb d (defs_named s n)
             | None => false
             end
    end.

  (** with an exclusion (the self-named parameter of C02): the excluded definition
      is simply not a provider *)
  Definition without (ex : option fdef) (C : fdef -> bool) : fdef -> bool :=
    fun d => C d && match ex with Some x => negb (fdef_eqb d x) | None => true end.

  (** C01's reading when the using module itself imports [n] (a case C01 does not
      enumerate, C14 does): both "the imported definition" and "continue outward"
      are accepted here. *)
  Definition allowed_ex (ex : option fdef) (F : path) (n : string) (r : option fdef) : bool :=
    let base := map (without ex) (providers F n) in
    allowed_in n base r
    || match base with
       | same :: rest => allowed_in n (same :: without ex (import_class F n) :: rest) r
       | [] => false
       end.

  Definition allowed (F : path) (n : string) (r : option fdef) : bool := allowed_ex None F n r.

  (** visibility: member of some class *)
  Definition visible (F : path) (n : string) (d : fdef) : bool :=
    existsb (fun C => C d) (providers F n) || import_class F n d.

  (** ** the usage-level reading: what go-to-definition on a usage must return *)
  (** the fixture whose parameter list the usage sits in, if it is that fixture's
      own name (self-named parameter) *)
  Definition enclosing_same_named (u : usage) : option fdef :=
    find (fun d => path_eqb (d_file d) (u_file u) && String.eqb (d_name d) (u_name u)
                   && (d_line d <=? u_line u) && (u_line u <=? d_end_line d)
                   && mem_str (u_name u) (d_deps d))
         (defs s).
End Spec.
