(** * Spec/CompletionSpec: where completion must (and must not) offer fixture names, and
    what it must offer, by the documented rule.
    A cursor LINE is: in the argument list of a usefixtures / indirect-parametrize mark
    when a decorator spelled that way on a collected function or class — or a usefixtures
    call in a pytestmark assignment — spans it; otherwise in the SIGNATURE of the collected
    test / fixture function that spans it when it is not below the line the parameters end
    on or lies above the first body statement, in its BODY when it lies below the line
    the parameters end on or not above the first body statement (a line between the two
    may be taken either way); otherwise nowhere.  Collected = module level and class
    bodies (functions nested in functions are not collected by pytest).
    Offered = for every name that resolves from the file (C01's rule), the definition it
    resolves to — unless the name is declared, is self / cls, is the fixture being edited,
    or (inside a fixture) has a narrower scope.  Definitions only. *)
From PLS Require Export Model.Completion Spec.Extract Model.Resolve.

Inductive expect := ENone | ESig (fn : string) (line : N) | EBody (fn : string) (line : N) | EUse | EParam.
Definition expect_eqb (a b : expect) : bool :=
  match a, b with
  | ENone, ENone | EUse, EUse | EParam, EParam => true
  | ESig f l, ESig g k | EBody f l, EBody g k => String.eqb f g && (l =? k)
  | _, _ => false
  end.

Fixpoint ccollected (st : cstmt) : list cstmt :=
  match st with CClass _ body => st :: flat_map ccollected body | _ => [st] end.

Definition dec_expect (l : N) (d : cdec) : list expect :=
  if within l (cd_start d) (cd_end d)
  then if mark_spelling "usefixtures" (cd_expr d) then [EUse]
       else if mark_spelling "parametrize" (cd_expr d) && has_indirect (cd_expr d) then [EParam] else []
  else [].
Fixpoint mark_expect (l : N) (m : cmark) : bool :=
  match m with
  | CMCall f s e => mark_spelling "usefixtures" f && within l s e
  | CMSeq ms => existsb (mark_expect l) ms
  | CMOther => false
  end.
Definition stmt_mark_expect (l : N) (st : cstmt) : list expect :=
  match st with
  | CFun _ decs _ _ _ _ _ | CClass decs _ => flat_map (dec_expect l) decs
  | CMark (Some v) s e => if within l s e && mark_expect l v then [EUse] else []
  | _ => []
  end.
Definition stmt_fn_expect (l : N) (st : cstmt) : list expect :=
  match st with
  | CFun name decs _ sig_last body_first start eline =>
      if within l start eline && (existsb (fun d => fixture_spelling (cd_expr d)) decs || prefixb "test_" name)
      then let last := match sig_last with Some x => N.max x start | None => start end in
           let bf := match body_first with Some b => b | None => eline + 1 end in
           (if (l <=? last) || (l <? bf) then [ESig name start] else [])
           ++ (if (last <? l) || (bf <=? l) then [EBody name start] else [])
      else []
  | _ => []
  end.
(** the acceptable classifications of line [l] (non-empty) *)
Definition spec_expect (m : list cstmt) (l : N) : list expect :=
  let c := flat_map ccollected m in
  match flat_map (stmt_mark_expect l) c with
  | [] => match flat_map (stmt_fn_expect l) c with
          | [] => [ENone]
          | es => es
          end
  | es => es
  end.

Definition expect_of (c : option ctx) : expect :=
  match c with
  | None => ENone
  | Some (CSig fn l _ _ _) => ESig fn l
  | Some (CBody fn l _ _ _) => EBody fn l
  | Some CUse => EUse
  | Some CParam => EParam
  end.
(** for a function context: the parameters and the scope the layout shows *)
Definition fn_facts (m : list cstmt) (fn : string) (line : N) : option (bool * list string * option N) :=
  find_map (fun st => match st with
                      | CFun name decs params _ _ start _ =>
                          if String.eqb name fn && (start =? line)
                          then let isf := existsb (fun d => fixture_spelling (cd_expr d)) decs in
                               Some (isf, params, if isf then Some (fn_scope decs) else None)
                          else None
                      | _ => None
                      end) (flat_map ccollected m).
Definition facts_ok (m : list cstmt) (c : option ctx) : bool :=
  match c with
  | Some (CSig fn l isf declared sc) | Some (CBody fn l isf declared sc) =>
      match fn_facts m fn l with
      | Some (isf', ps, sc') => Bool.eqb isf isf' && list_eqb String.eqb declared ps && opt_eqb N.eqb sc sc'
      | None => false
      end
  | _ => true
  end.
Definition ctx_ok (m : list cstmt) (l : N) (c : option ctx) : bool :=
  existsb (expect_eqb (expect_of c)) (spec_expect m l) && facts_ok m c.

(** ** the offered set *)
Fixpoint nodup_names (l : list string) : bool :=
  match l with [] => true | x :: r => negb (mem_str x r) && nodup_names r end.
Section Offered.
  Variable dk : disk.
  Variable roots : list path.
  Variable s : index.
  Variable F : path.

  Definition spec_offered (c : ctx) : list (string * string) :=
    let '(declared, cur, sc) := ctx_filter c in
    flat_map (fun n => match closest dk roots s F n with
                       | Some d => if excluded d declared cur sc then [] else [(n, sort_text F d)]
                       | None => []
                       end) (def_names s).
  (** as sets: every expected item is there, nothing else, every label once *)
  Definition item_eqb (a b : string * string) : bool := String.eqb (fst a) (fst b) && String.eqb (snd a) (snd b).
  Definition offered_ok (c : ctx) (items : list (string * string)) : bool :=
    nodup_names (map fst items)
    && forallb (fun x => existsb (item_eqb x) items) (spec_offered c)
    && forallb (fun x => existsb (item_eqb x) (spec_offered c)) items.
End Offered.
