(** * Spec/Discovery: which files of a tree pytest-language-server must index.
    Independent of the traversal: a file is listed, with its path relative to the
    root, iff its name is one pytest collects or loads (conftest.py, test_*.py,
    *_test.py), no DIRECTORY on its root-relative path is an ignored one, and no
    exclude pattern matches.  Nothing about where the root lives.  Definitions only. *)
From PLS Require Export Model.Scanner.

(** every file of the tree, no pruning *)
Fixpoint all_files (rel : path) (t : tree) : list (path * bool) :=
  match t with
  | TFile n u => [(n :: rel, u)]
  | TDir n cs => flat_map (all_files (n :: rel)) cs
  end.

Definition pytest_file_name (n : string) : bool :=
  String.eqb n "conftest.py" || (prefixb "test_" n && suffixb ".py" n) || suffixb "_test.py" n.

(** the ignored-directory classes the property names *)
Definition documented_ignored : list string :=
  [".git"; ".hg"; ".svn";                                   (* VCS *)
   ".venv"; "venv"; "env"; ".env";                          (* virtualenv *)
   "__pycache__"; ".pytest_cache"; ".mypy_cache"; ".ruff_cache"; ".tox"; ".nox"; ".cache";   (* caches *)
   "build"; "dist"; ".eggs"; "node_modules"; "target"].     (* build output *)
Definition ignored_dir (n : string) : bool := mem_str n skip_directories || suffixb ".egg-info" n.

Definition spec_selected (excl : path -> bool) (root_children : list tree) : list (path * bool) :=
  filter (fun pu =>
            match fst pu with
            | n :: dirs => pytest_file_name n && negb (existsb ignored_dir dirs) && negb (excl (fst pu))
            | [] => false
            end)
         (flat_map (all_files []) root_children).
