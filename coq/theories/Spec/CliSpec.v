(** * Spec/CliSpec: what the CLI must print, in terms of the SERVER's answers.
    A CLI entry is a (file, fixture name) pair.  Its count is the number of references
    the server reports for the definitions printed under that entry; it is unused iff
    it is a project fixture, not autouse, and that number is zero.  Definitions only. *)
From PLS Require Export Model.Cli.

Section CliSpec.
  (** the server's reference lists, one per definition (its own answers, or the model's) *)
  Variable server_refs : list (fdef * list usage).

  Definition key_defs (k : key) : list fdef :=
    filter (fun d => key_eqb (key_of d) k) (map fst server_refs).
  Definition key_refs (k : key) : N :=
    fold_left N.add (map (fun dr => if key_eqb (key_of (fst dr)) k then len (snd dr) else 0) server_refs) 0.

  (** an entry may / must be reported unused *)
  Definition may_be_unused (k : key) : bool :=
    (key_refs k =? 0) && existsb (fun d => negb (d_third d) && negb (d_autouse d)) (key_defs k).
  Definition must_be_unused (k : key) : bool :=
    (key_refs k =? 0) && negb (match key_defs k with [] => true | _ => false end)
    && forallb (fun d => negb (d_third d) && negb (d_autouse d)) (key_defs k).

  Definition all_keys : list key := dedup key_eqb (map (fun dr => key_of (fst dr)) server_refs).

  Definition unused_ok (unused : list key) : bool :=
    forallb may_be_unused unused
    && forallb (fun k => negb (must_be_unused k) || memb key_eqb k unused) all_keys.
  Definition counts_ok (counts : list (key * N)) : bool :=
    forallb (fun kc => key_refs (fst kc) =? snd kc) counts
    && forallb (fun k => memb key_eqb k (map fst counts)) all_keys.

  Fixpoint sorted_keys (l : list key) : bool :=
    match l with
    | a :: ((b :: _) as r) => key_leb a b && sorted_keys r
    | _ => true
    end.
End CliSpec.
