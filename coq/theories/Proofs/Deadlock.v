(** * Deadlock freedom from an acyclic nesting table.
    If the conflict relation [G] restricted to the nesting table [E] is acyclic, then in
    EVERY configuration of ANY number of threads whose programs only nest as [E] says
    and release what they acquire — under any schedule, any placement of keys on shards —
    some unfinished thread can take a step. *)
From Coq Require Import Lia.
From PLS Require Import Model.Locks.

(** ** basics *)
Lemma lock_eqb_eq a b : lock_eqb a b = true -> a = b.
Proof.
  unfold lock_eqb. destruct a, b. cbn. intros H. apply andb_prop in H as [H1 H2].
  apply Nat.eqb_eq in H1, H2. now subst.
Qed.
Lemma lock_eqb_refl a : lock_eqb a a = true.
Proof. unfold lock_eqb. now rewrite !Nat.eqb_refl. Qed.
Lemma mode_eqb_eq a b : mode_eqb a b = true <-> a = b.
Proof. destruct a, b; cbn; split; congruence. Qed.

Lemma conflict_G m h : conflict m h = true -> m = W \/ h = W.
Proof. destruct m, h; cbn; intros; auto; discriminate. Qed.

Lemma Gb_G e e' : Gb e e' = true <-> G e e'.
Proof.
  unfold Gb, G. rewrite andb_true_iff, orb_true_iff, Nat.eqb_eq, !mode_eqb_eq. tauto.
Qed.

(** ** well-behaved threads *)
Definition ok_thread (E : list edge) (t : thread) : Prop :=
  incl (nest (held t) (rest t)) E /\ final_held (held t) (rest t) = [].
Definition ok (E : list edge) (c : list thread) : Prop := forall t, In t c -> ok_thread E t.

Lemma tstep_ok E c t t' : ok_thread E t -> tstep c t = Some t' -> ok_thread E t'.
Proof.
  unfold tstep, ok_thread. destruct t as [H acts]. cbn [held rest].
  destruct acts as [|[l m|l m] r]; [discriminate| |].
  - destruct (can_acq c l m); [|discriminate]. intros [Hi Hf] [= <-]. cbn [held rest nest final_held] in *.
    split; [|exact Hf]. intros e He. apply Hi. apply in_or_app. now right.
  - intros [Hi Hf] [= <-]. cbn [held rest nest final_held] in *. now split.
Qed.

Lemma in_replace_nth {A} i (x : A) l y : In y (replace_nth i x l) -> y = x \/ In y l.
Proof.
  revert i. induction l as [|z l IH]; intros i H; [destruct i; contradiction|].
  destruct i as [|i]; cbn in H.
  - destruct H as [<-|H]; [now left|right; now right].
  - destruct H as [<-|H]; [right; now left|]. destruct (IH i H); [now left|right; now right].
Qed.

Theorem ok_step E c c' : ok E c -> step c c' -> ok E c'.
Proof.
  intros Hok Hs. destruct Hs as [i t t' c Hn Ht]. intros x Hx.
  apply in_replace_nth in Hx as [->|Hx]; [|now apply Hok].
  eapply tstep_ok; [|exact Ht]. apply Hok. eapply nth_error_In; eauto.
Qed.

(** ** either somebody can step, or everybody is stuck *)
Definition dead (c : list thread) : Prop := forall t, In t c -> tstep c t = None.

Lemma progress_or_dead c : (exists c', step c c') \/ dead c.
Proof.
  destruct (existsb (fun t => match tstep c t with Some _ => true | None => false end) c) eqn:E.
  - left. apply existsb_exists in E as [t [Hin Ht]].
    destruct (tstep c t) as [t'|] eqn:Et; [|discriminate].
    apply In_nth_error in Hin as [i Hi]. exists (replace_nth i t' c). econstructor; eauto.
  - right. intros t Hin. destruct (tstep c t) eqn:Et; [|reflexivity].
    assert (X : existsb (fun t => match tstep c t with Some _ => true | None => false end) c = true).
    { apply existsb_exists. exists t. now rewrite Et. }
    congruence.
Qed.

(** an unfinished thread of a dead configuration waits for a lock it cannot get *)
Lemma dead_stuck c t :
  dead c -> In t c -> rest t <> [] ->
  exists l m r, rest t = Acq l m :: r /\ can_acq c l m = false.
Proof.
  intros Hd Hin Hr. specialize (Hd t Hin). unfold tstep in Hd.
  destruct (rest t) as [|[l m|l m] r]; [congruence| |discriminate].
  exists l, m, r. split; [reflexivity|]. destruct (can_acq c l m); [discriminate|reflexivity].
Qed.

Lemma not_can_acq_blocker c l m :
  can_acq c l m = false -> exists t h, In t c /\ In (l, h) (held t) /\ conflict m h = true.
Proof.
  unfold can_acq. intros H.
  assert (X : exists t, In t c /\ blocks t l m = true).
  { induction c as [|t c IH]; [discriminate|]. cbn in H.
    destruct (blocks t l m) eqn:B; [exists t; split; [now left|exact B]|].
    cbn in H. destruct (IH H) as [t' [Hi Hb]]. exists t'. split; [now right|exact Hb]. }
  destruct X as [t [Hin Hb]]. unfold blocks in Hb. apply existsb_exists in Hb as [[l' h] [Hh Hc]].
  cbn [fst snd] in Hc. apply andb_prop in Hc as [Hl Hc]. apply lock_eqb_eq in Hl. subst l'.
  exists t, h. auto.
Qed.

Lemma holder_unfinished E t x : ok_thread E t -> In x (held t) -> rest t <> [].
Proof.
  intros [_ Hf] Hin Hr. rewrite Hr in Hf. cbn in Hf. rewrite Hf in Hin. contradiction.
Qed.

(** ** the chain of blockers *)
(** [Q c e]: some thread holds [(l, h)], is stuck asking for [(l', m')], and [e] is that nesting *)
Definition Q (c : list thread) (e : edge) : Prop :=
  exists t l h l' m' r, In t c /\ In (l, h) (held t) /\ rest t = Acq l' m' :: r
                        /\ can_acq c l' m' = false /\ e = ((fst l, h), (fst l', m')).

Lemma Q_in_E E c e : ok E c -> Q c e -> In e E.
Proof.
  intros Hok (t & l & h & l' & m' & r & Hin & Hh & Hr & _ & ->).
  destruct (Hok t Hin) as [Hi _]. apply Hi. rewrite Hr. cbn [nest]. apply in_or_app. left.
  unfold edges_of. apply in_map_iff. exists (l, h). split; [reflexivity|exact Hh].
Qed.

Lemma Q_next E c e : ok E c -> dead c -> Q c e -> exists e', Q c e' /\ G e e'.
Proof.
  intros Hok Hd (t & l & h & l' & m' & r & Hin & Hh & Hr & Hc & ->).
  destruct (not_can_acq_blocker c l' m' Hc) as (t2 & h2 & Hin2 & Hh2 & Hcf).
  assert (Hr2 : rest t2 <> []) by (eapply holder_unfinished; [apply (Hok t2 Hin2)|exact Hh2]).
  destruct (dead_stuck c t2 Hd Hin2 Hr2) as (l3 & m3 & r3 & Hr3 & Hc3).
  exists ((fst l', h2), (fst l3, m3)). split.
  - exists t2, l', h2, l3, m3, r3. auto 10.
  - unfold G, req_map, held_map, req_mode, held_mode. cbn [fst snd]. split; [reflexivity|].
    now apply conflict_G.
Qed.

(** every blocked nesting survives every pruning round *)
Lemma Q_survives E c : ok E c -> dead c -> forall k e, Q c e -> In e (prune k E).
Proof.
  intros Hok Hd. induction k as [|k IH]; intros e Hq; cbn [prune].
  - eapply Q_in_E; eauto.
  - assert (S : forall E0, (forall e0, Q c e0 -> In e0 E0) -> forall e0, Q c e0 ->
                           In e0 (filter (fun e1 => existsb (Gb e1) E0) E0)).
    { intros E0 H0 e0 Hq0. apply filter_In. split; [now apply H0|].
      destruct (Q_next E c e0 Hok Hd Hq0) as [e' [Hq' Hg]].
      apply existsb_exists. exists e'. split; [now apply H0|now apply Gb_G]. }
    (* prune (S k) E = prune k (filter ...) ; generalise over the starting table *)
    clear IH. revert e Hq.
    assert (P : forall k0 E0, (forall e0, Q c e0 -> In e0 E0) -> forall e0, Q c e0 -> In e0 (prune k0 E0)).
    { induction k0 as [|k0 IHk]; intros E0 H0 e0 Hq0; cbn [prune]; [now apply H0|].
      apply IHk; [|exact Hq0]. intros e1 Hq1. now apply S. }
    intros e Hq. apply (P k); [|exact Hq]. intros e1 Hq1. apply S; [|exact Hq1].
    intros e2 Hq2. eapply Q_in_E; eauto.
Qed.

Theorem deadlock_free E c :
  acyclicb E = true -> ok E c -> (exists t, In t c /\ rest t <> []) -> exists c', step c c'.
Proof.
  intros Hac Hok [t0 [Hin0 Hr0]].
  destruct (progress_or_dead c) as [Hs|Hd]; [exact Hs|exfalso].
  destruct (dead_stuck c t0 Hd Hin0 Hr0) as (l1 & m1 & r1 & Hr1 & Hc1).
  destruct (not_can_acq_blocker c l1 m1 Hc1) as (t1 & h1 & Hin1 & Hh1 & _).
  assert (Hr : rest t1 <> []) by (eapply holder_unfinished; [apply (Hok t1 Hin1)|exact Hh1]).
  destruct (dead_stuck c t1 Hd Hin1 Hr) as (l2 & m2 & r2 & Hr2 & Hc2).
  assert (Hq : Q c ((fst l1, h1), (fst l2, m2))) by (exists t1, l1, h1, l2, m2, r2; auto 10).
  pose proof (Q_survives E c Hok Hd (length E) _ Hq) as Hin.
  unfold acyclicb in Hac. destruct (prune (length E) E); [contradiction|discriminate].
Qed.

(** along every execution *)
Inductive steps : list thread -> list thread -> Prop :=
| steps_refl c : steps c c
| steps_next c c' c'' : step c c' -> steps c' c'' -> steps c c''.

Corollary never_deadlocked E c0 c :
  acyclicb E = true -> ok E c0 -> steps c0 c ->
  (exists t, In t c /\ rest t <> []) -> exists c', step c c'.
Proof.
  intros Hac Hok Hs. induction Hs as [c|c c' c'' H1 _ IH]; [now apply (deadlock_free E)|].
  apply IH. eapply ok_step; eauto.
Qed.

(** ** a self-nesting that involves a write is a one-node cycle: the project's documented
    hazard (a guard on a map kept alive across a write to the same map) *)
Lemma self_write_nesting_cyclic mp h m E :
  In ((mp, h), (mp, m)) E -> (m = W \/ h = W) -> acyclicb E = false.
Proof.
  intros Hin Hw.
  assert (Hg : G ((mp, h), (mp, m)) ((mp, h), (mp, m))) by (unfold G; cbn; tauto).
  assert (P : forall k E0, In ((mp, h), (mp, m)) E0 -> In ((mp, h), (mp, m)) (prune k E0)).
  { induction k as [|k IH]; intros E0 H0; cbn [prune]; [exact H0|]. apply IH. apply filter_In.
    split; [exact H0|]. apply existsb_exists. exists ((mp, h), (mp, m)). split; [exact H0|now apply Gb_G]. }
  unfold acyclicb. specialize (P (length E) E Hin).
  match goal with |- match ?x with _ => _ end = _ => destruct x eqn:Ex end; [|reflexivity].
  unfold edge, mm in *. rewrite Ex in P. contradiction.
Qed.

(** and such a thread really deadlocks, alone, whatever the shard placement of OTHER keys:
    a thread that holds a lock and asks for the same lock in a conflicting mode *)
Lemma self_deadlock l h m r :
  conflict m h = true ->
  let c := [mk_thread [(l, h)] (Acq l m :: r)] in forall c', ~ step c c'.
Proof.
  intros Hc c c' Hs. inversion Hs as [i t t' c0 Hn Ht]; subst.
  destruct i as [|i]; cbn in Hn; [|destruct i; discriminate]. injection Hn as <-.
  unfold tstep in Ht. cbn in Ht. rewrite lock_eqb_refl, Hc in Ht. cbn in Ht. discriminate.
Qed.
