(** * The executable dependency spec ([reachable], [on_cycle], [same_scc] of Spec/Deps.v,
    the one evaluated on the implementation's answers) decides the relational notions the
    cycle theorems are stated with; corollary: the model's detector passes the executable
    spec on every index with unique keys. *)
From Coq Require Import Arith Lia Relations.
From PLS Require Import Spec.Deps Model.Diagnostics Proofs.Basics Proofs.Cycles Proofs.CyclesComplete.

Section DedupFacts.
  Lemma dedup_in (l : list fdef) y : In y (dedup fdef_eqb l) <-> In y l.
  Proof.
    induction l as [|x l IH]; [tauto|]. cbn [dedup]. split.
    - intros [<-|H]; [now left|]. apply filter_In in H as [H _]. right. now apply IH.
    - intros [<-|H]; [now left|]. destruct (fdef_eqb x y) eqn:E.
      + apply fdef_eqb_eq in E. now left.
      + right. apply filter_In. split; [now apply IH|now rewrite E].
  Qed.
  Lemma NoDup_filter {A} (p : A -> bool) l : NoDup l -> NoDup (filter p l).
  Proof.
    induction 1 as [|x l Hx _ IH]; cbn [filter]; [constructor|]. destruct (p x); [|exact IH].
    constructor; [|exact IH]. intros H. apply filter_In in H. tauto.
  Qed.
  Lemma dedup_nodup (l : list fdef) : NoDup (dedup fdef_eqb l).
  Proof.
    induction l as [|x l IH]; cbn [dedup]; constructor.
    - intros H. apply filter_In in H as [_ H]. rewrite fdef_eqb_refl in H. discriminate.
    - now apply NoDup_filter.
  Qed.
End DedupFacts.

Section SpecReach.
  Variable dk : disk.
  Variable roots : list path.
  Variable s : index.

  Notation succs := (succs dk roots s).
  Notation reach_from := (reach_from dk roots s).
  Notation dep_edge := (dep_edge dk roots s).
  Notation dep_reach := (dep_reach dk roots s).

  Lemma succs_dep_edge x y : In x (defs s) -> (In y (succs x) <-> dep_edge x y).
  Proof.
    intros Hx. unfold Deps.succs, CyclesComplete.dep_edge. rewrite in_flat_map. split.
    - intros [n [Hn H]]. split; [exact Hx|]. exists n. split; [exact Hn|].
      destruct (dep_target dk roots s x n); [destruct H as [->|[]]; reflexivity|destruct H].
    - intros [_ [n [Hn Ht]]]. exists n. split; [exact Hn|]. rewrite Ht. now left.
  Qed.
  Lemma succs_in_defs x y : In x (defs s) -> In y (succs x) -> In y (defs s).
  Proof.
    intros Hx H. apply (succs_dep_edge x y Hx) in H as [_ [n [_ Ht]]].
    now destruct (dep_target_in dk roots s x n y Hx Ht).
  Qed.

  (** reachable in at least one step *)
  Definition reach1 (d y : fdef) : Prop := exists w, dep_edge d w /\ dep_reach w y.

  Lemma reach1_step d x y : reach1 d x -> dep_edge x y -> reach1 d y.
  Proof. intros [w [A B]] H. exists w. split; [exact A|]. eapply rt_trans; [exact B|now apply rt_step]. Qed.

  Definition subset (a b : list fdef) : Prop := forall x, In x a -> In x b.

  (** ** soundness of the fuelled closure *)
  Lemma reach_from_sound d : forall fuel frontier seen,
    In d (defs s) ->
    (forall x, In x frontier -> In x (defs s) /\ (x = d \/ reach1 d x)) ->
    (forall x, In x seen -> reach1 d x) ->
    forall y, In y (reach_from fuel frontier seen) -> reach1 d y.
  Proof.
    induction fuel as [|fuel IH]; intros frontier seen Hd Hfr Hseen y Hy; cbn [Deps.reach_from] in Hy; [now apply Hseen|].
    set (next := filter (fun d0 => negb (memb fdef_eqb d0 seen)) (dedup fdef_eqb (flat_map succs frontier))) in *.
    assert (Hnext : forall z, In z next -> In z (defs s) /\ reach1 d z).
    { intros z Hz. apply filter_In in Hz as [Hz _]. apply (proj1 (dedup_in _ _)) in Hz. apply in_flat_map in Hz as [x [Hx Hz]].
      destruct (Hfr x Hx) as [Hxd Hor]. split; [now apply (succs_in_defs x)|].
      apply (succs_dep_edge x z Hxd) in Hz. destruct Hor as [->|Hr].
      - exists z. split; [exact Hz|apply rt_refl].
      - now apply (reach1_step d x). }
    destruct next as [|n0 nx] eqn:En; [now apply Hseen|].
    apply (IH (n0 :: nx) (seen ++ n0 :: nx) Hd); [| |exact Hy].
    - intros x Hx. destruct (Hnext x Hx) as [A B]. split; [exact A|now right].
    - intros x Hx. apply in_app_iff in Hx as [Hx|Hx]; [now apply Hseen|now apply Hnext].
  Qed.

  (** ** completeness: the result is closed under successors, given enough fuel *)
  Definition closed_inv (d : fdef) (frontier seen : list fdef) : Prop :=
    (forall x, In x seen -> In x frontier \/ subset (succs x) seen) /\
    (subset (succs d) seen \/ In d frontier).

  Lemma reach_from_closed d : forall fuel frontier seen,
    (length (defs s) < fuel + length seen)%nat ->
    NoDup seen -> subset seen (defs s) -> subset frontier (defs s) ->
    closed_inv d frontier seen ->
    let res := reach_from fuel frontier seen in
    subset (succs d) res /\ (forall x, In x res -> subset (succs x) res).
  Proof.
    induction fuel as [|fuel IH]; intros frontier seen Hfuel Hnd Hsd Hfd [I1 I2].
    - exfalso. pose proof (NoDup_incl_length Hnd Hsd) as L. cbn in Hfuel. lia.
    - cbn [Deps.reach_from].
      set (next := filter (fun d0 => negb (memb fdef_eqb d0 seen)) (dedup fdef_eqb (flat_map succs frontier))).
      assert (Hcov : forall x z, In x frontier -> In z (succs x) -> In z seen \/ In z next).
      { intros x z Hx Hz. destruct (memb fdef_eqb z seen) eqn:Em; [left; now apply memb_fdef_in|right].
        apply filter_In. split; [|now rewrite Em]. apply dedup_in. apply in_flat_map. exists x. tauto. }
      assert (Hnd' : NoDup (seen ++ next)).
      { apply NoDup_app_intro; [exact Hnd|apply NoDup_filter, dedup_nodup|].
        intros z Hz Hz'. apply filter_In in Hz' as [_ Hm]. apply (proj2 (memb_fdef_in z seen)) in Hz. rewrite Hz in Hm. discriminate. }
      assert (Hnextd : subset next (defs s)).
      { intros z Hz. apply filter_In in Hz as [Hz _]. apply (proj1 (dedup_in _ _)) in Hz. apply in_flat_map in Hz as [x [Hx Hz]].
        apply (succs_in_defs x z); [now apply Hfd|exact Hz]. }
      destruct next as [|n0 nx] eqn:En.
      + (* fixpoint reached *)
        split.
        * destruct I2 as [I2|I2]; [exact I2|]. intros z Hz. destruct (Hcov d z I2 Hz) as [H|[]]. exact H.
        * intros x Hx z Hz. destruct (I1 x Hx) as [Hf|Hc]; [|now apply Hc]. destruct (Hcov x z Hf Hz) as [H|[]]. exact H.
      + apply IH.
        * rewrite app_length. cbn [length]. cbn [length] in Hfuel. lia.
        * exact Hnd'.
        * intros z Hz. apply in_app_iff in Hz as [Hz|Hz]; [now apply Hsd|now apply Hnextd].
        * exact Hnextd.
        * split.
          -- intros x Hx. apply in_app_iff in Hx as [Hx|Hx]; [|now left].
             right. intros z Hz. apply in_or_app. destruct (I1 x Hx) as [Hf|Hc]; [now apply (Hcov x)|left; now apply Hc].
          -- left. intros z Hz. apply in_or_app. destruct I2 as [I2|I2]; [left; now apply I2|now apply (Hcov d)].
  Qed.

  Lemma dep_edge_defs x y : dep_edge x y -> In x (defs s) /\ In y (defs s).
  Proof. intros [Hx [n [_ Ht]]]. split; [exact Hx|]. now destruct (dep_target_in dk roots s x n y Hx Ht). Qed.
  Lemma dep_reach_defs x y : In x (defs s) -> dep_reach x y -> In y (defs s).
  Proof.
    intros Hx H. apply clos_rt_rt1n in H. revert Hx. induction H as [x|x w y Hxw _ IH]; intros Hx; [exact Hx|].
    apply IH. now destruct (dep_edge_defs x w Hxw).
  Qed.

  Theorem reachable_iff d y : In d (defs s) -> (In y (reachable dk roots s d) <-> reach1 d y).
  Proof.
    intros Hd. unfold reachable. split.
    - apply (reach_from_sound d); [exact Hd| |intros x []].
      intros x [<-|[]]. split; [exact Hd|now left].
    - intros [w [Hdw Hwy]].
      destruct (reach_from_closed d (S (length (defs s))) [d] []) as [C1 C2].
      + cbn [length]. lia.
      + constructor.
      + intros x [].
      + intros x [<-|[]]. exact Hd.
      + split; [intros x []|right; now left].
      + assert (Hw : In w (reach_from (S (length (defs s))) [d] [])).
        { apply C1. now apply (succs_dep_edge d w Hd). }
        clear Hdw. apply clos_rt_rt1n in Hwy. induction Hwy as [x|x x' y Hxx' _ IH]; [exact Hw|].
        apply IH. apply (C2 x Hw). destruct (dep_edge_defs x x' Hxx') as [Hx _]. now apply (succs_dep_edge x x' Hx).
  Qed.

  Corollary on_cycle_iff d : In d (defs s) -> (on_cycle dk roots s d = true <-> reach1 d d).
  Proof. intros Hd. unfold on_cycle. rewrite memb_fdef_in. now apply reachable_iff. Qed.

  Lemma dep_reach_reach1 x y : dep_reach x y -> x = y \/ reach1 x y.
  Proof.
    intros H. apply clos_rt_rt1n in H. destruct H as [|w y Hxw Hwy]; [now left|right].
    exists w. split; [exact Hxw|now apply clos_rt1n_rt].
  Qed.
  Lemma reach1_dep_reach x y : reach1 x y -> dep_reach x y.
  Proof. intros [w [A B]]. eapply rt_trans; [apply rt_step; exact A|exact B]. Qed.

  (** [same_scc] decides mutual reachability *)
  Theorem same_scc_iff d d' : In d (defs s) -> In d' (defs s) ->
    (same_scc dk roots s d d' = true <-> (dep_reach d d' /\ dep_reach d' d)).
  Proof.
    intros Hd Hd'. unfold same_scc. rewrite orb_true_iff, andb_true_iff, !memb_fdef_in.
    rewrite (reachable_iff d d' Hd), (reachable_iff d' d Hd'). split.
    - intros [E|[A B]]; [apply fdef_eqb_eq in E; subst; split; apply rt_refl|].
      split; now apply reach1_dep_reach.
    - intros [A B]. destruct (dep_reach_reach1 d d' A) as [->|A']; [left; apply fdef_eqb_refl|].
      destruct (dep_reach_reach1 d' d B) as [->|B']; [left; apply fdef_eqb_refl|]. right. now split.
  Qed.

  (** the model's detector passes the executable spec on every index with unique keys *)
  Theorem cycles_cold_meets_spec : keys_unique s -> cycles_ok dk roots s (cycles_cold dk roots s) = true.
  Proof.
    intros KU. unfold cycles_ok. apply andb_true_iff. split.
    - apply forallb_forall. apply Forall_forall. now apply cycles_cold_sound.
    - apply forallb_forall. intros d Hd. destruct (on_cycle dk roots s d) eqn:Eo; [|reflexivity]. cbn [negb orb].
      apply (on_cycle_iff d Hd) in Eo as [w [Hdw Hwd]].
      destruct (cycles_cold_complete_spec dk roots s KU d w Hdw Hwd) as [c [Hc [A B]]].
      apply existsb_exists. exists c. split; [exact Hc|].
      apply same_scc_iff; [exact Hd|now apply (dep_reach_defs d)|now split].
  Qed.
End SpecReach.
