(** * Proofs/Cycles: the dependency diagnostics of Model/Diagnostics.v against Spec/Deps.v *)
From PLS Require Import Check.C16 Proofs.Basics Proofs.Available.
From Coq Require Import Lia Permutation.

Section Scope.
  Variable dk : disk.
  Variable roots : list path.
  Variable s : index.

  (** every reported mismatch is a real one: the fixture is the last binding of its
      name in F, the dependency is what resolution selects for it, and it is narrower *)
  Theorem mismatches_sound F m :
    In m (mismatches dk roots s F) ->
    d_file (mm_fixture m) = F /\ In (mm_fixture m) (defs s) /\
    own_last s F (d_name (mm_fixture m)) = Some (mm_fixture m) /\
    expected_mismatch dk roots s (mm_fixture m) (mm_dependency m) = true.
  Proof.
    unfold mismatches. intros H. apply in_flat_map in H as [n [Hn H]].
    destruct (max_by_key d_line (filter (fun d => path_eqb (d_file d) F) (defs_named s n))) as [f|] eqn:Ef; [|destruct H].
    apply in_flat_map in H as [dn [Hdn H]].
    destruct (dep_target dk roots s f dn) as [dep|] eqn:Et; [|destruct H].
    destruct (d_scope dep <? d_scope f) eqn:Es; [|destruct H]. destruct H as [<-|[]]. cbn [mm_fixture mm_dependency].
    pose proof (max_by_key_in _ _ _ Ef) as Hin. apply filter_In in Hin as [Hin Hf].
    apply path_eqb_eq in Hf.
    assert (Hname : d_name f = n).
    { unfold defs_named in Hin. apply filter_In in Hin as [_ E]. now apply String.eqb_eq. }
    split; [exact Hf|]. split; [unfold defs_named in Hin; apply filter_In in Hin; tauto|]. split.
    - unfold own_last, defs_in. rewrite Hname. exact Ef.
    - unfold expected_mismatch. rewrite Es, andb_true_r. apply existsb_exists. exists dn. split; [exact Hdn|].
      rewrite Et. cbn. apply fdef_eqb_refl.
  Qed.

  (** ... and every real one of a fixture the index knows for F is reported *)
  Theorem mismatches_complete F f dn dep :
    In (d_name f) (file_def_names s F) ->
    own_last s F (d_name f) = Some f ->
    In dn (d_deps f) -> dep_target dk roots s f dn = Some dep -> d_scope dep < d_scope f ->
    In (mk_mismatch f dep) (mismatches dk roots s F).
  Proof.
    intros Hn Ho Hdn Et Hs. unfold mismatches. apply in_flat_map. exists (d_name f). split; [exact Hn|].
    unfold own_last, defs_in in Ho. rewrite Ho. apply in_flat_map. exists dn. split; [exact Hdn|].
    rewrite Et. apply N.ltb_lt in Hs. rewrite Hs. now left.
  Qed.
End Scope.

(** ** cycles: every reported cycle is a real closed dependency chain *)
Section CycleSound.
  Variable dk : disk.
  Variable roots : list path.
  Variable s : index.

  (** no two definitions share (file, line, name) — what the detector keys nodes by *)
  Definition keys_unique : Prop :=
    forall a b, In a (defs s) -> In b (defs s) -> same_node a b = true -> a = b.
  Hypothesis KU : keys_unique.

  Lemma closest_with_in flt F n d : closest_with dk roots s flt F n = Some d -> In d (defs_named s n).
  Proof.
    unfold closest_with.
    destruct (defs_named s n) as [|x0 l0] eqn:Edn; [discriminate|]. rewrite <- Edn.
    assert (Hlb : forall m d0, last_binding flt (defs_named s n) m = Some d0 -> In d0 (defs_named s n)).
    { intros m d0. unfold last_binding.
      destruct (max_by_key d_line (filter (fun d1 => path_eqb (d_file d1) m) (defs_named s n))) as [d1|] eqn:E; [|discriminate].
      destruct (flt d1); [|discriminate]. intros [= <-]. apply max_by_key_in in E. apply filter_In in E. tauto. }
    destruct (last_binding flt (defs_named s n) F) as [d0|] eqn:El.
    { intros [= <-]. eapply Hlb; eauto. }
    destruct F as [|f dir]; [discriminate|].
    destruct (first_some (conftest_step dk roots s flt (defs_named s n) n) (ancestors dir)) as [d0|] eqn:Ew.
    { intros [= <-]. apply first_some_some in Ew as [dir0 [_ Es]]. unfold conftest_step in Es.
      destruct (last_binding flt (defs_named s n) (conftest_py :: dir0)) as [d1|] eqn:El1.
      - injection Es as <-. eapply Hlb; eauto.
      - destruct ((disk_file dk (conftest_py :: dir0) || in_cache s (conftest_py :: dir0))
                  && is_imported dk roots s n (conftest_py :: dir0)); [|discriminate].
        apply find_some in Es. tauto. }
    destruct (find (fun d0 => d_plugin d0 && negb (d_third d0) && flt d0) (defs_named s n)) as [d0|] eqn:Ep.
    { intros [= <-]. apply find_some in Ep. tauto. }
    intros Et. apply find_some in Et. tauto.
  Qed.

  Lemma defs_named_in n d : In d (defs_named s n) -> In d (defs s) /\ d_name d = n.
  Proof. unfold defs_named. intros H. apply filter_In in H as [H E]. split; [exact H|now apply String.eqb_eq]. Qed.

  Lemma dep_target_in d n t : In d (defs s) -> dep_target dk roots s d n = Some t -> In t (defs s) /\ d_name t = n.
  Proof.
    intros Hd. unfold dep_target. destruct (String.eqb n (d_name d)) eqn:E.
    - apply String.eqb_eq in E. destruct (closest_excluding dk roots s (d_file d) n d) as [p|] eqn:Ec.
      + intros [= <-]. unfold closest_excluding in Ec. apply closest_with_in in Ec. now apply defs_named_in.
      + intros [= <-]. split; [exact Hd|now symmetry].
    - intros H. unfold closest in H. apply closest_with_in in H. now apply defs_named_in.
  Qed.

  Lemma nodes_in d : In d (nodes s) <-> In d (defs s).
  Proof.
    unfold nodes. split; intros H.
    - eapply Permutation_in; [apply isort_perm|exact H].
    - eapply Permutation_in; [symmetry; apply isort_perm|exact H].
  Qed.

  Lemma same_node_refl d : same_node d d = true.
  Proof. unfold same_node. now rewrite path_eqb_refl, N.eqb_refl, String.eqb_refl. Qed.

  Lemma node_of_self t : In t (defs s) -> node_of s t = Some t.
  Proof.
    intros Ht. unfold node_of. destruct (find (same_node t) (nodes s)) as [x|] eqn:E.
    - apply find_some in E as [Hx Hs]. apply nodes_in in Hx. f_equal. symmetry. now apply KU.
    - exfalso. pose proof (find_none _ _ E t (proj2 (nodes_in t) Ht)) as X. rewrite same_node_refl in X. discriminate.
  Qed.

  Definition edge (x y : fdef) : Prop := In y (node_succs dk roots s x).

  Lemma edge_step x y : In x (defs s) -> edge x y ->
    In y (defs s) /\ mem_str (d_name y) (d_deps x) = true /\ dep_target dk roots s x (d_name y) = Some y.
  Proof.
    intros Hx H. unfold edge, node_succs in H. apply in_flat_map in H as [n [Hn H]].
    destruct (dep_target dk roots s x n) as [t|] eqn:Et; [|destruct H].
    destruct (dep_target_in x n t Hx Et) as [Ht Hname].
    rewrite (node_of_self t Ht) in H. destruct H as [<-|[]].
    split; [exact Ht|]. rewrite Hname. split; [now apply mem_str_in|exact Et].
  Qed.

  Fixpoint chain (l : list fdef) : Prop :=
    match l with
    | [] => True
    | x :: r => In x (defs s) /\ match r with [] => True | y :: _ => edge x y end /\ chain r
    end.

  Lemma chain_app_one l x d : chain (l ++ [x]) -> edge x d -> chain (l ++ [x] ++ [d]).
  Proof.
    induction l as [|a l IH]; intros H He.
    - cbn in *. destruct H as [Hx _]. repeat split; auto. apply (edge_step x d Hx He).
    - cbn [app] in *. destruct H as (Ha & Hn & Hr). cbn [chain]. split; [exact Ha|]. split.
      + destruct l; cbn in *; exact Hn.
      + apply IH; assumption.
  Qed.

  Lemma chain_suffix pre l : chain (pre ++ l) -> chain l.
  Proof. induction pre as [|a pre IH]; cbn [app]; [auto|]. intros H. apply IH. cbn in H. tauto. Qed.

  Lemma drop_until_spec d pth : In d pth -> exists pre post, pth = pre ++ d :: post /\ drop_until d pth = d :: post.
  Proof.
    induction pth as [|x pth IH]; [intros []|]. intros H. cbn [drop_until].
    destruct (fdef_eqb x d) eqn:E.
    - apply fdef_eqb_eq in E; subst. exists [], pth. auto.
    - destruct H as [->|H]; [rewrite fdef_eqb_refl in E; discriminate|].
      destruct (IH H) as [pre [post [-> Hd]]]. exists (x :: pre), post. auto.
  Qed.

  (** a chain start -> ... -> last, with last -> start, passes [chain_ok] *)
  Lemma last_nonempty_default {A} (a : A) l d1 d2 : last (a :: l) d1 = last (a :: l) d2.
  Proof. revert a. induction l as [|b l IH]; intros a; [reflexivity|]. cbn [last]. apply (IH b). Qed.

  Lemma chain_ok_closed start rest : forall cur,
    chain (cur :: rest) -> edge (last (cur :: rest) cur) start -> In start (defs s) ->
    chain_ok dk roots s start cur (map d_name rest ++ [d_name start]) = true.
  Proof.
    induction rest as [|y rest IH]; intros cur Hc He Hs.
    - cbn in He. cbn in Hc. destruct Hc as (Hcur & _ & _). cbn.
      destruct (edge_step cur start Hcur He) as (_ & Hm & Ht). rewrite Hm, Ht. cbn. apply fdef_eqb_refl.
    - cbn [chain] in Hc. destruct Hc as (Hcur & Hed & Hr).
      destruct (edge_step cur y Hcur Hed) as (_ & Hm & Ht).
      cbn [map app].
      destruct (map d_name rest ++ [d_name start]) as [|z zs] eqn:Ez.
      { destruct rest; discriminate. }
      change (chain_ok dk roots s start cur (d_name y :: z :: zs))
        with (mem_str (d_name y) (d_deps cur) &&
              match dep_target dk roots s cur (d_name y) with
              | Some nxt => chain_ok dk roots s start nxt (z :: zs)
              | None => false
              end).
      rewrite Hm, Ht. cbn [andb]. apply IH; [exact Hr| |exact Hs].
      rewrite (last_nonempty_default y rest y cur). exact He.
  Qed.

  Definition all_sound (st : dfs_state) : Prop := Forall (fun c => cycle_sound dk roots s c = true) (found st).

  Lemma report_keeps l d dep st :
    chain (l ++ [d]) -> edge d dep -> In dep (l ++ [d]) -> all_sound st -> all_sound (report (l ++ [d]) dep st).
  Proof.
    intros Hc He Hin Hs. unfold report.
    destruct (memb key_eqb (drop_until dep (l ++ [d])) (seen_keys st)); [exact Hs|].
    unfold all_sound in *. cbn [found]. apply Forall_app. split; [exact Hs|]. constructor; [|constructor].
    destruct (drop_until_spec dep _ Hin) as [pre [post [Hp Hd]]]. rewrite Hd.
    assert (Hch : chain (dep :: post)). { apply (chain_suffix pre). now rewrite <- Hp. }
    assert (Hdep : In dep (defs s)). { cbn in Hch. tauto. }
    assert (Hlast : last (dep :: post) dep = d).
    { assert (X : last (l ++ [d]) dep = d) by apply last_last. rewrite Hp in X.
      clear -X. induction pre as [|a pre IH]; [exact X|]. apply IH. cbn [app last] in X.
      destruct (pre ++ dep :: post) eqn:E; [destruct pre; discriminate|exact X]. }
    unfold cycle_sound. cbn [cy_path cy_fixture map app]. rewrite String.eqb_refl.
    rewrite (proj2 (memb_fdef_in dep (defs s)) Hdep). cbn [andb].
    apply chain_ok_closed; [exact Hch|rewrite Hlast; exact He|exact Hdep].
  Qed.

  Lemma visit_sound fuel : forall rec pth d st,
    chain (pth ++ [d]) -> (forall x, mem_node x rec = true -> In x pth) ->
    all_sound st -> all_sound (visit dk roots s fuel rec pth d st).
  Proof.
    induction fuel as [|fuel IH]; intros rec pth d st Hc Hrec Hs; [exact Hs|]. cbn [visit].
    set (rec' := d :: rec). set (pth' := pth ++ [d]).
    assert (Hrec' : forall x, mem_node x rec' = true -> In x pth').
    { intros x Hx. unfold rec', mem_node, memb in Hx. cbn in Hx. apply orb_true_iff in Hx as [Hx|Hx].
      - apply fdef_eqb_eq in Hx; subst. unfold pth'. apply in_or_app. right. now left.
      - unfold pth'. apply in_or_app. left. apply Hrec. exact Hx. }
    assert (G : forall succs st0, (forall y, In y succs -> edge d y) -> all_sound st0 ->
              all_sound (fold_left (fun st1 dep =>
                                      if mem_node dep rec' then report pth' dep st1
                                      else if mem_node dep (visited st1) then st1
                                      else visit dk roots s fuel rec' pth' dep st1) succs st0)).
    { induction succs as [|y succs IHs]; intros st0 He Hs0; cbn [fold_left]; [exact Hs0|].
      apply IHs; [intros z Hz; apply He; now right|].
      destruct (mem_node y rec') eqn:Er.
      - apply report_keeps; [exact Hc|apply He; now left|apply Hrec'; exact Er|exact Hs0].
      - destruct (mem_node y (visited st0)); [exact Hs0|].
        apply IH; [|exact Hrec'|exact Hs0].
        unfold pth'. rewrite <- app_assoc. apply chain_app_one; [exact Hc|apply He; now left]. }
    unfold all_sound. cbn [found]. apply G; [intros y Hy; exact Hy|exact Hs].
  Qed.

  Theorem cycles_cold_sound : Forall (fun c => cycle_sound dk roots s c = true) (cycles_cold dk roots s).
  Proof.
    unfold cycles_cold.
    assert (G : forall l st, (forall d, In d l -> In d (defs s)) -> all_sound st ->
              all_sound (fold_left (fun st d => if mem_node d (visited st) then st
                                                else visit dk roots s (S (List.length (nodes s))) [] [] d st) l st)).
    { induction l as [|d l IHl]; intros st Hl Hs; cbn [fold_left]; [exact Hs|].
      apply IHl; [intros x Hx; apply Hl; now right|].
      destruct (mem_node d (visited st)); [exact Hs|].
      apply visit_sound; [cbn; repeat split; auto; apply Hl; now left|intros x Hx; discriminate|exact Hs]. }
    apply G; [intros d Hd; now apply nodes_in|constructor].
  Qed.
End CycleSound.
