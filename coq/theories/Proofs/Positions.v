(** * Proofs for C15: UTF-16 slices and byte columns, the textual searches that place
    name spans, the provider ranges, the line index. *)
From Coq Require Import Arith Lia.
From PLS Require Import Model.Ranges Model.Analyzer Proofs.TextFns.
Open Scope N_scope.

Definition ascii (s : text) : bool := forallb (fun c => c <? 128) s.

Lemma ascii_app a b : ascii (a ++ b) = ascii a && ascii b.
Proof. apply forallb_app. Qed.

Lemma ascii_len16 s : ascii s = true -> len16 s = blen s.
Proof.
  induction s as [|c s IH]; [reflexivity|]. cbn [ascii forallb blen len16]. intros H.
  apply andb_prop in H as [H1 H2]. rewrite (IH H2). unfold w16, width.
  destruct (c <? 128) eqn:E; [|discriminate]. destruct (c <? 65536) eqn:E2; [reflexivity|lia].
Qed.

Lemma w16_pos c : 1 <= w16 c.
Proof. unfold w16. destruct (c <? 65536); lia. Qed.

(** splitting at the UTF-16 length of a prefix gives back the prefix *)
Lemma split16_app a : forall b, split16 (a ++ b) (len16 a) = Some (a, b).
Proof.
  induction a as [|x a IH]; intros b.
  - destruct b; reflexivity.
  - cbn [app len16 split16]. pose proof (w16_pos x).
    destruct (w16 x + len16 a =? 0) eqn:E; [lia|].
    destruct (w16 x <=? w16 x + len16 a) eqn:E2; [|lia].
    replace (w16 x + len16 a - w16 x) with (len16 a) by lia. now rewrite IH.
Qed.

Lemma text_eqb_refl s : text_eqb s s = true.
Proof. unfold text_eqb. induction s as [|c s IH]; [reflexivity|]. cbn [list_eqb]. now rewrite N.eqb_refl, IH. Qed.

(** ** an exact token is marked by its UTF-16 columns ... *)
Theorem marks_exact_token pre tok post :
  ends_ident pre = false -> starts_ident post = false ->
  marks_on_line (pre ++ tok ++ post) (len16 pre) (len16 pre + len16 tok) tok = true.
Proof.
  intros H1 H2. unfold marks_on_line.
  replace (len16 pre <=? len16 pre + len16 tok) with true by lia.
  rewrite split16_app. replace (len16 pre + len16 tok - len16 pre) with (len16 tok) by lia.
  rewrite split16_app, text_eqb_refl, H1, H2. reflexivity.
Qed.

(** ** ... and by its BYTE columns whenever everything before its end is ASCII *)
Theorem byte_columns_mark_ascii pre tok post :
  ascii (pre ++ tok) = true -> ends_ident pre = false -> starts_ident post = false ->
  marks_on_line (pre ++ tok ++ post) (blen pre) (blen pre + blen tok) tok = true.
Proof.
  intros Ha H1 H2. rewrite ascii_app in Ha. apply andb_prop in Ha as [Hp Ht].
  rewrite <- (ascii_len16 pre Hp), <- (ascii_len16 tok Ht). now apply marks_exact_token.
Qed.

(** the known finding: a non-ASCII character before the token shifts byte columns *)
Lemma byte_columns_refuted :
  let line := [115; 32; 61; 32; 34; 233; 34; 59; 32; 100; 98] in     (* s = "é"; db *)
  marks_on_line line 9 11 [100; 98] = true            (* UTF-16 columns of db *)
  /\ blen (firstn 9 line) = 10                         (* its byte column *)
  /\ marks_on_line line 10 12 [100; 98] = false.
Proof. repeat split; vm_compute; reflexivity. Qed.

(** ** [find]: soundness *)
Lemma tprefix_app p : forall s, tprefix p s = true -> exists r, s = p ++ r.
Proof.
  induction p as [|a p IH]; intros s H; [exists s; reflexivity|].
  destruct s as [|b s]; [discriminate|]. cbn in H. apply andb_prop in H as [H1 H2].
  apply N.eqb_eq in H1. subst. destruct (IH s H2) as [r ->]. exists r. reflexivity.
Qed.
Lemma find_at_sound p : forall s off r,
  find_at p s off = Some r -> exists pre post, s = pre ++ p ++ post /\ r = off + blen pre.
Proof.
  induction s as [|c s IH]; intros off r H; cbn [find_at] in H.
  - destruct (tprefix p []) eqn:E; [|discriminate]. injection H as <-.
    apply tprefix_app in E as [r E]. exists [], r. cbn. split; [exact E|lia].
  - destruct (tprefix p (c :: s)) eqn:E.
    + injection H as <-. apply tprefix_app in E as [r E]. exists [], r. cbn. split; [exact E|lia].
    + apply IH in H as [pre [post [-> ->]]]. exists (c :: pre), post. cbn [app blen]. split; [reflexivity|lia].
Qed.
Lemma find_sound p s k : find p s = Some k -> exists pre post, s = pre ++ p ++ post /\ k = blen pre.
Proof. intros H. apply find_at_sound in H as [pre [post [H1 H2]]]. exists pre, post. split; [exact H1|lia]. Qed.

(** byte-offset slicing of a concatenation *)
Lemma slice_from_app a : forall b, slice_from (a ++ b) (blen a) = Some b.
Proof.
  induction a as [|x a IH]; intros b; [destruct b; reflexivity|].
  cbn [app blen slice_from]. pose proof (width_pos x).
  destruct (width x + blen a =? 0) eqn:E; [lia|]. destruct (width x <=? width x + blen a) eqn:E2; [|lia].
  replace (width x + blen a - width x) with (blen a) by lia. apply IH.
Qed.
Lemma slice_to_app a : forall b, slice_to (a ++ b) (blen a) = Some a.
Proof.
  induction a as [|x a IH]; intros b; [destruct b; reflexivity|].
  cbn [app blen slice_to]. pose proof (width_pos x).
  destruct (width x + blen a =? 0) eqn:E; [lia|]. destruct (width x <=? width x + blen a) eqn:E2; [|lia].
  replace (width x + blen a - width x) with (blen a) by lia. now rewrite IH.
Qed.
Lemma slice_from_sound : forall s i r, slice_from s i = Some r -> exists pre, s = pre ++ r /\ blen pre = i.
Proof.
  induction s as [|c s IH]; intros i r H; cbn [slice_from] in H.
  - destruct (i =? 0) eqn:E; [|discriminate]. injection H as <-. exists []. split; [reflexivity|cbn; lia].
  - destruct (i =? 0) eqn:E.
    + injection H as <-. exists []. split; [reflexivity|cbn; lia].
    + destruct (width c <=? i) eqn:E2; [|discriminate]. apply IH in H as [pre [-> Hb]].
      exists (c :: pre). cbn [app blen]. split; [reflexivity|lia].
Qed.

(** ** [string_usage_span]: what [find_token] returns is the name, as a whole token *)
Lemma last_cp_ends pre : ends_ident pre = match last_cp pre with Some c => ident_char c | None => false end.
Proof. unfold ends_ident, last_cp. destruct (rev pre); reflexivity. Qed.

Theorem find_token_sound nm : forall fuel src from at_,
  find_token fuel nm src from = Some at_ ->
  exists pre post, src = pre ++ nm ++ post /\ blen pre = at_ /\ from <= at_
                   /\ ends_ident pre = false /\ starts_ident post = false.
Proof.
  induction fuel as [|fuel IH]; intros src from at_ H; [discriminate|].
  cbn [find_token] in H.
  destruct (slice_from src from) as [rest|] eqn:Es; [|discriminate].
  destruct (find nm rest) as [k|] eqn:Ef; [|discriminate].
  apply slice_from_sound in Es as [p0 [-> Hp0]].
  apply find_sound in Ef as [p1 [post [-> ->]]].
  remember (from + blen p1) as a eqn:Ea.
  assert (Hpre : slice_to (p0 ++ p1 ++ nm ++ post) a = Some (p0 ++ p1)).
  { rewrite app_assoc. replace a with (blen (p0 ++ p1)) by (rewrite blen_app; lia). apply slice_to_app. }
  assert (Hpost : slice_from (p0 ++ p1 ++ nm ++ post) (a + blen nm) = Some post).
  { replace (p0 ++ p1 ++ nm ++ post) with ((p0 ++ p1 ++ nm) ++ post) by (now rewrite <- !app_assoc).
    replace (a + blen nm) with (blen (p0 ++ p1 ++ nm)) by (rewrite !blen_app; lia). apply slice_from_app. }
  rewrite Hpre, Hpost in H.
  destruct ((match last_cp (p0 ++ p1) with Some c => negb (ident_char c) | None => true end)
            && (match post with c :: _ => negb (ident_char c) | [] => true end)) eqn:Eb.
  - injection H as <-. exists (p0 ++ p1), post. rewrite <- app_assoc. split; [reflexivity|].
    split; [rewrite blen_app; lia|]. split; [lia|].
    apply andb_prop in Eb as [E1 E2]. split.
    + rewrite last_cp_ends. destruct (last_cp (p0 ++ p1)); [now apply negb_true_iff in E1|reflexivity].
    + unfold starts_ident. destruct post; [reflexivity|now apply negb_true_iff in E2].
  - apply IH in H as [pre [post' [E [Hb [Hle [H1 H2]]]]]]. exists pre, post'. repeat split; try assumption. lia.
Qed.

(** the span recorded for a string usage, in columns relative to the start of the literal,
    marks the name — for every literal source [src] whose text up to the end of the name
    is ASCII (prefixes, triple quotes, comma-separated names, spaces included) *)
Theorem find_token_marks nm fuel src from at_ :
  find_token fuel nm src from = Some at_ -> ascii src = true ->
  marks_on_line src at_ (at_ + blen nm) nm = true.
Proof.
  intros H Ha. apply find_token_sound in H as [pre [post [-> [<- [_ [H1 H2]]]]]].
  apply byte_columns_mark_ascii; [|exact H1|exact H2].
  rewrite !ascii_app in Ha. rewrite ascii_app. apply andb_prop in Ha as [Hp Hr].
  apply andb_prop in Hr as [Hn _]. now rewrite Hp, Hn.
Qed.

(** ... and the same columns shifted by the literal's own column mark it on the line *)
Theorem string_usage_marks nm fuel src from at_ linepre rest :
  find_token fuel nm src from = Some at_ -> 0 < from ->
  ascii (linepre ++ src) = true ->
  (forall pre post, src = pre ++ nm ++ post -> blen pre = at_ -> post <> []) ->
  marks_on_line (linepre ++ src ++ rest) (blen linepre + at_) (blen linepre + at_ + blen nm) nm = true.
Proof.
  intros H Hfrom Ha Hpost. apply find_token_sound in H as [pre [post [-> [Hb [Hle [H1 H2]]]]]].
  specialize (Hpost pre post eq_refl Hb).
  replace (linepre ++ (pre ++ nm ++ post) ++ rest) with ((linepre ++ pre) ++ nm ++ (post ++ rest))
    by (now rewrite <- !app_assoc).
  replace (blen linepre + at_) with (blen (linepre ++ pre)) by (rewrite blen_app; lia).
  apply byte_columns_mark_ascii.
  - rewrite !ascii_app in Ha. rewrite !ascii_app.
    apply andb_prop in Ha as [Hl Hs]. apply andb_prop in Hs as [Hp Hs]. apply andb_prop in Hs as [Hn _].
    now rewrite Hl, Hp, Hn.
  - assert (pre <> []) by (intros ->; cbn in Hb; lia).
    unfold ends_ident in *. rewrite rev_app_distr. destruct (rev pre) eqn:E.
    + apply (f_equal (@rev _)) in E. rewrite rev_involutive in E. cbn in E. contradiction.
    + exact H1.
  - destruct post; [contradiction|exact H2].
Qed.

(** the repair in numbers: [r"db"] — before, the literal minus one column at either end *)
Lemma string_span_old_refuted :
  let content := [64; 117; 40; 114; 34; 100; 98; 34; 41; 10] in       (* @u(r"db")\n *)
  str_span content "db" 1 3 1 8 = (5, 7)
  /\ marks_on_line [64; 117; 40; 114; 34; 100; 98; 34; 41] 5 7 [100; 98] = true
  /\ marks_on_line [64; 117; 40; 114; 34; 100; 98; 34; 41] 4 7 [100; 98] = false.   (* old: col+1, ecol-1 *)
Proof. repeat split; vm_compute; reflexivity. Qed.

(** ** [find_function_name_position]: the "def " search lands on the name *)
Lemma find_at_skip p0 p c s off :
  (p0 =? c) = false -> find_at (p0 :: p) (c :: s) off = find_at (p0 :: p) s (off + width c).
Proof. intros H. cbn [find_at tprefix]. now rewrite H. Qed.

(** the first occurrence of a pattern behind a lead that never shows the pattern's first
    character is right behind the lead *)
Lemma find_at_behind p0 p lead : forall rest off,
  forallb (fun c => negb (p0 =? c)) lead = true ->
  find_at (p0 :: p) (lead ++ (p0 :: p) ++ rest) off = Some (off + blen lead).
Proof.
  induction lead as [|c lead IH]; intros rest off H.
  - cbn [app blen find_at tprefix]. rewrite N.eqb_refl. cbn [andb].
    assert (T : forall q r, tprefix q (q ++ r) = true).
    { induction q as [|x q IHq]; intros r; [destruct r; reflexivity|]. cbn. now rewrite N.eqb_refl, IHq. }
    rewrite T. f_equal. lia.
  - cbn [forallb] in H. apply andb_prop in H as [Hc Hw]. apply negb_true_iff in Hc.
    change ((c :: lead) ++ (p0 :: p) ++ rest) with (c :: (lead ++ (p0 :: p) ++ rest)).
    rewrite find_at_skip by exact Hc. rewrite IH by exact Hw. cbn [blen]. f_equal. lia.
Qed.

(** For a definition line of the shape  lead "def " spaces name rest  — where the lead
    (indentation, "async ", anything without a 'd') and the spaces do not contain the first
    character the search looks for — the recorded span is exactly the name's. *)
Theorem def_name_span_exact content line lead sp c0 p rest :
  nth_opt (lines content) (line - 1) = Some (lead ++ def_sp ++ sp ++ (c0 :: p) ++ rest) ->
  forallb (fun c => negb (100 =? c)) lead = true ->
  forallb (fun c => negb (c0 =? c)) sp = true ->
  find_function_name_position content line (c0 :: p)
  = Ok (blen lead + 4 + blen sp, blen lead + 4 + blen sp + blen (c0 :: p)).
Proof.
  intros Hl Hlead Hsp. unfold find_function_name_position, find_function_name_position_with, find_def_kw. rewrite Hl.
  unfold find at 1. change def_sp with (100 :: [101; 102; 32]).
  rewrite (find_at_behind 100 [101; 102; 32] lead) by exact Hlead. change (100 :: [101; 102; 32]) with def_sp.
  replace (lead ++ def_sp ++ sp ++ (c0 :: p) ++ rest) with ((lead ++ def_sp) ++ sp ++ (c0 :: p) ++ rest)
    by (now rewrite <- app_assoc).
  replace (0 + blen lead + 4) with (blen (lead ++ def_sp)) by (rewrite blen_app; change (blen def_sp) with 4; lia).
  rewrite slice_from_app. cbn [of_opt rbind]. unfold find. rewrite find_at_behind by exact Hsp.
  rewrite blen_app. change (blen def_sp) with 4. f_equal.
Qed.

(** the same with a TAB behind the keyword (valid Python), on a line that shows no "def "
    elsewhere: since fix faffab5 the keyword is found and the span is the name's *)
Theorem def_name_span_exact_tab content line lead sp c0 p rest :
  nth_opt (lines content) (line - 1) = Some (lead ++ def_tab ++ sp ++ (c0 :: p) ++ rest) ->
  find def_sp (lead ++ def_tab ++ sp ++ (c0 :: p) ++ rest) = None ->
  forallb (fun c => negb (100 =? c)) lead = true ->
  forallb (fun c => negb (c0 =? c)) sp = true ->
  find_function_name_position content line (c0 :: p)
  = Ok (blen lead + 4 + blen sp, blen lead + 4 + blen sp + blen (c0 :: p)).
Proof.
  intros Hl Hno Hlead Hsp. unfold find_function_name_position, find_function_name_position_with, find_def_kw. rewrite Hl, Hno.
  unfold find at 1. change def_tab with (100 :: [101; 102; 9]).
  rewrite (find_at_behind 100 [101; 102; 9] lead) by exact Hlead. change (100 :: [101; 102; 9]) with def_tab.
  replace (lead ++ def_tab ++ sp ++ (c0 :: p) ++ rest) with ((lead ++ def_tab) ++ sp ++ (c0 :: p) ++ rest)
    by (now rewrite <- app_assoc).
  replace (0 + blen lead + 4) with (blen (lead ++ def_tab)) by (rewrite blen_app; change (blen def_tab) with 4; lia).
  rewrite slice_from_app. cbn [of_opt rbind]. unfold find. rewrite find_at_behind by exact Hsp.
  rewrite blen_app. change (blen def_tab) with 4. f_equal.
Qed.

(** before the fix the search fell through to the whole line, which shows the name [e] inside
    the keyword itself (and [sync] inside [async]) *)
Lemma def_tab_old_refuted :
  let content := [100; 101; 102; 9; 101; 40; 41; 58] in                                (* def<TAB>e(): *)
  find_function_name_position_old content 1 [101] = Ok (1, 2)
  /\ find_function_name_position content 1 [101] = Ok (4, 5)
  /\ marks_on_line content 4 5 [101] = true.
Proof. repeat split; vm_compute; reflexivity. Qed.

(** what seeded change S14 does (search for the ALIAS instead of the function name): the
    span lands inside the function's name *)
Lemma def_name_span_alias_refuted :
  let content := [100; 101; 102; 32; 109; 97; 107; 101; 95; 100; 98; 40; 41; 58] in    (* def make_db(): *)
  find_function_name_position content 1 [109; 97; 107; 101; 95; 100; 98] = Ok (4, 11)
  /\ marks_on_line content 4 11 [109; 97; 107; 101; 95; 100; 98] = true
  /\ find_function_name_position content 1 [100; 98] = Ok (9, 11)
  /\ marks_on_line content 9 11 [100; 98] = false.
Proof. repeat split; vm_compute; reflexivity. Qed.

(** what seeded change S53 does (search for the name from the start of the def statement
    instead of behind the keyword): for a fixture named e the search stops inside "def" *)
Lemma def_name_search_from_keyword_refuted :
  let content := [100; 101; 102; 32; 101; 40; 102; 41; 58] in                         (* def e(f): *)
  find_function_name_position content 1 [101] = Ok (4, 5)
  /\ find [101] content = Some 1.
Proof. split; vm_compute; reflexivity. Qed.

(** ** provider ranges: well formed, selection inside the full range *)
Theorem symbol_ranges_nested line eline s e last_len :
  s <= e ->
  well_formed (name_range line s e) = true
  /\ well_formed (symbol_full line eline e last_len) = true
  /\ inside (name_range line s e) (symbol_full line eline e last_len) = true.
Proof.
  intros H. unfold well_formed, inside, name_range, symbol_full, pos_le. cbn [r_start r_end p_line p_char].
  set (l := lsp_line line). set (el := N.max (lsp_line eline) l).
  repeat split.
  - rewrite N.eqb_refl. replace (s <=? e) with true by lia. now rewrite orb_true_r.
  - destruct (el =? l) eqn:E.
    + apply N.eqb_eq in E. rewrite E, N.eqb_refl. cbn [andb]. replace (0 <=? N.max last_len e) with true by lia. now rewrite orb_true_r.
    + assert (l < el) by (apply N.eqb_neq in E; unfold el in *; lia). replace (l <? el) with true by lia. reflexivity.
  - rewrite N.eqb_refl. cbn [andb]. replace (0 <=? s) with true by lia. rewrite orb_true_r. cbn [andb].
    destruct (el =? l) eqn:E.
    + apply N.eqb_eq in E. rewrite E, N.eqb_refl. cbn [andb]. replace (e <=? N.max last_len e) with true by lia. now rewrite orb_true_r.
    + assert (l < el) by (apply N.eqb_neq in E; unfold el in *; lia). replace (l <? el) with true by lia. reflexivity.
Qed.
Theorem item_ranges_nested line s e :
  s <= e ->
  well_formed (item_full line e) = true /\ inside (name_range line s e) (item_full line e) = true.
Proof.
  intros H. unfold well_formed, inside, name_range, item_full, pos_le. cbn [r_start r_end p_line p_char].
  rewrite !N.eqb_refl. cbn [andb]. replace (0 <=? e) with true by lia. replace (0 <=? s) with true by lia.
  replace (e <=? e) with true by lia. now rewrite !orb_true_r.
Qed.
(** before the fixes: a single-line definition's full range was a point *)
Lemma symbol_ranges_old_refuted :
  inside (name_range 21 4 11) (symbol_full_old 21 21) = false
  /\ inside (name_range 21 4 11) (item_full_old 21) = false
  /\ inside (name_range 21 4 11) (symbol_full 21 21 11 22) = true.
Proof. repeat split; vm_compute; reflexivity. Qed.

(** ** the line index: [line_of_offset] counts the newlines before the offset *)
Fixpoint count_nl (s : text) : N := match s with [] => 0 | c :: r => (if c =? 10 then 1 else 0) + count_nl r end.

Lemma line_index_at_gt s : forall off x, In x (line_index_at s off) -> off < x.
Proof.
  induction s as [|c s IH]; intros off x H; [contradiction|]. cbn [line_index_at] in H.
  destruct (c =? 10).
  - destruct H as [<-|H]; [lia|]. apply IH in H. lia.
  - apply IH in H. pose proof (width_pos c). lia.
Qed.
Lemma filter_none {A} (f : A -> bool) l : (forall x, In x l -> f x = false) -> filter f l = [].
Proof.
  induction l as [|x l IH]; intros H; [reflexivity|]. cbn [filter]. rewrite (H x (or_introl eq_refl)).
  apply IH. intros y Hy. apply H. now right.
Qed.
Lemma line_index_count a : forall b off,
  len (filter (fun st => st <=? off + blen a) (line_index_at (a ++ b) off)) = count_nl a.
Proof.
  induction a as [|c a IH]; intros b off.
  - cbn [app blen count_nl]. rewrite filter_none; [reflexivity|].
    intros x Hx. apply line_index_at_gt in Hx. apply N.leb_gt. lia.
  - cbn [app blen count_nl line_index_at]. destruct (c =? 10) eqn:E.
    + apply N.eqb_eq in E. subst c. cbn [filter]. replace (width 10) with 1 by reflexivity.
      replace (off + 1 <=? off + (1 + blen a)) with true by lia. rewrite len_cons.
      replace (off + (1 + blen a)) with (off + 1 + blen a) by lia. rewrite IH. lia.
    + replace (off + (width c + blen a)) with (off + width c + blen a) by lia. rewrite IH. lia.
Qed.
Theorem line_of_offset_correct a b :
  line_of_offset (build_line_index (a ++ b)) (blen a) = 1 + count_nl a.
Proof.
  unfold line_of_offset, build_line_index. cbn [filter]. replace (0 <=? blen a) with true by lia.
  rewrite len_cons. pose proof (line_index_count a b 0) as H. rewrite N.add_0_l in H. rewrite H. lia.
Qed.
