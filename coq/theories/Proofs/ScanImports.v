(** * Proofs for C14: the transitive import scan reaches exactly the closure of the resolved
    import graph; plugin marks only travel along edges that hand plugin status on; the
    classification of a file. *)
From Coq Require Import Arith Lia.
From PLS Require Import Spec.ImportsSpec Proofs.Basics.

Section ScanProofs.
  Variable fd : list (path * facts).
  Variable ws : path.
  Variable sp : option path.
  Variable dists : list dist.
  Variable pths : list (text * text).

  Notation targets := (targets fd sp dists pths).
  Notation analyse := (analyse fd).
  Notation file_exists := (file_exists fd).
  Notation succ := (succ fd sp dists pths).
  Notation visit_file := (visit_file fd sp dists pths).
  Notation import_rounds := (import_rounds fd sp dists pths).

  (** ** sets of paths *)
  Lemma add_path_in p q l : In q (add_path p l) <-> q = p \/ In q l.
  Proof.
    unfold add_path. destruct (mem_path p l) eqn:E.
    - apply mem_path_in in E. split; [tauto|]. intros [->|H]; assumption.
    - rewrite in_app_iff. cbn. split; [intros [H|[H|[]]]; auto|intros [H|H]; auto].
  Qed.

  Lemma analyse_cached p st q :
    In q (ss_cached (analyse p st)) <-> In q (ss_cached st) \/ (q = p /\ file_exists p = true).
  Proof.
    unfold ScanModel.analyse. destruct (ScanModel.file_exists fd p) eqn:E; cbn [ss_cached].
    - rewrite add_path_in. split; [intros [->|H]; auto|intros [H|[-> _]]; auto].
    - split; [auto|intros [H|[_ H]]; [exact H|discriminate]].
  Qed.
  Lemma analyse_plugin p st : ss_plugin (analyse p st) = ss_plugin st.
  Proof. unfold ScanModel.analyse. destruct (ScanModel.file_exists fd p); reflexivity. Qed.
  Lemma fold_analyse_cached l : forall st q,
    In q (ss_cached (fold_left (fun st p => analyse p st) l st)) <->
    In q (ss_cached st) \/ (In q l /\ file_exists q = true).
  Proof.
    induction l as [|p l IH]; intros st q; cbn [fold_left].
    - split; [auto|intros [H|[[] _]]; exact H].
    - rewrite IH, analyse_cached. cbn [In]. split.
      + intros [[H|[-> H]]|[H1 H2]]; auto.
      + intros [H|[[<-|H1] H2]]; auto.
  Qed.

  (** ** one file of a round *)
  (** what [visit_file] does to the analysed set (nothing), the processed set and the set of
      new modules; [tg] = the resolved targets of the file in the state before *)
  Definition visit_targets (importer_plugin : bool) (x : ist) (l : list (path * bool)) : ist :=
    fold_left (fun (x : ist) (tb : path * bool) =>
                 let '(t, hands_on) := tb in
                 let st := i_st x in
                 let do_mark := importer_plugin && hands_on && negb (mem_path t (ss_plugin st)) in
                 let st' := if do_mark then mark t st else st in
                 let re := if do_mark && mem_path t (ss_cached st) then add_path t (i_re x) else i_re x in
                 let new := if negb (mem_path t (i_proc x)) && negb (mem_path t (ss_cached st)) then add_path t (i_new x) else i_new x in
                 mk_ist st' (i_proc x) new re) l x.

  Lemma visit_targets_spec b l : forall x,
    let x' := visit_targets b x l in
    ss_cached (i_st x') = ss_cached (i_st x)
    /\ i_proc x' = i_proc x
    /\ (forall q, In q (i_new x') <-> In q (i_new x) \/ (In q (map fst l) /\ ~ In q (i_proc x) /\ ~ In q (ss_cached (i_st x))))
    /\ (forall q, In q (ss_plugin (i_st x')) ->
                  In q (ss_plugin (i_st x)) \/ (b = true /\ In (q, true) l)).
  Proof.
    induction l as [|[t h] l IH]; intros x; cbn [visit_targets fold_left map].
    - split; [reflexivity|]. split; [reflexivity|]. split; [|tauto]. intros q. split; [tauto|]. intros [H|[[] _]]. exact H.
    - set (y := mk_ist _ _ _ _). specialize (IH y). cbn zeta in IH. destruct IH as [H1 [H2 [H3 H4]]].
      fold (visit_targets b y l).
      assert (Ec : ss_cached (i_st y) = ss_cached (i_st x)).
      { unfold y. cbn [i_st]. destruct (b && h && negb (mem_path t (ss_plugin (i_st x)))); reflexivity. }
      assert (Ep : i_proc y = i_proc x) by reflexivity.
      split; [now rewrite H1|]. split; [now rewrite H2|]. split.
      + intros q. rewrite H3, Ec, Ep. unfold y. cbn [i_new fst In map].
        destruct (negb (mem_path t (i_proc x)) && negb (mem_path t (ss_cached (i_st x)))) eqn:E.
        * apply andb_prop in E as [E1 E2]. apply negb_true_iff in E1, E2.
          assert (N1 : ~ In t (i_proc x)) by (intros X; apply mem_path_in in X; congruence).
          assert (N2 : ~ In t (ss_cached (i_st x))) by (intros X; apply mem_path_in in X; congruence).
          rewrite add_path_in. split.
          -- intros [[->|H]|[H Hn]]; [right; tauto|now left|right; tauto].
          -- intros [H|[[<-|H] Hn]]; [left; now right|left; now left|right; tauto].
        * split.
          -- intros [H|[H Hn]]; [now left|right; tauto].
          -- intros [H|[[<-|H] [Hn1 Hn2]]]; [now left| |right; tauto].
             exfalso. apply andb_false_iff in E as [E|E]; apply negb_false_iff in E; apply mem_path_in in E; tauto.
      + intros q Hq. apply H4 in Hq as [Hq|[Hb Hq]]; [|right; split; [exact Hb|now right]].
        unfold y in Hq. cbn [i_st] in Hq.
        destruct (b && h && negb (mem_path t (ss_plugin (i_st x)))) eqn:E; [|now left].
        unfold mark in Hq. cbn [ss_plugin] in Hq. apply add_path_in in Hq as [->|Hq]; [|now left].
        apply andb_prop in E as [E _]. apply andb_prop in E as [E1 E2]. right. subst. split; [reflexivity|now left].
  Qed.

  Lemma visit_file_unfold x F :
    visit_file x F =
    if mem_path F (i_proc x) then x
    else visit_targets (mem_path F (ss_plugin (i_st x))) (mk_ist (i_st x) (F :: i_proc x) (i_new x) (i_re x)) (targets (i_st x) F).
  Proof. reflexivity. Qed.

  (** ** one round and all rounds, over a successor function [tg] that does not depend on
      the scan state (discharged below: resolution only looks at the tree) *)
  Section Rounds.
    Variable tg : path -> list path.
    Hypothesis tg_is_targets :
      forall st F, (forall q, In q (ss_cached st) -> file_exists q = true) -> map fst (targets st F) = tg F.
    Hypothesis tg_exist : forall F q, In q (tg F) -> file_exists q = true.

    Record round_ok (C : list path) (x0 x : ist) (done_ : list path) : Prop := {
      ro_cached : ss_cached (i_st x) = C;
      ro_proc : forall q, In q (i_proc x) <-> In q (i_proc x0) \/ In q done_;
      ro_new_sound : forall q, In q (i_new x) -> In q (i_new x0) \/ exists F, In F done_ /\ In q (tg F);
      ro_expanded : forall F, In F done_ -> ~ In F (i_proc x0) ->
                              forall q, In q (tg F) -> In q C \/ In q (i_proc x) \/ In q (i_new x) }.

    Lemma round_fold l : forall x0,
      (forall q, In q (ss_cached (i_st x0)) -> file_exists q = true) ->
      round_ok (ss_cached (i_st x0)) x0 (fold_left visit_file l x0) l.
    Proof.
      induction l as [|F l IH] using rev_ind; intros x0 Hex.
      - cbn [fold_left]. constructor; [reflexivity|intros q; cbn; tauto|intros q H; now left|intros G []].
      - rewrite fold_left_app. cbn [fold_left]. specialize (IH x0 Hex). set (x := fold_left visit_file l x0) in *.
        destruct IH as [Hc Hp Hs He].
        rewrite visit_file_unfold. destruct (mem_path F (i_proc x)) eqn:EF.
        + apply mem_path_in in EF. constructor; try assumption.
          * intros q. rewrite Hp, in_app_iff. cbn [In]. split; [tauto|]. intros [H|[H|[<-|[]]]]; auto.
            apply Hp in EF. exact EF.
          * intros q Hq. apply Hs in Hq as [Hq|[G [HG Hq]]]; [now left|]. right. exists G. rewrite in_app_iff. auto.
          * intros G HG Hn q Hq. apply in_app_iff in HG as [HG|[<-|[]]]; [now apply (He G)|].
            apply Hp in EF as [EF|EF]; [contradiction|]. now apply (He F).
        + assert (NF : ~ In F (i_proc x)) by (intros X; apply mem_path_in in X; congruence).
          set (y := mk_ist (i_st x) (F :: i_proc x) (i_new x) (i_re x)).
          pose proof (visit_targets_spec (mem_path F (ss_plugin (i_st x))) (targets (i_st x) F) y) as [V1 [V2 [V3 _]]].
          cbn zeta in V1, V2, V3. cbn [y i_st i_proc i_new] in V1, V2, V3.
          assert (Etg : map fst (targets (i_st x) F) = tg F).
          { apply tg_is_targets. rewrite Hc. exact Hex. }
          rewrite Etg in V3.
          constructor.
          * now rewrite V1.
          * intros q. rewrite V2. cbn [In]. rewrite Hp, in_app_iff. cbn [In]. split; [intros [<-|[H|H]]; auto|].
            intros [H|[H|[<-|[]]]]; auto.
          * intros q Hq. apply V3 in Hq as [Hq|[Hq _]].
            -- apply Hs in Hq as [Hq|[G [HG Hq]]]; [now left|]. right. exists G. rewrite in_app_iff. auto.
            -- right. exists F. rewrite in_app_iff. cbn [In]. auto.
          * intros G HG Hn q Hq. rewrite V2. apply in_app_iff in HG as [HG|[<-|[]]].
            -- destruct (He G HG Hn q Hq) as [H|[H|H]]; [now left|right; left; now right|].
               right. right. apply V3. now left.
            -- destruct (mem_path q (F :: i_proc x)) eqn:E1; [apply mem_path_in in E1; right; left; exact E1|].
               destruct (mem_path q (ss_cached (i_st x))) eqn:E2; [apply mem_path_in in E2; left; now rewrite <- Hc|].
               right. right. apply V3. right. split; [exact Hq|].
               split; intros X; apply mem_path_in in X; congruence.
    Qed.

    Variable seeds : list path.
    Inductive reach_tg : path -> Prop :=
    | rt_seed F : In F seeds -> reach_tg F
    | rt_step F T : reach_tg F -> In T (tg F) -> reach_tg T.

    Record inv (st : sst) (proc to_check : list path) : Prop := {
      i_exist : forall q, In q (ss_cached st) -> file_exists q = true;
      i_seeds : forall q, In q seeds -> In q (ss_cached st);
      i_sound : forall q, In q (ss_cached st) \/ In q to_check \/ In q proc -> reach_tg q;
      i_frontier : forall q, In q (ss_cached st) -> In q proc \/ In q to_check;
      i_expanded : forall F, In F proc -> forall q, In q (tg F) -> In q (ss_cached st) \/ In q proc \/ In q to_check;
      i_done : forall q, In q proc \/ In q to_check -> file_exists q = true -> In q (ss_cached st) }.

    Lemma round_inv st proc to_check re :
      inv st proc to_check ->
      let x := fold_left visit_file to_check (mk_ist st proc [] re) in
      inv (fold_left (fun st p => analyse p st) (i_new x) (i_st x)) (i_proc x) (i_new x).
    Proof.
      intros [He Hsd Hs Hf Hx Hd]. cbn zeta.
      pose proof (round_fold to_check (mk_ist st proc [] re) He) as R.
      set (x := fold_left visit_file to_check (mk_ist st proc [] re)) in *.
      cbn [i_st i_proc i_new] in R. destruct R as [Rc Rp Rs Re].
      constructor.
      - intros q Hq. apply fold_analyse_cached in Hq as [Hq|[_ Hq]]; [|exact Hq]. rewrite Rc in Hq. now apply He.
      - intros q Hq. apply fold_analyse_cached. left. rewrite Rc. now apply Hsd.
      - assert (Hnew : forall q, In q (i_new x) -> reach_tg q).
        { intros q Hq. apply Rs in Hq as [[]|[F [HF Hq]]]. eapply rt_step; [|exact Hq]. apply Hs. auto. }
        intros q [Hq|[Hq|Hq]].
        + apply fold_analyse_cached in Hq as [Hq|[Hq _]]; [rewrite Rc in Hq; apply Hs; now left|now apply Hnew].
        + now apply Hnew.
        + apply Rp in Hq as [Hq|Hq]; apply Hs; auto.
      - intros q Hq. apply fold_analyse_cached in Hq as [Hq|[Hq _]]; [|now right].
        rewrite Rc in Hq. apply Hf in Hq as [Hq|Hq]; left; apply Rp; auto.
      - intros F HF q Hq.
        assert (Old : In F proc -> In q (ss_cached (fold_left (fun st p => analyse p st) (i_new x) (i_st x))) \/ In q (i_proc x) \/ In q (i_new x)).
        { intros Hin. destruct (Hx F Hin q Hq) as [H|[H|H]].
          - left. apply fold_analyse_cached. left. now rewrite Rc.
          - right. left. apply Rp. now left.
          - right. left. apply Rp. now right. }
        apply Rp in HF as [HF|HF]; [now apply Old|].
        destruct (mem_path F proc) eqn:E; [apply mem_path_in in E; now apply Old|].
        assert (Hn : ~ In F proc) by (intros X; apply mem_path_in in X; congruence).
        destruct (Re F HF Hn q Hq) as [H|[H|H]]; auto.
        left. apply fold_analyse_cached. left. rewrite Rc. exact H.
      - intros q Hq Hex. apply fold_analyse_cached. destruct Hq as [Hq|Hq].
        + apply Rp in Hq as [Hq|Hq]; left; rewrite Rc; apply Hd; auto.
        + right. auto.
    Qed.

    Lemma rounds_inv : forall fuel st proc to_check re st' re',
      inv st proc to_check ->
      import_rounds fuel st proc to_check re = Some (st', re') ->
      exists proc', inv st' proc' [].
    Proof.
      induction fuel as [|fuel IH]; intros st proc to_check re st' re' Hinv Hr; [discriminate|].
      cbn [ScanModel.import_rounds] in Hr. destruct to_check as [|t0 tc].
      - injection Hr as <- <-. exists proc. exact Hinv.
      - pose proof (round_inv st proc (t0 :: tc) re Hinv) as R. cbn zeta in R.
        destruct (i_new (fold_left visit_file (t0 :: tc) (mk_ist st proc [] re))) as [|n0 nr] eqn:En.
        + injection Hr as <- <-. cbn [fold_left] in R. eexists. exact R.
        + eapply IH; [exact R|exact Hr].
    Qed.

    (** what a converged scan has analysed: exactly the files reachable from the seeds *)
    Theorem rounds_reach_closure fuel st re st' re' :
      (forall q, In q (ss_cached st) -> file_exists q = true) ->
      (forall q, In q (ss_cached st) <-> In q seeds) ->
      import_rounds fuel st [] seeds re = Some (st', re') ->
      forall q, In q (ss_cached st') <-> reach_tg q.
    Proof.
      intros Hex Hseeds Hr.
      assert (I0 : inv st [] seeds).
      { constructor.
        - exact Hex.
        - intros q Hq. now apply Hseeds.
        - intros q [Hq|[Hq|[]]]; apply rt_seed; [now apply Hseeds|exact Hq].
        - intros q Hq. right. now apply Hseeds.
        - intros F [].
        - intros q [[]|Hq] _. now apply Hseeds. }
      destruct (rounds_inv fuel st [] seeds re st' re' I0 Hr) as [proc' [He Hsd Hs Hf Hx Hd]].
      intros q. split; [intros Hq; apply Hs; now left|].
      intros Hq. induction Hq as [F HF|F T HF IH HT]; [now apply Hsd|].
      destruct (Hf F IH) as [Hp|[]]. destruct (Hx F Hp T HT) as [H|[H|[]]]; [exact H|].
      apply Hd; [now left|]. eapply tg_exist; eauto.
    Qed.
  End Rounds.

  (** ** resolution only looks at the tree: the hypotheses of [rounds_reach_closure] hold for
      the resolved import graph [succ] *)
  Notation dk := (dk fd).
  Definition cache_on_disk (s : Index.index) : Prop := forall p, in_cache s p = true -> disk_file dk p = true.

  Lemma ahas_map {V W} (f : V -> W) p (m : list (path * V)) : ahas p (map (fun kv => (fst kv, f (snd kv))) m) = ahas p m.
  Proof. unfold ahas. induction m as [|kv m IH]; [reflexivity|]. cbn [map existsb fst]. now rewrite IH. Qed.
  Lemma disk_file_exists p : disk_file dk p = file_exists p.
  Proof. unfold disk_file, ScanModel.dk, ScanModel.file_exists. apply ahas_map. Qed.

  Lemma idx_cache_on_disk st : cache_on_disk (idx_of fd st).
  Proof.
    intros p H. rewrite disk_file_exists. unfold in_cache, idx_of in H. cbn [file_cache set_plugin_files set_file_cache] in H.
    unfold ahas in H. apply existsb_exists in H as [[k v] [Hin Hk]]. cbn [fst] in Hk. apply path_eqb_eq in Hk. subst k.
    apply in_flat_map in Hin as [q [_ Hq]]. destruct (alookup q fd) as [w|] eqn:E; [|contradiction].
    destruct Hq as [Hq|[]]. injection Hq as -> _.
    unfold alookup in E. destruct (List.find (fun kv => path_eqb (fst kv) p) fd) as [kv|] eqn:Ef; [|discriminate].
    apply find_some in Ef as [Hin Hk]. unfold ScanModel.file_exists, ahas. apply existsb_exists. eauto.
  Qed.

  Lemma fmf_indep s1 s2 : cache_on_disk s1 -> cache_on_disk s2 ->
    forall parts base, find_module_file dk s1 parts base = find_module_file dk s2 parts base.
  Proof.
    intros H1 H2. induction parts as [|part rest IH]; intros base; [reflexivity|].
    destruct rest as [|r rest'].
    - cbn [find_module_file].
      assert (E : forall p, disk_file dk p || in_cache s1 p = (disk_file dk p || in_cache s2 p)).
      { intros p. destruct (disk_file dk p) eqn:Ed; [reflexivity|]. cbn [orb].
        destruct (in_cache s1 p) eqn:E1; [apply H1 in E1; congruence|].
        destruct (in_cache s2 p) eqn:E2; [apply H2 in E2; congruence|reflexivity]. }
      now rewrite !E.
    - change (find_module_file dk s1 (part :: r :: rest') base) with
        (if disk_dir dk (part :: base) then find_module_file dk s1 (r :: rest') (part :: base) else None).
      change (find_module_file dk s2 (part :: r :: rest') base) with
        (if disk_dir dk (part :: base) then find_module_file dk s2 (r :: rest') (part :: base) else None).
      now rewrite IH.
  Qed.
  Lemma fmf_exists s : cache_on_disk s ->
    forall parts base p, find_module_file dk s parts base = Some p -> file_exists p = true.
  Proof.
    intros Hc. induction parts as [|part rest IH]; intros base p H; [discriminate|].
    destruct rest as [|r rest'].
    - cbn [find_module_file] in H. cbv zeta in H.
      match type of H with (if ?c then _ else _) = _ => destruct c eqn:E1 end.
      + injection H as <-. rewrite <- disk_file_exists. apply orb_prop in E1 as [E|E]; [exact E|now apply Hc].
      + match type of H with (if ?c then _ else _) = _ => destruct c eqn:E2 end; [|discriminate].
        injection H as <-. rewrite <- disk_file_exists. apply orb_prop in E2 as [E|E]; [exact E|now apply Hc].
    - change (find_module_file dk s (part :: r :: rest') base) with
        (if disk_dir dk (part :: base) then find_module_file dk s (r :: rest') (part :: base) else None) in H.
      destruct (disk_dir dk (part :: base)); [|discriminate]. eapply IH; eauto.
  Qed.

  Lemma first_some_ext {A B} (f g : A -> option B) l : (forall x, f x = g x) -> first_some f l = first_some g l.
  Proof. intros H. induction l as [|x l IH]; [reflexivity|]. cbn. now rewrite H, IH. Qed.
  Lemma first_some_some {A B} (f : A -> option B) l y : first_some f l = Some y -> exists x, In x l /\ f x = Some y.
  Proof.
    induction l as [|x l IH]; [discriminate|]. cbn. destruct (f x) eqn:E.
    - intros H. injection H as <-. exists x. auto.
    - intros H. apply IH in H as [z [H1 H2]]. exists z. auto.
  Qed.

  Lemma resolve_edge_indep s1 s2 rs F e : cache_on_disk s1 -> cache_on_disk s2 ->
    resolve_edge dk s1 rs F e = resolve_edge dk s2 rs F e.
  Proof.
    intros H1 H2. unfold resolve_edge. destruct F as [|n base]; [reflexivity|].
    destruct (0 <? e_level e)%N.
    - unfold resolve_relative. destruct (up _ base) as [d|]; [|reflexivity].
      destruct (e_mod e); [reflexivity|]. now apply fmf_indep.
    - destruct (e_mod e) as [|m ms]; [reflexivity|]. unfold resolve_absolute.
      rewrite (first_some_ext _ (find_module_file dk s2 (m :: ms)) (ancestors base)) by (intros; now apply fmf_indep).
      rewrite (first_some_ext _ (find_module_file dk s2 (m :: ms)) rs) by (intros; now apply fmf_indep).
      reflexivity.
  Qed.
  Lemma resolve_edge_exists s rs F e T : cache_on_disk s -> resolve_edge dk s rs F e = Some T -> file_exists T = true.
  Proof.
    intros Hc. unfold resolve_edge. destruct F as [|n base]; [discriminate|].
    destruct (0 <? e_level e)%N.
    - unfold resolve_relative. destruct (up _ base) as [d|]; [|discriminate].
      destruct (e_mod e) as [|m ms].
      + destruct (disk_file dk (init_py :: d)) eqn:E; [|discriminate]. intros H. injection H as <-. now rewrite <- disk_file_exists.
      + now apply fmf_exists.
    - destruct (e_mod e) as [|m ms]; [discriminate|]. unfold resolve_absolute.
      destruct (first_some _ (ancestors base)) as [p|] eqn:E1.
      + intros H. injection H as <-. apply first_some_some in E1 as [x [_ Hx]]. eapply fmf_exists; eauto.
      + intros H. apply first_some_some in H as [x [_ Hx]]. eapply fmf_exists; eauto.
  Qed.

  Lemma targets_indep st F : map fst (targets st F) = succ F.
  Proof.
    unfold ImportsSpec.succ, ScanModel.targets. destruct (alookup F fd) as [v|]; [|reflexivity].
    destruct (f_ok v); [|reflexivity].
    induction (f_edges v) as [|e es IH]; [reflexivity|]. cbn [flat_map]. rewrite !map_app, IH. f_equal.
    rewrite (resolve_edge_indep (idx_of fd st) (idx_of fd (all_cached fd)) _ F e (idx_cache_on_disk _) (idx_cache_on_disk _)).
    destruct (resolve_edge _ _ _ F e); reflexivity.
  Qed.
  Lemma succ_exists F T : In T (succ F) -> file_exists T = true.
  Proof.
    unfold ImportsSpec.succ, ScanModel.targets. destruct (alookup F fd) as [v|]; [|intros []].
    destruct (f_ok v); [|intros []]. intros H. apply in_map_iff in H as [[t b] [<- H]]. cbn [fst].
    apply in_flat_map in H as [e [_ He]].
    destruct (resolve_edge dk (idx_of fd (all_cached fd)) (roots fd sp dists pths) F e) as [t'|] eqn:E; [|contradiction].
    destruct He as [He|[]]. injection He as <- _. eapply resolve_edge_exists; [apply idx_cache_on_disk|exact E].
  Qed.

  (** ** the theorem: a converged import scan has analysed exactly the seeds and everything
      reachable from them through resolved star imports, explicit imports and
      pytest_plugins entries — on any tree, any import graph (cycles, diamonds, chains) *)
  Theorem import_scan_reaches_closure st st' :
    (forall q, In q (ss_cached st) -> file_exists q = true) ->
    (forall q, In q (ss_cached st) -> In q (seed_files fd sp dists pths st)) ->
    import_scan_opt fd sp dists pths st = Some st' ->
    forall q, In q (ss_cached st') <-> reach fd sp dists pths (seed_files fd sp dists pths st) q.
  Proof.
    intros Hex Hseeds Hs q. unfold import_scan_opt in Hs.
    destruct (import_rounds _ st [] (seed_files fd sp dists pths st) []) as [[st'' re]|] eqn:E; [|discriminate].
    injection Hs as <-.
    pose proof (rounds_reach_closure succ (fun st0 F _ => targets_indep st0 F) succ_exists
                  (seed_files fd sp dists pths st) (S (S (length fd))) st [] st'' re Hex) as R.
    assert (Hss : forall q0, In q0 (ss_cached st) <-> In q0 (seed_files fd sp dists pths st)).
    { intros q0. split; [apply Hseeds|]. unfold seed_files. intros H. apply filter_In in H. tauto. }
    specialize (R Hss E q). rewrite R. clear.
    split; intros H; induction H as [F HF|F T HF IH HT]; [now apply reach_seed|eapply reach_step; eauto|now apply rt_seed|eapply rt_step; eauto].
  Qed.

  Lemma targets_indep_full st F : targets st F = targets (all_cached fd) F.
  Proof.
    unfold ScanModel.targets. destruct (alookup F fd) as [v|]; [|reflexivity].
    destruct (f_ok v); [|reflexivity].
    induction (f_edges v) as [|e es IH]; [reflexivity|]. cbn [flat_map]. rewrite IH. f_equal.
    now rewrite (resolve_edge_indep (idx_of fd st) (idx_of fd (all_cached fd)) _ F e (idx_cache_on_disk _) (idx_cache_on_disk _)).
  Qed.

  (** plugin marks only travel along star imports / pytest_plugins entries out of plugin files *)
  Inductive plugin_reach (P0 : list path) : path -> Prop :=
  | pr_base F : In F P0 -> plugin_reach P0 F
  | pr_step F T : plugin_reach P0 F -> In (T, true) (targets (all_cached fd) F) -> plugin_reach P0 T.

  Lemma fold_visit_plugin P0 l : forall x,
    (forall q, In q (ss_plugin (i_st x)) -> plugin_reach P0 q) ->
    forall q, In q (ss_plugin (i_st (fold_left visit_file l x))) -> plugin_reach P0 q.
  Proof.
    induction l as [|F l IH]; intros x Hx; [exact Hx|]. cbn [fold_left]. apply IH.
    rewrite visit_file_unfold. destruct (mem_path F (i_proc x)); [exact Hx|].
    intros q Hq.
    pose proof (visit_targets_spec (mem_path F (ss_plugin (i_st x))) (targets (i_st x) F)
                  (mk_ist (i_st x) (F :: i_proc x) (i_new x) (i_re x))) as [_ [_ [_ V4]]].
    cbn zeta in V4. cbn [i_st] in V4. apply V4 in Hq as [Hq|[Hb Hq]]; [now apply Hx|].
    apply mem_path_in in Hb. rewrite targets_indep_full in Hq. eapply pr_step; [apply Hx; exact Hb|exact Hq].
  Qed.
  Lemma fold_analyse_plugin l : forall st, ss_plugin (fold_left (fun st p => analyse p st) l st) = ss_plugin st.
  Proof. induction l as [|p l IH]; intros st; [reflexivity|]. cbn [fold_left]. now rewrite IH, analyse_plugin. Qed.

  Theorem import_scan_plugin_sound st st' :
    import_scan_opt fd sp dists pths st = Some st' ->
    forall q, In q (ss_plugin st') -> plugin_reach (ss_plugin st) q.
  Proof.
    unfold import_scan_opt.
    destruct (import_rounds _ st [] (seed_files fd sp dists pths st) []) as [[st'' re]|] eqn:E; [|discriminate].
    intros H. injection H as <-. revert E.
    generalize (seed_files fd sp dists pths st) as tc. generalize (@nil path) at 2 as re0. generalize (@nil path) as proc.
    assert (G : forall fuel st0 proc tc re0,
               (forall q, In q (ss_plugin st0) -> plugin_reach (ss_plugin st) q) ->
               import_rounds fuel st0 proc tc re0 = Some (st'', re) ->
               forall q, In q (ss_plugin st'') -> plugin_reach (ss_plugin st) q).
    { induction fuel as [|fuel IH]; intros st0 proc tc re0 H0 Hr; [discriminate|].
      cbn [ScanModel.import_rounds] in Hr. destruct tc as [|t0 tc]; [injection Hr as <- _; exact H0|].
      pose proof (fold_visit_plugin (ss_plugin st) (t0 :: tc) (mk_ist st0 proc [] re0) H0) as Hf.
      destruct (i_new (fold_left visit_file (t0 :: tc) (mk_ist st0 proc [] re0))) as [|n0 nr] eqn:En.
      - injection Hr as <- _. exact Hf.
      - eapply IH; [|exact Hr]. intros q Hq. rewrite fold_analyse_plugin in Hq. now apply Hf. }
    intros proc re0 tc E. eapply G; [|exact E]. intros q Hq. now apply pr_base.
  Qed.

  (** ** classification: third-party by where the source lives *)
  Theorem third_party_table F :
    third_party fd ws sp dists pths F
    = (in_site_packages ws F
       || match List.find (fun r => starts_with F r) (editable_roots fd sp dists pths) with
          | Some r => negb (starts_with r ws || path_eqb r ws) && negb (starts_with ws r || path_eqb ws r)
          | None => false
          end).
  Proof. reflexivity. Qed.
  Lemma workspace_file_not_third F :
    starts_with F ws = true ->
    existsb (String.eqb site_packages) (firstn (length F - length ws) F) = false ->
    (forall r, In r (editable_roots fd sp dists pths) -> starts_with F r = true -> starts_with r ws = true \/ r = ws \/ starts_with ws r = true) ->
    third_party fd ws sp dists pths F = false.
  Proof.
    intros Hw Hs He. unfold third_party, in_site_packages. rewrite Hw, Hs. cbn [orb]. unfold editable_third.
    destruct (List.find _ _) as [r|] eqn:E; [|reflexivity]. apply find_some in E as [Hin Hr].
    destruct (He r Hin Hr) as [H|[->|H]].
    - now rewrite H.
    - now rewrite path_eqb_refl, orb_true_r.
    - rewrite H. cbn [orb negb]. now rewrite andb_false_r.
  Qed.
End ScanProofs.

(** ** entry_points.txt: exactly the [k = v] lines of the [pytest11] section *)
Definition is_header (l : text) : bool := first_is lbracket (trim l) && last_is rbracket (trim l).
Definition entry_of_line (l : text) : list (text * text) :=
  let t := trim l in
  if negb (match t with [] => true | _ => false end) && negb (first_is hash t)
  then match split_once eq_sign t with Some (a, b) => [(trim a, trim b)] | None => [] end
  else [].

Lemma entry_points_in_section body : forall tail,
  forallb (fun l => negb (is_header l)) body = true ->
  entry_points_loop (body ++ tail) true = flat_map entry_of_line body ++ entry_points_loop tail true.
Proof.
  induction body as [|l body IH]; intros tail H; [reflexivity|].
  cbn [forallb] in H. apply andb_prop in H as [Hl Hb]. apply negb_true_iff in Hl. unfold is_header in Hl.
  cbn [app entry_points_loop flat_map]. rewrite Hl. unfold entry_of_line. cbn [andb].
  destruct (negb (match trim l with [] => true | _ => false end) && negb (first_is hash (trim l))).
  - destruct (split_once eq_sign (trim l)) as [[a b]|]; cbn [app]; now rewrite IH.
  - cbn [app]. now apply IH.
Qed.
Lemma entry_points_outside_section body : forall tail,
  forallb (fun l => negb (is_header l)) body = true ->
  entry_points_loop (body ++ tail) false = entry_points_loop tail false.
Proof.
  induction body as [|l body IH]; intros tail H; [reflexivity|].
  cbn [forallb] in H. apply andb_prop in H as [Hl Hb]. apply negb_true_iff in Hl. unfold is_header in Hl.
  cbn [app entry_points_loop]. rewrite Hl. cbn [andb]. now apply IH.
Qed.
Lemma entry_points_header l tail b :
  is_header l = true -> entry_points_loop (l :: tail) b = entry_points_loop tail (text_eqb (trim l) pytest11_hdr).
Proof. unfold is_header. intros H. cbn [entry_points_loop]. now rewrite H. Qed.

(** ** the last assignment to pytest_plugins wins *)
Definition assigns_plugins (st : stmt) : bool :=
  match st with
  | SAssign targets _ _ => existsb (is_name "pytest_plugins") targets
  | SAnnAssign t (Some _) _ => is_name "pytest_plugins" t
  | _ => false
  end.
Theorem last_pytest_plugins_wins before targets v line after :
  existsb (is_name "pytest_plugins") targets = true ->
  forallb (fun st => negb (assigns_plugins st)) after = true ->
  pytest_plugins (before ++ SAssign targets v line :: after) = plugin_strings v.
Proof.
  intros Ht Ha. unfold pytest_plugins. rewrite fold_left_app. cbn [fold_left]. rewrite Ht.
  generalize (plugin_strings v) as acc. induction after as [|st after IH]; intros acc; [reflexivity|].
  cbn [forallb] in Ha. apply andb_prop in Ha as [H1 H2]. apply negb_true_iff in H1. cbn [fold_left].
  destruct st; cbn [assigns_plugins] in H1; try (now apply IH).
  - rewrite H1. now apply IH.
  - destruct value; [rewrite H1|]; now apply IH.
Qed.
